"""C03 — sequential string sorting: structural necessary conditions (sortedness and LCP values are
value-level and not decided).  Shadow-pointer typestate (data is home before an in-place sorter sees
it), disposal of every bucket exactly once at the right offset, depth bookkeeping of the explicit radix
stacks, bucket ranges, step constructors (bucket 0 final, count/distribute agreement, prefix-sum use),
fall-back chain, key packing, LCP slot 0 ownership, public entry points.

Verdict policy of this file: a violation is only reported on positive evidence, i.e. a value computed by an
evaluation over constructs that are completely understood (the linear form of an offset, a path of the bucket
dispatch whose every operation on the radix step is classified, a row of the key-packing table, a concrete
index reached on a CFG path).  A shape that is not recognised raises dtable.Undecidable (exit 2), it is never
reported as a violation; absence of an effect is only concluded in a closed world (every operation that touches
the state on that path is recognised)."""
from engine import ir, dtable, match, cfg as cfgm
from engine.ir import kids, walk, strip_casts, const_int, ref_of
from engine.dtable import Undecidable

NS = "tlx::sort_strings_detail::"
INPLACE_NAMES = ("insertion_sort", "multikey_quicksort")
SHADOW_OPS = ("flip", "shadow", "copy_back", "flipped")
# member functions of the string pointer classes that neither move strings between the arrays nor change the range
PTR_PURE = ("active", "size", "set_lcp", "get_lcp", "lcp", "fill_lcp", "with_lcp", "shadow", "flipped", "begin", "end")
STACK_PURE = ("top", "size", "empty")
INF = float("inf")


def is_shadow_type(ty):
    return "StringShadowPtr<" in (ty or "") or "StringShadowLcpPtr<" in (ty or "")


def label(fn):
    t = fn.targs[0] if fn.targs else fn.full
    s = "lcp" if "LcpPtr" in t else "plain"
    for name in ("CUChar", "UChar", "UPtrStd", "StdString", "StringSuffix"):
        if name in t or (name == "UChar" and "GenericCharStringSet<unsigned char>" in t) or \
                (name == "CUChar" and "GenericCharStringSet<const unsigned char>" in t):
            return "%s/%s" % (name, s)
    return s


def where(fn, extra=""):
    return "%s [%s]%s" % (fn.name, label(fn), (" " + extra) if extra else "")


def und(fn, node, what):
    """the construct is not understood: cannot decide (never a violation)"""
    loc = fn.nloc(node) if (node is not None and node.get("l")) else fn.loc
    raise Undecidable("%s: %s: %s" % (loc, fn.name, what))


def postorder(n):
    """the nodes of an expression, operands before their operator, left to right"""
    if n is None:
        return
    for c in kids(n):
        yield from postorder(c)
    yield n


def is_size_t(ty):
    ty = (ty or "").replace("const ", "").replace("&", "").strip()
    return ty in ("unsigned long", "size_t", "std::size_t", "unsigned long long")


def role_index(params, role, ctor=False):
    """position of the parameter that plays the given role: by its name, else by its position among the size_t parameters
    ((depth, memory) for functions, ([base,] depth) for step constructors)"""
    names = [p["name"] for p in params]
    if role in names:
        return names.index(role)
    ints = [i for i, p in enumerate(params) if is_size_t(p["ty"])]
    if ctor:
        order = {2: ("base", "depth"), 1: ("depth",)}.get(len(ints), ())
    else:
        order = {2: ("depth", "memory")}.get(len(ints), ())
    for r, i in zip(order, ints):
        if names[i] in ("depth", "memory", "base") and names[i] != r:
            return None         # a parameter that carries the name of another role: no guessing
    return ints[order.index(role)] if role in order else None


# ------------------------------------------------------------------ locals that only name a value
def _fn_index(fn):
    c = getattr(fn, "_c03_index", None)
    if c is None:
        decls, writes = {}, {}
        for z in fn.nodes():
            if z["k"] == "VarDecl" and z.get("did") is not None:
                decls[z["did"]] = z
            tgt = None
            if z["k"] in ("BinaryOperator", "CompoundAssignOperator", "CXXOperatorCallExpr"):
                b = match.binop(z)
                if b and b[0].endswith("=") and b[0] not in ("==", "!=", "<=", ">="):
                    tgt = ref_of(b[1])
            u = match.unop(z, ("++", "--"))
            if u:
                tgt = ref_of(u[1])
            if z["k"] == "UnaryOperator" and z.get("op") == "&":
                tgt = ref_of(kids(z)[0])
            if tgt is not None:
                writes.setdefault(tgt, []).append(z)
        c = fn._c03_index = (decls, writes)
    return c


def decl_of(fn, did):
    return _fn_index(fn)[0].get(did)


def writes_of(fn, did):
    return _fn_index(fn)[1].get(did, [])


def transparent_init(fn, did):
    """the initialiser of a local that is initialised once and never written afterwards (it only names that value)"""
    d = decl_of(fn, did)
    if d is None or not kids(d) or kids(d)[0] is None or writes_of(fn, did):
        return None
    return kids(d)[0]


def resolve(fn, e, depth=0):
    """e, looking through casts and through locals that only name a value"""
    e = strip_casts(e)
    while e is not None and e["k"] == "DeclRefExpr" and depth < 8:
        init = transparent_init(fn, e["ref"]["id"])
        if init is None:
            break
        e = strip_casts(init)
        depth += 1
    return e


# ------------------------------------------------------------------ linear forms
def lin_add(a, b, f=1):
    out = dict(a)
    for k, v in b.items():
        out[k] = out.get(k, 0) + f * v
        if out[k] == 0:
            del out[k]
    return out


def lin_scale(a, c):
    return {k: v * c for k, v in a.items() if v * c}


def fmt_lin(l):
    if l is None:
        return "?"
    parts = []
    for k, v in sorted(l.items(), key=lambda kv: str(kv[0])):
        if k == 1:
            parts.append(str(v))
        else:
            parts.append(("%s" % k) if v == 1 else "%d*%s" % (v, k))
    return " + ".join(parts) if parts else "0"


def lin_mul(a, b):
    if a is None or b is None:
        return None
    for x, y in ((a, b), (b, a)):
        if set(x.keys()) <= {1}:
            return lin_scale(y, x.get(1, 0))
    return None


def canon_cmp(op, a, b):
    """`a op b` over integer linear forms as (kind, lin, negated): kind 'lt' means lin < 0, 'eq' means lin == 0; the leading
    coefficient of lin is positive, so that x < 5, !(x >= 5), 5 > x, x <= 4 are one atom.  A bool if no symbol is left."""
    if op in ("<", ">="):
        kind, l, neg = "lt", lin_add(a, b, -1), op == ">="
    elif op in (">", "<="):
        kind, l, neg = "lt", lin_add(b, a, -1), op == "<="
    elif op in ("==", "!="):
        kind, l, neg = "eq", lin_add(a, b, -1), op == "!="
    else:
        return None
    syms = sorted((k for k in l if k != 1), key=str)
    if not syms:
        c = l.get(1, 0)
        t = (c < 0) if kind == "lt" else (c == 0)
        return (not t) if neg else t
    if l[syms[0]] < 0:
        if kind == "eq":
            l = lin_scale(l, -1)
        else:                   # lin < 0  <=>  !(-lin - 1 < 0)
            l = lin_add(lin_scale(l, -1), {1: 1}, -1)
            neg = not neg
    return kind, l, neg


def atom_text(kind, l):
    c = l.get(1, 0)
    rest = {k: v for k, v in l.items() if k != 1}
    return "%s %s %d" % (fmt_lin(rest), "<" if kind == "lt" else "==", -c)


def sym_interval(val, atoms, sym, counts_up=False):
    """[lo, hi] of the unsigned symbol implied by the decided atoms that talk about this symbol alone; None if they contradict.
    counts_up: the symbol counts up from 0 in steps of one and the path is left at the first failing test, so x != c bounds it"""
    lo, hi = 0, INF
    cons = []
    for key, v in val.items():
        info = atoms.get(key)
        if info and set(info[1]) - {1} == {sym}:
            cons.append((info[0], info[1][sym], info[1].get(1, 0), v))
    for kind, k, c, v in cons:
        t = -((c) // k)         # ceil(-c / k)
        if kind == "lt":
            if v:
                hi = min(hi, t - 1)
            else:
                lo = max(lo, t)
    for kind, k, c, v in cons:
        if kind != "eq":
            continue
        exact = (-c) % k == 0
        t = (-c) // k
        if v:
            if not exact:
                return None
            lo, hi = max(lo, t), min(hi, t)
        elif exact:
            if lo == t:
                lo += 1
            if hi == t:
                hi -= 1
            if counts_up and t > lo:
                hi = min(hi, t - 1)
    return None if lo > hi else (lo, hi)


_CASTS = ("ImplicitCastExpr", "CStyleCastExpr", "CXXStaticCastExpr", "CXXFunctionalCastExpr", "CXXReinterpretCastExpr", "CXXConstCastExpr")
_WIDTH = {"bool": 1, "char": 1, "signed char": 1, "unsigned char": 1, "short": 2, "unsigned short": 2, "int": 4, "unsigned int": 4,
          "long": 8, "unsigned long": 8, "long long": 8, "unsigned long long": 8}


def narrowing(cast):
    """an integral conversion to a type with fewer bits"""
    if cast.get("cast") not in ("IntegralCast", "IntegralToBoolean"):
        return False
    to = _WIDTH.get((cast.get("ty") or "").replace("const ", "").strip(), 8)
    frm = _WIDTH.get((cast.get("from") or "").replace("const ", "").strip(), 4 if "enum" in (cast.get("from") or "") else 8)
    return to < frm


class Lin:
    """linear forms over symbols: 'depth', 'memory', 'size' (radixstack.size()), 'b' (size of the bucket in hand), 'pos0' /
    'idx0' (the step's cursor before this bucket).  Everything that is not understood evaluates to None."""

    def __init__(self, fn, sym, stack=None, strptr_param=None):
        self.fn = fn
        self.sym = sym             # decl id -> symbol
        self.stack = stack
        self.strptr_param = strptr_param
        self.pos = None            # current value of the step's pos / idx
        self.idx = None
        self.bound = {}            # locals of the explored path: their value where they were last set
        self.vals = {}             # node id -> value of an expression with a side effect (++x, x += e, x = e)
        self.steps = set()         # locals that are references to radixstack.top()
        self.ptrs = set()          # locals that name the string pointer the buckets are cut from
        self.size_stale = False    # the stack was pushed/popped on this path
        self.step_gone = False     # ... so that top() and the locals that name it no longer denote the step of this round

    # -- what an expression denotes
    def is_step(self, e):
        e = strip_casts(e)
        if e is None:
            return False
        if e["k"] == "DeclRefExpr":
            return e["ref"]["id"] in self.steps
        if e["k"] == "UnaryOperator" and e.get("op") == "*":
            return self.is_step(kids(e)[0])     # *p with RadixStep* p = &radixstack.top()
        return "callee" in e and e.get("member_call") and e["callee"]["name"] == "top" and self.stack is not None and \
            ref_of(kids(e)[0]) == self.stack

    def step_field(self, e):
        e = strip_casts(e)
        if e is not None and e["k"] == "MemberExpr" and kids(e) and self.is_step(kids(e)[0]):
            return e.get("member")
        return None

    def is_ptr(self, e):
        """the string pointer of the whole step: rs.strptr (out of place) or the sorter's own parameter (in place)"""
        e = strip_casts(e)
        if e is None:
            return False
        if self.step_field(e) == "strptr":
            return True
        if e["k"] == "DeclRefExpr":
            return e["ref"]["id"] == self.strptr_param or e["ref"]["id"] in self.ptrs
        return False

    def ev(self, e, arg=False, _depth=0):
        """arg: e is an argument / initialiser whose value is asked for before its conversion to the parameter type"""
        c = const_int(e)
        if c is not None:
            return {1: c} if c else {}
        while e is not None and e["k"] in _CASTS and kids(e):
            if narrowing(e) and not arg:
                return None         # the value is cut down to fewer bits: not a linear form of the operand
            e = kids(e)[0]
        e = strip_casts(e)
        if e is None:
            return None
        c = const_int(e)
        if c is not None:
            return {1: c} if c else {}
        if e.get("id") in self.vals:
            v = self.vals[e["id"]]
            return dict(v) if v is not None else None
        k = e["k"]
        if k in ("ParenExpr", "CXXDefaultInitExpr") and kids(e):
            return self.ev(kids(e)[0])
        if k == "DeclRefExpr":
            did = e["ref"]["id"]
            s = self.sym.get(did)
            if s:
                return {s: 1}
            if did in self.bound:
                v = self.bound[did]
                return dict(v) if v is not None else None
            # a local declared outside the explored fragment that only names a value; such a value may not depend on
            # anything that moves while the loop runs
            init = transparent_init(self.fn, did)
            if init is not None:
                v = self.ev(init)
                if v is not None and not (set(v) & {"size", "pos0", "idx0", "b"}):
                    return v
            return None
        f = self.step_field(e)
        if f is not None and self.step_gone:
            return None             # the stack was popped / pushed: top() and the locals naming it denote another step now
        if f == "pos":
            return dict(self.pos) if self.pos is not None else None
        if f == "idx":
            return dict(self.idx) if self.idx is not None else None
        if "callee" in e and e["callee"]["name"] == "size" and e.get("member_call") and self.stack is not None and \
                ref_of(kids(e)[0]) == self.stack:
            return None if self.size_stale else {"size": 1}
        if "callee" in e and e.get("op") == "()" and _depth < 4:
            # f() with f a local lambda `[&stack, depth] { return e; }`: the call denotes e at the point of the call.  What is
            # captured by reference is the variable itself; a copy is only the variable if that is a parameter that is never
            # written (depth, memory) - a copy of anything else (the stack!) is a snapshot taken where the lambda is written
            r = lambda_inline(self.fn, e)
            if not r:
                return None
            le = lambda_of_call(self.fn, e)[1]
            for c_ in le.get("captures") or []:
                if not c_.get("byref") and c_.get("id") not in self.sym:
                    # (lambda_inline has made sure that the variable is never written:) an integer local that is only initialised
                    dv = decl_of(self.fn, c_.get("id"))
                    ty = ((dv or {}).get("ty") or "").replace("const ", "").strip()
                    if dv is None or not (ty in _WIDTH or is_size_t(ty)):
                        return None
            return self.ev(dtable._subst(r[0], r[1]) if r[1] else r[0], _depth=_depth + 1)
        ip = match.index_parts(e)
        if ip and self.step_field(ip[0]) == "bkt_size":
            i = self.ev(ip[1])
            if i is None:
                return None
            return {"b": 1} if i == {"idx0": 1, 1: 1} else {"bkt_size[%s]" % fmt_lin(i): 1}
        b = match.binop(e, ("+", "-", "*")) if k == "BinaryOperator" else None
        if b:
            x, y = self.ev(b[1]), self.ev(b[2])
            if x is None or y is None:
                return None
            if b[0] == "*":
                return lin_mul(x, y)
            return lin_add(x, y, 1 if b[0] == "+" else -1)
        return None


def lin_write(L, z):
    """(target, new value, value of the expression) if z is a write whose amount the linear evaluation understands"""
    u = match.unop(z, ("++", "--")) if z["k"] == "UnaryOperator" else None
    b = match.binop(z) if z["k"] in ("BinaryOperator", "CompoundAssignOperator") else None
    if u:
        old = L.ev(u[1])
        new = lin_add(old, {1: 1}, 1 if u[0] == "++" else -1) if old is not None else None
        return u[1], new, (old if u[2] else new)
    if b and b[0] == "=":
        new = L.ev(b[2])
        return b[1], new, new
    if b and b[0] in ("+=", "-="):
        old, d = L.ev(b[1]), L.ev(b[2])
        new = lin_add(old, d, 1 if b[0] == "+=" else -1) if old is not None and d is not None else None
        return b[1], new, new
    if b and b[0].endswith("=") and b[0] not in ("==", "!=", "<=", ">="):
        return b[1], None, None
    return None


# ------------------------------------------------------------------ step classes
def nodes_with_lambdas(tu, fn, depth=0):
    """the nodes of a function and of the bodies of the lambdas written inside it"""
    for z in fn.nodes():
        yield z
        if z["k"] == "LambdaExpr" and depth < 4:
            lf = tu.by_did.get(z.get("fn"))
            if lf is not None:
                yield from nodes_with_lambdas(tu, lf, depth + 1)


def lambda_of_call(fn, call):
    """(lambda function, LambdaExpr node) if `call` is f(args) with f a local that only names a lambda written in fn"""
    if call is None or "callee" not in call or call.get("op") != "()" or not kids(call):
        return None
    lf = fn.tu.by_did.get(call["callee"].get("did"))
    if lf is None or lf.kind != "lambda":
        return None
    le = resolve(fn, kids(call)[0])
    if le is None or le["k"] != "LambdaExpr" or le.get("fn") != lf.did:
        return lf, None
    return lf, le


def lambda_inline(fn, call):
    """(returned expression, {parameter: argument}) if `call` calls a local lambda of fn whose body is one `return e;` that writes
    nothing: the call then denotes e with the arguments in place of the parameters (what is captured by reference is the
    variable itself; what is captured by copy must never be written in fn, so that the copy is the variable).  None if `call`
    is not a call of a lambda, False if it is one that is not of this form."""
    r = lambda_of_call(fn, call)
    if r is None:
        return None
    lf, le = r
    if le is None or lf.body is None:
        return False
    stmts = [x for x in kids(lf.body) if x is not None and x["k"] != "NullStmt"] if lf.body["k"] == "CompoundStmt" else [lf.body]
    if len(stmts) != 1 or stmts[0]["k"] != "ReturnStmt" or not kids(stmts[0]) or kids(stmts[0])[0] is None:
        return False
    for y in lf.nodes():
        if y["k"] in ("This", "LambdaExpr", "CXXNewExpr", "CXXDeleteExpr", "CXXThrowExpr", "VarDecl"):
            return False
        b = match.binop(y) if y["k"] in ("BinaryOperator", "CompoundAssignOperator", "CXXOperatorCallExpr") else None
        if b and b[0].endswith("=") and b[0] not in ("==", "!=", "<=", ">="):
            return False
        if match.unop(y, ("++", "--")):
            return False
    for c in le.get("captures") or []:
        if c.get("id") is None or (not c.get("byref") and writes_of(fn, c["id"])):
            return False
    args = kids(call)[1:]
    if len(args) != len(lf.params):
        return False
    return kids(stmts[0])[0], {p_["did"]: a for p_, a in zip(lf.params, args)}


def array_at(fn, e, depth=0):
    """(array expression, constant offset) of a pointer into an array: a | a + c | c + a | &a[c] (a: an array); None otherwise"""
    e = resolve(fn, e)
    if e is None or depth > 4:
        return None
    while e["k"] == "ParenExpr" and kids(e):
        e = resolve(fn, kids(e)[0])
    b = match.binop(e, ("+",)) if e["k"] == "BinaryOperator" else None
    if b:
        for x, y in ((b[1], b[2]), (b[2], b[1])):
            c = const_int(y)
            if c is not None:
                r = array_at(fn, x, depth + 1)
                return (r[0], r[1] + c) if r else None
        return None
    if e["k"] == "UnaryOperator" and e.get("op") == "&":
        ip = match.index_parts(kids(e)[0])
        c = const_int(ip[1]) if ip else None
        if c is not None:
            r = array_at(fn, ip[0], depth + 1)
            return (r[0], r[1] + c) if r else None
        return None
    if e["k"] in ("DeclRefExpr", "MemberExpr") and "[" in (e.get("ty") or "") and (e.get("ty") or "").rstrip().endswith("]"):
        return e, 0
    return None


class StepInfo:
    def __init__(self, tu, ctor):
        self.ctor = ctor
        self.rec = ctor.record
        ex = [z["callee"]["name"] for z in nodes_with_lambdas(tu, ctor) if "callee" in z and z["callee"]["name"] in ("get_uint8", "get_uint16")]
        if not ex or len(set(ex)) != 1:
            raise ir.AnalysisBroken("%s: key extractor not unique: %s" % (ctor.full, ex))
        self.k = 1 if ex[0] == "get_uint8" else 2
        recs = [r for r in tu.records if r["qname"] == self.rec and r.get("full", "").startswith(ctor.full.rsplit("::", 1)[0])]
        if not recs:
            recs = [r for r in tu.records if r["qname"] == self.rec]
        if not recs:
            raise ir.AnalysisBroken("record %s not found" % self.rec)
        f = [x for x in recs[0]["fields"] if x["name"] == "bkt_size"]
        if not f or "[" not in f[0]["ty"]:
            raise ir.AnalysisBroken("%s::bkt_size is not an array" % self.rec)
        self.nb = int(f[0]["ty"].split("[")[1].split("]")[0])
        self.shadow = is_shadow_type(ctor.params[0]["ty"])
        self.depth_i = role_index(ctor.params, "depth", ctor=True)
        self.base_i = None if self.shadow else role_index(ctor.params, "base", ctor=True)
        if self.depth_i is None or (not self.shadow and self.base_i is None and
                                    len([p for p in ctor.params if is_size_t(p["ty"])]) > 1):
            raise Undecidable("%s: %s: roles of the constructor parameters (base, depth) not recognised" % (ctor.loc, ctor.name))


def loop_functions(tu):
    """functions that own an explicit radix stack"""
    out = []
    for fn in tu.functions:
        if not fn.qname.startswith(NS + "radixsort_") or fn.body is None:
            continue
        st = [n for n in walk(fn.body) if n["k"] == "VarDecl" and "std::stack<" in (n.get("ty") or "")]
        if st:
            out.append((fn, st[0]))
    return out


def step_of(tu, fn, stackdecl):
    emp = [z for z in walk(fn.body) if "callee" in z and z["callee"]["name"] == "emplace"]
    if not emp:
        raise ir.AnalysisBroken("%s: no emplace on the radix stack" % fn.full)
    ty = stackdecl["ty"]
    name = ty.split("RadixStep_")[1].split("<")[0]
    targ = fn.targs[0]
    ctors = [f for f in tu.functions if f.kind == "ctor" and f.record == NS + "RadixStep_" + name and f.rtargs and f.rtargs[0] == targ]
    if len(ctors) != 1:
        raise ir.AnalysisBroken("%s: constructor of RadixStep_%s<%s> not found (%d)" % (fn.full, name, targ[:40], len(ctors)))
    return StepInfo(tu, ctors[0]), emp


_AWARE = {}


def shadow_aware(tu, callee_did, pidx=0, seen=None):
    """does the callee treat its parameter as a (possibly flipped) shadow pointer?  True: it flips / copies back / reads the
    shadow side itself or hands it to something that does; False: every use of the parameter is understood and works on the
    active array in place; None: some use is not understood"""
    seen = seen if seen is not None else set()
    if (callee_did, pidx) in seen:
        return False            # recursion: decided by the other uses
    seen.add((callee_did, pidx))
    fn = tu.by_did.get(callee_did)
    if fn is None or fn.body is None or pidx >= len(fn.params):
        return None
    p = fn.params[pidx]["did"]
    verdict = False
    for z in fn.nodes():
        if z["k"] != "DeclRefExpr" or z["ref"]["id"] != p:
            continue
        cur = z
        while True:
            par = fn.parent(cur)
            while par is not None and strip_casts(par) is strip_casts(cur):
                cur, par = par, fn.parent(par)      # casts and same-type copies
            if par is None:
                verdict = None if verdict is False else verdict
                break
            if par["k"] == "MemberExpr":
                break                               # a (static) data member such as with_lcp
            if "callee" not in par:
                if par["k"] in ("CompoundStmt", "ReturnStmt"):
                    break
                verdict = None if verdict is False else verdict
                break
            name = par["callee"]["name"]
            args = kids(par)
            if par.get("member_call") and args and strip_casts(args[0]) is strip_casts(cur):
                if name in SHADOW_OPS:
                    return True
                if name == "sub":
                    cur = par                       # a sub-range of the same kind of pointer: follow its use
                    continue
                if name not in PTR_PURE:
                    verdict = None if verdict is False else verdict
                break
            j = [i for i, a in enumerate(args) if strip_casts(a) is strip_casts(cur)]
            if not j:
                verdict = None if verdict is False else verdict
                break
            if name == "emplace":
                return True
            j = j[0] - (1 if par.get("member_call") else 0)
            r = shadow_aware(tu, par["callee"].get("did"), j, seen) if par["callee"].get("did") in tu.by_did else None
            if r is True:
                return True
            if r is None:
                verdict = None if verdict is False else verdict
            break
    return verdict


# ------------------------------------------------------------------ the radix loops
_FILL_MODEL = {}


def lcp_fill_model(tu, did):
    """what fill_lcp(v) of a string pointer class does, read from its body: ("noop",) for an empty body (a pointer without
    LCP array), ("fill", c) for `for (i = c; i < size(); ++i) set_lcp(i, v)` on the object itself; None if the body is not
    known or of another form"""
    if did not in _FILL_MODEL:
        _FILL_MODEL[did] = _lcp_fill_model(tu, did)
    return _FILL_MODEL[did]


def _lcp_fill_model(tu, did):
    fn = tu.by_did.get(did)
    if fn is None or fn.body is None or len(fn.params) != 1:
        return None

    def flat(stmts):
        for s_ in stmts:
            if s_ is not None and s_["k"] == "CompoundStmt":
                yield from flat(kids(s_))
            elif s_ is not None and s_["k"] != "NullStmt":
                yield s_
    stmts = list(flat([fn.body]))
    if not stmts:
        return ("noop",)
    if len(stmts) != 1 or stmts[0]["k"] not in ("ForStmt", "WhileStmt"):
        return None
    loop = stmts[0]
    try:
        parts = fill_loop_parts(fn, loop)
    except Undecidable:
        return None
    if parts is None:
        return None
    var, start, call = parts
    init, cond, inc, body = match.loop_parts(loop)
    a = kids(call)
    if not call.get("member_call") or len(a) != 3 or strip_casts(a[0])["k"] != "This" or ref_of(a[2]) != fn.params[0]["did"]:
        return None
    c = const_int(resolve(fn, start))
    if c is None or c < 0:
        return None
    if any(not any(y is w_ for y in walk(loop)) for w_ in writes_of(fn, var)):
        return None             # the counter is also written outside the loop
    cb = match.binop(cond, ("<", ">")) if cond is not None else None
    if not cb:
        return None
    x, y = (cb[1], cb[2]) if cb[0] == "<" else (cb[2], cb[1])
    sz = strip_casts(y)
    if ref_of(x) != var or sz is None or "callee" not in sz or sz["callee"]["name"] != "size" or not sz.get("member_call") or \
            strip_casts(kids(sz)[0])["k"] != "This":
        return None
    return ("fill", c)


class Path:
    """one path through the dispatch of one bucket: evaluates what happens to the step's cursor and to the bucket"""

    def __init__(self, cx):
        self.cx = cx
        fn = cx.fn
        self.L = Lin(fn, cx.sym, cx.stack, cx.strptr_param)
        self.L.pos = {"pos0": 1}
        self.L.idx = {"idx0": 1}
        self.done = 0
        self.rv = {}            # node id -> the bucket range an expression denotes
        self.lr = {}            # local -> range
        self.handons = []       # dict(range=, cons=, cname=, args=)
        self.fills = []         # (lo, hi, val, node)
        self.bsubs = []         # (index value, node) of the reads of rs.bkt_size[...]
        self.lcp_writes = 0
        self.lr_used = set()    # named ranges whose only use is an LCP fill that is understood
        self.pops = []          # radixstack.pop() calls on this path
        self.pushes = 0         # radixstack.emplace() / push() calls on this path

    def advance(self, run):
        while self.done < len(run.events):
            ev = run.events[self.done]
            self.done += 1
            if ev[0] == "decl":
                self.decl(ev[1])
            elif ev[0] == "expr":
                self.expr(ev[1])
            elif ev[0] == "loop":
                self.loop(ev[1])

    # -- values
    def value(self, e):
        e = strip_casts(e)
        if e is None:
            return None
        if e.get("id") in self.rv:
            return self.rv[e["id"]]
        if e["k"] == "DeclRefExpr" and e["ref"]["id"] in self.lr:
            return self.lr[e["ref"]["id"]]
        return None

    # -- statements
    def decl(self, v):
        fn, L = self.cx.fn, self.L
        init = kids(v)[0] if kids(v) else None
        if init is None:
            L.bound[v["did"]] = None
            return
        for z in postorder(init):
            self.node(z)
        r = self.value(init)
        if r is not None:
            self.lr[v["did"]] = r
        elif L.is_step(init) or (strip_casts(init)["k"] == "UnaryOperator" and strip_casts(init).get("op") == "&" and
                                 L.is_step(kids(strip_casts(init))[0])):
            L.steps.add(v["did"])               # a reference or pointer to radixstack.top()
        elif L.is_ptr(init):
            L.ptrs.add(v["did"])
        else:
            L.bound[v["did"]] = L.ev(init)

    def expr(self, e):
        for z in postorder(e):
            self.node(z)
        r = self.value(e)
        if r is not None and r["kind"] == "flip":
            # a range that is computed and dropped: flip(...).copy_back() as a statement copies a finished bucket home
            # (a dropped sub(...) of an in-place pointer does nothing at all)
            self.handons.append(dict(range=r, cons=None, cname=None, args=[]))

    def write_value(self, z):
        return lin_write(self.L, z)

    def node(self, z):
        cx, L = self.cx, self.L
        fn = cx.fn
        k = z["k"]
        w = self.write_value(z) if k in ("UnaryOperator", "BinaryOperator", "CompoundAssignOperator") else None
        if w:
            tgt, new, val = w
            f = L.step_field(tgt)
            d = ref_of(tgt)
            if f in ("pos", "idx"):
                if new is None:
                    und(fn, z, "rs.%s is changed by an amount that is not understood: %s" % (f, dtable.describe(z)))
                setattr(L, f, new)
                L.vals[z["id"]] = val
            elif f is not None:
                und(fn, z, "the radix step is written: %s" % dtable.describe(z))
            elif d is not None and (d in L.bound or d in L.sym or decl_of(fn, d) is not None):
                if d in L.sym:
                    und(fn, z, "%s is modified inside the bucket loop" % L.sym[d])
                if d in self.lr or d in L.steps or d in L.ptrs:
                    und(fn, z, "a local naming the step or a bucket is reassigned: %s" % dtable.describe(z))
                L.bound[d] = new
                L.vals[z["id"]] = val
            return
        if k == "UnaryOperator" and z.get("op") == "&" and L.step_field(kids(z)[0]) is not None:
            und(fn, z, "address of a field of the radix step is taken")
        if k == "MemberExpr" and L.step_gone and L.step_field(z) is not None:
            und(fn, z, "%s is used after the radix stack was pushed / popped: it no longer names the step of this round" % dtable.describe(z))
        ip = match.index_parts(z) if k == "ArraySubscriptExpr" else None
        if ip and L.step_field(ip[0]) == "bkt_size":
            self.bsubs.append((L.ev(ip[1]), z))
            return
        if "callee" not in z:
            return
        self.lambda_call(z)
        name = z["callee"]["name"]
        args = kids(z)
        if k in ("CXXConstructExpr", "CXXTemporaryObjectExpr") and len(args) == 1 and self.value(args[0]) is not None:
            self.rv[z["id"]] = self.value(args[0])      # a copy of the range
            return
        if z.get("member_call") and args:
            recv = args[0]
            if name in ("flip", "sub") and len(args) == 3 and L.is_ptr(recv):
                self.rv[z["id"]] = dict(kind=name, off=L.ev(args[1]), len=L.ev(args[2]), homed=False, node=z)
                return
            rr = self.value(recv)
            if rr is not None:
                if name == "copy_back" and len(args) == 1:
                    r2 = dict(rr)
                    r2["homed"] = True
                    self.rv[z["id"]] = r2
                    return
                if name == "fill_lcp" and len(args) == 2:
                    # sub(off, n).fill_lcp(v): what the member function does is read from its body
                    m = lcp_fill_model(cx.tu, z["callee"].get("did"))
                    if m is None:
                        und(fn, z, "fill_lcp() on a bucket range: the body of this fill_lcp() is not understood")
                    d = ref_of(recv)
                    if d is not None and d in self.lr:
                        if rr["kind"] != "sub":
                            und(fn, z, "fill_lcp() on a named flipped bucket range is not understood")
                        self.lr_used.add(d)         # in place: the named range has no other effect
                    elif rr["kind"] == "flip":
                        # flip(...)[.copy_back()].fill_lcp(v) as a statement: the temporary range is used up here, what
                        # became of the bucket (copied home or not) is judged like a dropped flip(...).copy_back()
                        self.handons.append(dict(range=rr, cons=None, cname=None, args=[]))
                    if m[0] == "fill":
                        val = L.ev(args[1], arg=True)
                        if rr["off"] is None or rr["len"] is None or val is None:
                            und(fn, z, "fill_lcp() on a bucket range: range or value not understood: %s" % dtable.describe(z))
                        self.fills.append((lin_add(rr["off"], {1: m[1]}), lin_add(rr["off"], rr["len"]), val, z))
                        self.lcp_writes += 1
                    return
                und(fn, z, "%s() on a bucket range is not understood" % name)
            if L.is_ptr(recv):
                if name in ("set_lcp", "fill_lcp"):
                    self.lcp_writes += 1
                if name not in PTR_PURE:
                    und(fn, z, "%s() on the step's string pointer is not understood" % name)
                return
            if cx.stack is not None and ref_of(recv) == cx.stack:
                if name == "emplace":
                    self.consume(z, args[1:], "emplace")
                    L.size_stale = L.step_gone = True
                    self.pushes += 1
                elif name in ("pop", "push"):
                    L.size_stale = L.step_gone = True
                    if name == "pop":
                        self.pops.append(z)
                    else:
                        self.pushes += 1
                elif name not in STACK_PURE:
                    und(fn, z, "%s() on the radix stack is not understood" % name)
                return
            if L.is_step(recv):
                und(fn, z, "member function %s() of the radix step is not understood" % name)
            self.consume(z, args[1:], name)
            return
        self.consume(z, args, name)

    def lambda_call(self, z):
        """a call of a local lambda whose value the linear evaluation does not understand (it is not `return e;` over depth,
        memory, the stack height and the cursor) must not be able to reach the stack, the step or the string pointer"""
        cx, L = self.cx, self.L
        lam = lambda_of_call(cx.fn, z) if z.get("op") == "()" else None
        if lam is None or L.ev(z) is not None:
            return
        if lam[1] is None:
            und(cx.fn, z, "call of a lambda that is not written in this function: %s" % dtable.describe(z))
        for c_ in lam[1].get("captures") or []:
            d = c_.get("id")
            if d is not None and (d == cx.stack or d == cx.strptr_param or d in L.steps or d in L.ptrs or d in self.lr):
                und(cx.fn, z, "%s captures %s; what the call does with it is not understood" % (dtable.describe(z), c_.get("name")))

    def consume(self, z, args, name):
        cx, L = self.cx, self.L
        got = [(i, self.value(a)) for i, a in enumerate(args)]
        got = [(i, r) for i, r in got if r is not None]
        if len(got) > 1:
            und(cx.fn, z, "%s() receives two bucket ranges" % name)
        if got:
            self.handons.append(dict(range=got[0][1], cons=z, cname=name, args=args, argi=got[0][0], vals=[L.ev(a, arg=True) for a in args]))
            return
        # no range among the arguments: the call must not touch the step, the stack or the string pointer in another way
        for a in args:
            for y in walk(a):
                if L.is_step(y) and L.step_field(cx.fn.parent(y)) is None:
                    und(cx.fn, z, "the radix step is handed to %s()" % name)
                if y["k"] == "DeclRefExpr" and y["ref"]["id"] == cx.stack and \
                        not ("callee" in (cx.fn.parent(y) or {}) and cx.fn.parent(y)["callee"]["name"] in STACK_PURE):
                    und(cx.fn, z, "the radix stack is handed to %s()" % name)
            if L.is_ptr(a) and name not in ("StringShadowPtr", "StringShadowLcpPtr", "StringPtr", "StringLcpPtr"):
                und(cx.fn, z, "the step's string pointer is handed to %s() without a bucket range" % name)

    def loop(self, s):
        """a loop inside the dispatch: either the LCP fill of a final bucket or something that does not touch the step"""
        cx, L = self.cx, self.L
        fn = cx.fn
        touched = []
        for y in walk(s):
            if y["k"] in ("UnaryOperator", "BinaryOperator", "CompoundAssignOperator"):
                w = self.write_value(y)
                if w:
                    if L.step_field(w[0]) is not None:
                        und(fn, y, "the radix step is written inside a nested loop")
                    d = ref_of(w[0])
                    if d is not None:
                        touched.append(d)
            if "callee" in y:
                self.lambda_call(y)
                nm = y["callee"]["name"]
                recv = kids(y)[0] if y.get("member_call") and kids(y) else None
                if recv is not None and cx.stack is not None and ref_of(recv) == cx.stack and nm not in STACK_PURE:
                    und(fn, y, "the radix stack is changed inside a nested loop")
                if nm in ("flip", "sub", "copy_back") and recv is not None and (L.is_ptr(recv) or self.value(recv) is not None):
                    und(fn, y, "a bucket range is cut inside a nested loop")
                if recv is not None and L.is_ptr(recv) and nm not in PTR_PURE:
                    und(fn, y, "%s() on the step's string pointer inside a nested loop" % nm)
                if recv is None or not (L.is_ptr(recv) or ref_of(recv) == cx.stack):
                    for a in (kids(y)[1:] if y.get("member_call") else kids(y)):
                        if L.is_ptr(a) or L.is_step(a) or self.value(a) is not None or ref_of(a) == cx.stack:
                            und(fn, y, "%s() receives the step inside a nested loop" % nm)
        sl = [y for y in walk(s) if "callee" in y and y["callee"]["name"] == "set_lcp" and y.get("member_call") and L.is_ptr(kids(y)[0])]
        if sl:
            self.fills.append(self.fill(s, sl))
        for d in touched:
            if d in L.bound:
                L.bound[d] = None

    def fill(self, s, sl):
        """[lo, hi) := val of a counting loop whose body is one set_lcp(i, val)"""
        cx, L = self.cx, self.L
        fn = cx.fn
        if s["k"] not in ("ForStmt", "WhileStmt") or len(sl) != 1:
            und(fn, s, "LCP fill loop of a form that is not understood")
        init, cond, inc, body = match.loop_parts(s)
        incs = []
        for part in (inc, body):
            for y in walk(part):
                w = self.write_value(y) if y["k"] in ("UnaryOperator", "BinaryOperator", "CompoundAssignOperator") else None
                if w and ref_of(w[0]) is not None:
                    incs.append((ref_of(w[0]), y))
        if len(incs) != 1:
            und(fn, s, "LCP fill loop: the counter is not advanced exactly once")
        var, step = incs[0]
        stmts = [x for x in (kids(body) if body is not None and body["k"] == "CompoundStmt" else [body]) if x is not None]
        stmts = [x for x in stmts if x is not step]
        if len(stmts) != 1 or strip_casts(stmts[0]) is not sl[0]:
            und(fn, s, "LCP fill loop: the body is more than one set_lcp()")
        # the start value
        lo = None
        ivars = [x for x in walk(init) if x["k"] == "VarDecl"] if init is not None else []
        if ivars:
            if len(ivars) != 1 or ivars[0]["did"] != var or not kids(ivars[0]):
                und(fn, s, "LCP fill loop: start value not understood")
            lo = L.ev(kids(ivars[0])[0])
        elif init is not None:
            b = match.binop(init, ("=",))
            if not b or ref_of(b[1]) != var:
                und(fn, s, "LCP fill loop: start value not understood")
            lo = L.ev(b[2])
        else:
            lo = L.bound.get(var)
        saved = L.bound.get(var, "absent")
        L.bound[var] = {"#i": 1}
        try:
            w = self.write_value(step)
            if w[1] != {"#i": 1, 1: 1}:
                und(fn, step, "LCP fill loop: the counter does not advance by one")
            hi = None
            cb = match.binop(cond, ("<", "<=", ">", ">=", "!=")) if cond is not None else None
            if cb:
                x, y = L.ev(cb[1]), L.ev(cb[2])
                cc = canon_cmp(cb[0], x, y) if x is not None and y is not None else None
                if cc is not None and not isinstance(cc, bool):
                    kind, l, neg = cc
                    if l.get("#i") == 1 and ((kind == "lt" and not neg) or (kind == "eq" and neg)):
                        hi = lin_scale(lin_add(l, {"#i": 1}, -1), -1)
            call = sl[0]
            at = L.ev(kids(call)[1], arg=True)
            val = L.ev(kids(call)[2], arg=True)
        finally:
            if saved == "absent":
                L.bound.pop(var, None)
            else:
                L.bound[var] = saved
        if at != {"#i": 1}:
            und(fn, call, "LCP fill loop: set_lcp() does not write at the counter")
        if lo is None or hi is None or val is None or "#i" in val or "#i" in hi:
            und(fn, s, "LCP fill loop: bounds or value not understood: [%s, %s) := %s" % (fmt_lin(lo), fmt_lin(hi), fmt_lin(val)))
        return lo, hi, val, s


class LoopCtx:
    pass


def bucket_loop(fn):
    """the loop that dispatches one bucket per round: the innermost loop around the read of rs.bkt_size[...]"""
    subs = [z for z in walk(fn.body) if z["k"] == "MemberExpr" and z.get("member") == "bkt_size" and
            "RadixStep_" in (z.get("owner") or "")]
    loops = set()
    found = None
    for z in subs:
        p = fn.parent(z)
        while p is not None and p["k"] not in ("WhileStmt", "ForStmt", "DoStmt", "CXXForRangeStmt"):
            p = fn.parent(p)
        if p is None:
            raise ir.AnalysisBroken("%s: bucket size read outside a loop" % fn.full)
        loops.add(p["id"])
        found = p
    if len(loops) != 1:
        raise ir.AnalysisBroken("%s: bucket loop not found" % fn.full)
    return found


def atoms_hold(val, atoms, sym, x):
    """do the decided atoms that talk about the symbol alone hold for sym = x?"""
    for key, v in val.items():
        info = atoms.get(key)
        if info and set(info[1]) - {1} == {sym}:
            t = info[1][sym] * x + info[1].get(1, 0)
            if ((t < 0) if info[0] == "lt" else (t == 0)) != v:
                return False
    return True


def final_bucket_witness(fn, w, val, atoms, iiv, biv, cond_s):
    """(bucket index, bucket size) of a bucket with 2+ strings whose second key byte is the terminator and that takes the path
    with the valuation val; None if the path excludes such buckets.  Undecidable if the path depends on tests that are not
    understood."""
    fin = val.get("final")
    if fin is False:
        return None
    for key in val:
        info = atoms.get(key)
        if info is None and key != "final":
            und(fn, w, "on the path {%s} a bucket is handed on; whether a final bucket (second key byte is the terminator) can take this "
                "path depends on a test that is not understood" % cond_s)
        if info is not None and len(set(info[1]) - {1}) > 1 and set(info[1]) & {"idx0", "b"}:
            und(fn, w, "on the path {%s} a test relates the bucket index or size to another quantity: %s" % (cond_s, key))
    bw = next((x for x in range(max(biv[0], 2), max(biv[0], 2) + 64) if x <= biv[1] and atoms_hold(val, atoms, "b", x)), None)
    if bw is None:
        return None
    if iiv[1] == INF:
        return None
    t = ((iiv[0] + 1 + 255) // 256) * 256
    while t <= iiv[1] + 1:
        if t >= 256 and atoms_hold(val, atoms, "idx0", t - 1):
            return t, bw
        t += 256
    return None


def check_loops(ck, tu):
    # one function that is not understood does not hide what is found in the others (ck.guarded defers the `cannot decide`)
    for fn, stackdecl in loop_functions(tu):
        ck.guarded(lambda fn=fn, stackdecl=stackdecl: check_loop_fn(ck, tu, fn, stackdecl))


def check_loop_fn(ck, tu, fn, stackdecl):
    step, emplaces = step_of(tu, fn, stackdecl)
    cx = LoopCtx()
    cx.fn, cx.tu, cx.step = fn, tu, step
    cx.stack = stackdecl["did"]
    cx.strptr_param = fn.params[0]["did"]
    cx.sym = {}
    for role in ("depth", "memory"):
        i = role_index(fn.params, role)
        if i is None:
            und(fn, None, "parameter with the role `%s` not recognised" % role)
        cx.sym[fn.params[i]["did"]] = role
    w = bucket_loop(fn)
    # every access to a field of a radix step inside the loop goes through radixstack.top() or a local that names it
    L0 = Lin(fn, cx.sym, cx.stack, cx.strptr_param)
    for z in walk(w):
        if z["k"] == "VarDecl" and kids(z) and kids(z)[0] is not None:
            i0 = strip_casts(kids(z)[0])
            if L0.is_step(i0) or (i0["k"] == "UnaryOperator" and i0.get("op") == "&" and L0.is_step(kids(i0)[0])):
                L0.steps.add(z["did"])
    for z in walk(w):
        if z["k"] == "MemberExpr" and "RadixStep_" in (z.get("owner") or "") and kids(z) and not L0.is_step(kids(z)[0]):
            und(fn, z, "field %s of a radix step is reached through %s, which is not understood" % (z.get("member"), dtable.describe(kids(z)[0])))
    for d in L0.steps:
        if writes_of(fn, d):
            und(fn, w, "a local naming the radix step is reassigned")
    if w["k"] not in ("WhileStmt", "ForStmt"):
        und(fn, w, "bucket loop is a %s" % w["k"])
    init, cond, inc, body = match.loop_parts(w)
    if init is not None:
        und(fn, w, "bucket loop with an init statement")
    stmts = []
    if cond is not None and const_int(cond) != 1:
        neg = {"k": "UnaryOperator", "op": "!", "id": -31, "ty": "bool", "l": cond.get("l"), "ch": [cond]}
        stmts.append({"k": "IfStmt", "id": -32, "l": cond.get("l"), "ch": [neg, {"k": "BreakStmt", "id": -33}, None]})
    stmts += [x for x in (kids(body) if body is not None and body["k"] == "CompoundStmt" else [body])]
    if inc is not None:
        stmts.append(inc)
    seq = {"k": "CompoundStmt", "ch": stmts, "id": -3}
    atoms = {}                  # key -> (kind, lin) of the atoms that are linear comparisons

    def state(run):
        st = getattr(run, "_c03", None)
        if st is None:
            st = run._c03 = Path(cx)
        st.advance(run)
        return st

    def atomize(n, run):
        n0 = n
        if n["k"] in ("ImplicitCastExpr", "CStyleCastExpr", "CXXStaticCastExpr", "CXXFunctionalCastExpr"):
            if n.get("cast") != "IntegralToBoolean":
                return None
            inner = strip_casts(n)
            if (inner.get("ty") or "").replace("const ", "") == "bool":
                return None
            op, lhs, rhs = "!=", inner, None
        elif n["k"] == "BinaryOperator" and n.get("op") in ("==", "!=", "<", "<=", ">", ">="):
            op, lhs, rhs = n["op"], kids(n)[0], kids(n)[1]
        elif "callee" in n and n.get("member_call") and n["callee"]["name"] == "empty" and kids(n) and ref_of(kids(n)[0]) == cx.stack:
            # radixstack.empty() is radixstack.size() == 0
            if state(run).L.size_stale:
                und(fn, n0, "the radix stack is tested after it was pushed / popped in the same round: %s" % dtable.describe(n0))
            atoms["size == 0"] = ("eq", {"size": 1})
            return "size == 0", False
        else:
            return None
        st = state(run)
        L = st.L
        for side in (lhs, rhs):
            for z in postorder(side):
                if z["k"] in ("UnaryOperator", "BinaryOperator", "CompoundAssignOperator") and st.write_value(z):
                    und(fn, n0, "condition with a side effect: %s" % dtable.describe(n0))
        a = L.ev(lhs)
        b = L.ev(rhs) if rhs is not None else {}
        if a is not None and b is not None:
            cc = canon_cmp(op, a, b)
            if isinstance(cc, bool):
                return cc
            kind, l, neg = cc
            key = atom_text(kind, l)
            atoms[key] = (kind, l)
            return key, neg
        # the second byte of the 16-bit key is the terminator: (rs.idx & 0xFF) == 0 for the bucket in hand
        if op in ("==", "!=") and (rhs is None or const_int(rhs) == 0 or const_int(lhs) == 0):
            e0 = lhs if (rhs is None or const_int(rhs) == 0) else rhs
            e = strip_casts(e0)
            low = None
            c_ = e0
            while c_ is not None and c_["k"] in _CASTS and kids(c_):
                if c_.get("cast") == "IntegralCast" and _WIDTH.get((c_.get("ty") or "").replace("const ", "").strip()) == 1 and \
                        "unsigned" in (c_.get("ty") or "") and _WIDTH.get((c_.get("from") or "").replace("const ", "").strip(), 8) > 1:
                    low = kids(c_)[0]       # static_cast<std::uint8_t>(idx)
                    break
                c_ = kids(c_)[0]
            mb = match.binop(e, ("&", "%")) if low is None else None
            if mb and mb[0] == "&":
                for x, y in ((mb[1], mb[2]), (mb[2], mb[1])):
                    if const_int(y) == 255:
                        low = x
            elif mb and const_int(mb[2]) == 256:
                low = mb[1]
            if low is not None:
                if L.ev(low) == {"idx0": 1, 1: 1}:
                    return "final", op == "!="
                if L.ev(low) is not None:
                    und(fn, n0, "low byte of an index that is not the bucket in hand: %s" % dtable.describe(n0))
        # not understood: an opaque atom (equal spellings and their negations share one atom)
        if rhs is None:
            return "?" + dtable.describe(lhs), False
        flip = {"!=": ("==", False, True), "==": ("==", False, False), "<": ("<", False, False), ">=": ("<", False, True),
                ">": ("<", True, False), "<=": ("<", True, True)}[op]
        x, y = (rhs, lhs) if flip[1] else (lhs, rhs)
        return "?(%s %s %s)" % (dtable.describe(x), flip[0], dtable.describe(y)), flip[2]

    leaves = dtable.explore(seq, atomize, fn)
    seen_sig = set()

    def report(rule, sig, msg, node):
        if (rule, sig) in seen_sig:
            return
        seen_sig.add((rule, sig))
        ck.violation(rule, fn.qname, sig, msg, fn.nloc(node) if node is not None else fn.loc)

    lcp = "LcpPtr" in fn.full
    last_all = None
    n_iter = 0
    for lf in leaves:
        st = state(lf["run"])
        L = st.L
        stop = lf["stop"][0]
        if stop == "break":
            continue
        if stop not in ("end", "continue"):
            und(fn, w, "the bucket dispatch leaves the function by %s" % stop)
        if stop == "continue" and inc is not None:
            und(fn, w, "continue in a bucket loop with an increment expression")
        biv = sym_interval(lf["val"], atoms, "b")
        iiv = sym_interval(lf["val"], atoms, "idx0", counts_up=True)
        if biv is None or iiv is None:
            continue            # contradictory tests: no execution takes this path
        if st.pops:
            # ---- a round that handles no bucket but removes the topmost step (the two nested loops `while (!empty) { while
            # (idx < last) {bucket}; pop(); }` written as one loop): nothing else may happen in it, and the step must be finished
            if len(st.pops) != 1 or st.pushes or st.bsubs or st.handons or st.fills or st.lcp_writes or st.lr or \
                    L.idx != {"idx0": 1} or L.pos != {"pos0": 1}:
                # a round that handles bucket idx+1 and then pops: evidence only if every test of the path is a linear
                # comparison about idx alone, about the bucket size alone, or about neither (they can be met independently)
                free = all(atoms.get(key) is not None and
                           (set(atoms[key][1]) - {1} in ({"idx0"}, {"b"}) or not (set(atoms[key][1]) & {"idx0", "b", "pos0"}))
                           for key in lf["val"])
                if len(st.pops) == 1 and not st.pushes and free and L.idx == {"idx0": 1, 1: 1} and iiv[0] + 1 < step.nb - 1:
                    report("BUCKET-RANGE", "%s:pop=%s" % (fn.name, iiv[0] + 1),
                           "on the path {%s} bucket idx = %d is handled and then the step is popped: buckets %d..%d of the %d-bucket step "
                           "are never handled" % (dtable.fmt_val(lf["val"]), iiv[0] + 1, iiv[0] + 2, step.nb - 1, step.nb), st.pops[0])
                    continue
                und(fn, st.pops[0], "on the path {%s} the radix stack is popped in a round that also works on the step" % dtable.fmt_val(lf["val"]))
            if iiv[0] >= step.nb - 1:
                ck.ok("BUCKET-RANGE", where(fn, "{%s}" % dtable.fmt_val(lf["val"])), "the step is popped when all %d buckets are done" % step.nb)
                continue
            for key in lf["val"]:
                info = atoms.get(key)
                if info is None or set(info[1]) - {1} not in ({"idx0"}, {"size"}):
                    und(fn, st.pops[0], "on the path {%s} the step is popped; whether all its buckets are done depends on a test that is "
                        "not about rs.idx alone" % dtable.fmt_val(lf["val"]))
            report("BUCKET-RANGE", "%s:pop=%s" % (fn.name, iiv[0]),
                   "on the path {%s} the step is popped with rs.idx = %d: buckets %d..%d of the %d-bucket step are never handled"
                   % (dtable.fmt_val(lf["val"]), iiv[0], iiv[0] + 1, step.nb - 1, step.nb), st.pops[0])
            continue
        n_iter += 1

        def fixb(l):
            """on a path that knows the bucket size exactly (b == c) the symbol b is that number"""
            if l is None or biv[0] != biv[1] or "b" not in l:
                return l
            return lin_add({k_: v_ for k_, v_ in l.items() if k_ != "b"}, {1: l["b"] * biv[0]})
        cond_s = dtable.fmt_val(lf["val"])
        sig = "%s:{%s}" % (fn.name, cond_s)
        opaque = [k for k in lf["val"] if k.startswith("?")]
        final = lf["val"].get("final") is True
        # ---- BUCKET-RANGE: which bucket this round handles and where the index ends
        if not st.bsubs:
            und(fn, w, "on the path {%s} the size of the bucket is not read from rs.bkt_size[...]" % cond_s)
        bad_range = False
        for iv_, z in st.bsubs:
            if iv_ is None:
                und(fn, z, "index of %s not understood" % dtable.describe(z))
            if iv_ != {"idx0": 1, 1: 1}:
                report("BUCKET-RANGE", "%s:bucket=%s" % (fn.name, fmt_lin(iv_)),
                       "a round of the loop must handle bucket idx+1 (bucket 0 is final in the constructor); it reads the size of "
                       "bucket %s: %s" % (fmt_lin(iv_), dtable.describe(z)), z)
                bad_range = True
        if L.idx != {"idx0": 1, 1: 1}:
            report("BUCKET-RANGE", "%s:step=%s" % (fn.name, fmt_lin(L.idx)),
                   "on the path {%s} rs.idx moves from idx to %s; every round handles exactly the next bucket" % (cond_s, fmt_lin(L.idx)), w)
            bad_range = True
        if bad_range:
            continue
        if iiv[1] == INF:
            und(fn, w, "on the path {%s} the loop does not bound rs.idx by a comparison that is understood" % cond_s)
        last_all = max(last_all or 0, iiv[1] + 1)
        # ---- BUCKET-DISPOSED: the position moves by the bucket size
        want_pos = {"pos0": 1, "b": 1}
        if fixb(L.pos) != fixb(want_pos):
            report("BUCKET-DISPOSED", sig + ":advance",
                   "on the path {%s} rs.pos moves from pos to %s; every bucket moves the position by exactly its size (pos + b)"
                   % (cond_s, fmt_lin(L.pos)), w)
            continue
        hand = st.handons
        for h in hand:
            r = h["range"]
            if r["off"] is None or r["len"] is None:
                und(fn, r["node"], "bucket range not understood: %s" % dtable.describe(r["node"]))
        if biv[1] == 0:
            if hand:
                report("BUCKET-DISPOSED", sig, "an empty bucket is handed on", hand[0]["range"]["node"])
            continue
        if len(hand) > 1:
            report("BUCKET-DISPOSED", sig, "the bucket is handed on %d times on the path {%s}" % (len(hand), cond_s), hand[1]["range"]["node"])
            continue
        if not hand:
            if not step.shadow and biv[1] <= 1:
                continue        # in place: a bucket of at most one string is where it belongs
            if set(st.lr) - st.lr_used:
                und(fn, w, "on the path {%s} a bucket range is named but not used in a way that is understood" % cond_s)
            if step.shadow:
                if opaque:
                    und(fn, w, "on the path {%s} nothing happens to the bucket, and the path depends on a test that is not understood" % cond_s)
                report("BUCKET-DISPOSED", sig, "on the path {%s} a non-empty bucket stays in the shadow array: it is neither sorted nor copied back"
                       % cond_s, w)
                continue
            # in place: nothing to move; only a final bucket (second key byte is the terminator) may stay unsorted
            if not (final and step.k == 2):
                if opaque:
                    und(fn, w, "on the path {%s} nothing happens to the bucket, and the path depends on a test that is not understood" % cond_s)
                report("BUCKET-DISPOSED", sig, "on the path {%s} a bucket of 2+ strings is neither sorted nor final" % cond_s, w)
                continue
            if lcp and not st.fills:
                if st.lcp_writes:
                    und(fn, w, "on the path {%s} the LCPs of a final bucket are written in a form that is not understood" % cond_s)
                report("BUCKET-DISPOSED", sig, "on the path {%s} a final bucket of 2+ equal strings gets no LCP values" % cond_s, w)
                continue
            if st.fills or not lcp:
                ck.ok("BUCKET-DISPOSED", where(fn, "{%s}" % cond_s), "final bucket stays in place")
        for h in hand:
            r = h["range"]
            if r["off"] != {"pos0": 1} or fixb(r["len"]) != fixb({"b": 1}):
                report("BUCKET-DISPOSED", sig + ":range",
                       "the bucket handed on is [%s, +%s) but the bucket occupies [pos, +bkt_size) (pos before this bucket's advance)"
                       % (fmt_lin(r["off"]), fmt_lin(r["len"])), r["node"])
                continue
            cons, cname = h["cons"], h["cname"]
            if cons is None:
                # flip(...).copy_back() as a statement: a final bucket
                if r["kind"] == "flip" and not r["homed"]:
                    report("HOME-BEFORE-INPLACE", sig, "a final bucket is flipped but not copied back", r["node"])
                    continue
                if step.shadow and biv[1] > 1 and not (final and step.k == 2):
                    if opaque:
                        und(fn, r["node"], "a bucket is copied home unsorted on the path {%s} which depends on a test that is not understood" % cond_s)
                    report("BUCKET-DISPOSED", sig, "on the path {%s} a bucket of strings that do not end here is copied home without being sorted"
                           % cond_s, r["node"])
                    continue
                if lcp and step.shadow and biv[1] > 1 and not st.fills:
                    if st.lcp_writes:
                        und(fn, r["node"], "on the path {%s} the LCPs of a final bucket are written in a form that is not understood" % cond_s)
                    report("BUCKET-DISPOSED", sig, "on the path {%s} a final bucket of 2+ equal strings gets no LCP values" % cond_s, r["node"])
                    continue
                ck.ok("BUCKET-DISPOSED", where(fn, "{%s}" % cond_s), "final bucket copied home")
                continue
            if cname == "emplace":
                aware = True
                dargs = h["args"]
                depth_i, base_i = step.depth_i, step.base_i
                if h["argi"] != 0:
                    und(fn, cons, "the bucket is not the first argument of the new step")
            else:
                callee = tu.by_did.get(cons["callee"].get("did"))
                if callee is None:
                    und(fn, cons, "%s() receives the bucket but its body is not known" % cname)
                aware = None
                if r["kind"] == "flip" and not r["homed"]:
                    ckey = (callee.did, h["argi"])
                    if ckey not in _AWARE:
                        _AWARE[ckey] = shadow_aware(tu, callee.did, h["argi"])
                    aware = _AWARE[ckey]
                dargs = h["args"]
                depth_i, base_i = role_index(callee.params, "depth"), None
            if r["kind"] == "flip" and not r["homed"]:
                if aware is None:
                    und(fn, cons, "%s() receives a flipped bucket; how it uses the pointer is not understood" % cname)
                if not aware:
                    report("HOME-BEFORE-INPLACE", "%s:%s" % (fn.name, cname),
                           "%s() sorts the active array in place, but the bucket handed to it by flip() may live in the temporary shadow "
                           "array: without copy_back() the caller's array keeps stale strings (not a permutation)" % cname, r["node"])
                    continue
            # depth bookkeeping
            if depth_i is None or depth_i >= len(dargs):
                raise ir.AnalysisBroken("%s: depth parameter of %s not found" % (fn.full, cname))
            d = h["vals"][depth_i]
            want = {"depth": 1, "size": step.k}
            if d is None:
                und(fn, dargs[depth_i], "depth handed to %s() not understood: %s" % (cname, dtable.describe(dargs[depth_i])))
            if d != want:
                report("DEPTH-ADVANCE", "%s:%s" % (fn.name, cname),
                       "%s() continues at depth %s; a step of the %d-byte radix on stack level `size` has consumed depth + %d*size "
                       "characters" % (cname, fmt_lin(d), step.k, step.k), cons)
                continue
            ck.ok("DEPTH-ADVANCE", where(fn, cname), "depth + %d*size" % step.k)
            if base_i is not None and base_i < len(dargs):
                bse = h["vals"][base_i]
                if bse is None:
                    und(fn, dargs[base_i], "base of the new step not understood: %s" % dtable.describe(dargs[base_i]))
                if bse != {"pos0": 1}:
                    report("BUCKET-DISPOSED", sig + ":base", "the new step's base is %s, the bucket starts at pos" % fmt_lin(bse), cons)
                    continue
            # a bucket of the 16-bit radix whose second key byte is the terminator holds equal strings that end at
            # depth + 2*size - 1: a consumer that continues at depth + 2*size compares behind their end
            if step.k == 2 and biv[1] >= 2:
                wit = final_bucket_witness(fn, w, lf["val"], atoms, iiv, biv, cond_s)
                if wit is not None:
                    report("DEPTH-ADVANCE", "%s:final-handed-on:%s" % (fn.name, cname),
                           "on the path {%s} bucket idx = %d (second key byte is the terminator: its strings are equal and end at depth + 2*size - 1) "
                           "with %d strings is handed to %s(), which continues at depth + 2*size, behind the end of these strings; a final bucket "
                           "is only copied home and gets LCP depth + 2*size - 1" % (cond_s, wit[0], wit[1], cname), cons)
                    continue
            ck.ok("BUCKET-DISPOSED", where(fn, "{%s}" % cond_s), "[pos, +bkt_size) -> %s%s" % (cname, " after copy_back" if r["homed"] else ""))
            if r["kind"] == "flip":
                ck.ok("HOME-BEFORE-INPLACE", where(fn, cname), "copied home" if r["homed"] else "shadow-aware consumer")
        for lo, hi, val, node in st.fills:
            good = lo == {"pos0": 1, 1: 1} and fixb(hi) == fixb({"pos0": 1, "b": 1}) and val == {"depth": 1, "size": step.k, 1: -1}
            if not good:
                report("DEPTH-ADVANCE", "%s:final-fill" % fn.name,
                       "the strings of a final bucket (second byte is the terminator) are all equal: positions (pos, pos+bkt_size) get LCP "
                       "depth + %d*size - 1; found [%s, %s) := %s" % (step.k, fmt_lin(lo), fmt_lin(hi), fmt_lin(val)), node)
            else:
                ck.ok("DEPTH-ADVANCE", where(fn, "final bucket"), "LCP run (pos, pos+bkt_size) = depth + %d*size - 1" % step.k)
    if not n_iter:
        und(fn, w, "no path through the bucket dispatch was understood")
    if last_all is not None:
        if last_all != step.nb - 1:
            report("BUCKET-RANGE", "%s:last=%s" % (fn.name, last_all),
                   "the loop visits buckets 1..%s of a %d-bucket step (bucket 0 is final in the constructor): %s"
                   % (last_all, step.nb, dtable.describe(cond) if cond is not None else "<loop>"), w)
        else:
            ck.ok("BUCKET-RANGE", where(fn), "buckets 1..%d of %d, index advanced before the bucket is read" % (last_all, step.nb))
    # root step
    root = [e for e in emplaces if not any(x is e for x in walk(w))]
    if len(root) != 1:
        raise ir.AnalysisBroken("%s: root emplace not found" % fn.full)
    ra = kids(root[0])[1:]
    L = Lin(fn, cx.sym, cx.stack, cx.strptr_param)
    a0 = resolve(fn, ra[0])
    if ref_of(a0) != cx.strptr_param:
        if not ("callee" in a0 and a0["callee"]["name"] in ("sub", "flip", "copy_back")):
            und(fn, root[0], "string pointer of the root step not understood: %s" % dtable.describe(ra[0]))
        okroot = False
    else:
        dv = L.ev(ra[step.depth_i]) if step.depth_i < len(ra) else None
        bv = L.ev(ra[step.base_i]) if step.base_i is not None and step.base_i < len(ra) else {}
        if dv is None or bv is None:
            und(fn, root[0], "depth/base of the root step not understood: %s" % dtable.describe(root[0]))
        okroot = dv == {"depth": 1} and bv == {}
    if not okroot:
        ck.violation("DEPTH-ADVANCE", fn.qname, "%s:root" % fn.name, "the root step must cover the whole input at the caller's depth: %s"
                     % dtable.describe(root[0]), fn.nloc(root[0]))
    else:
        ck.ok("DEPTH-ADVANCE", where(fn, "root"), "(strptr, [0,] depth)")


# ------------------------------------------------------------------ step constructors
class CtorLin(Lin):
    """linear forms inside a step constructor: this->pos / this->idx are the cursor, this->bkt_size[c] a symbol"""

    def is_step(self, e):
        e = strip_casts(e)
        return e is not None and e["k"] == "This"

    def ev(self, e, arg=False, _depth=0):
        s = strip_casts(e)
        ip = match.index_parts(s) if s is not None else None
        if ip and self.step_field(ip[0]) == "bkt_size":
            i = self.ev(ip[1])
            if i is not None and set(i) <= {1}:
                return {"bkt_size[%d]" % i.get(1, 0): 1}
            return None
        return Lin.ev(self, e, arg, _depth)


def check_steps(ck, tu):
    for ctor in [f for f in tu.functions if f.kind == "ctor" and f.record and f.record.startswith(NS + "RadixStep_")]:
        def one(ctor=ctor):
            info = StepInfo(tu, ctor)
            ck.guarded(lambda: check_bucket0(ck, tu, ctor, info))
            ck.guarded(lambda: check_prefix(ck, ctor, info))
        ck.guarded(one)


def check_bucket0(ck, tu, ctor, info):
    """the cursor starts at idx = 0, pos = [base +] bkt_size[0]; an out-of-place step copies bucket 0 home on every path"""
    sym = {ctor.params[info.depth_i]["did"]: "depth"}
    if info.base_i is not None:
        sym[ctor.params[info.base_i]["did"]] = "base"
    L = CtorLin(ctor, sym)
    L.pos = {"<pos not set yet>": 1}
    L.idx = {"<idx not set yet>": 1}
    written = set()
    for i in ctor.inits:
        if i.get("field") in ("pos", "idx") and i.get("e") is not None:
            v = L.ev(i["e"])
            if v is None:
                und(ctor, i["e"], "initialiser of %s not understood" % i["field"])
            setattr(L, i["field"], v)
            written.add(i["field"])
    for z in ctor.nodes():
        if z["k"] == "MemberExpr" and z.get("member") in ("pos", "idx", "bkt_size", "strptr") and "RadixStep_" in (z.get("owner") or "") and \
                kids(z) and strip_casts(kids(z)[0])["k"] != "This":
            und(ctor, z, "field %s of the step is reached through %s, which is not understood" % (z["member"], dtable.describe(kids(z)[0])))
    homes = []                  # (node, off, len)

    def flat(stmts):
        for s_ in stmts:
            if s_ is not None and s_["k"] == "CompoundStmt":
                yield from flat(kids(s_))
            elif s_ is not None:
                yield s_
    for s in flat(kids(ctor.body)):
        # the statements of the constructor in order; what happens inside branches and loops is looked at, but the cursor
        # may only be set by straight-line statements
        simple = s["k"] not in ("IfStmt", "ForStmt", "WhileStmt", "DoStmt", "SwitchStmt", "CXXForRangeStmt", "CXXTryStmt")
        for z in postorder(s) if simple else walk(s):
            if z["k"] in ("UnaryOperator", "BinaryOperator", "CompoundAssignOperator"):
                w = lin_write(L, z)
                f = L.step_field(w[0]) if w else None
                if f in ("pos", "idx"):
                    if not simple:
                        und(ctor, z, "%s is set inside a branch or loop of the step constructor" % f)
                    if w[1] is None:
                        und(ctor, z, "value given to %s not understood: %s" % (f, dtable.describe(z)))
                    setattr(L, f, w[1])
                    L.vals[z["id"]] = w[2]
                    written.add(f)
            if z["k"] == "UnaryOperator" and z.get("op") == "&" and L.step_field(kids(z)[0]) in ("pos", "idx"):
                und(ctor, z, "address of the cursor is taken")
            if z["k"] == "VarDecl" and kids(z) and kids(z)[0] is not None:
                if z.get("isref") and L.step_field(kids(z)[0]) in ("pos", "idx"):
                    und(ctor, z, "a reference to the cursor is taken")
                if simple:
                    L.bound[z["did"]] = L.ev(kids(z)[0])    # the value where it is declared
            if "callee" not in z:
                continue
            name = z["callee"]["name"]
            args = kids(z)
            recv = args[0] if z.get("member_call") and args else None
            if recv is not None and strip_casts(recv)["k"] == "This" and name != ctor.name:
                callee = tu.by_did.get(z["callee"].get("did"))
                if callee is None or any(match.this_field(w_[0]) in ("pos", "idx") for y in callee.nodes()
                                         for w_ in [lin_write(L, y) if y["k"] in ("UnaryOperator", "BinaryOperator", "CompoundAssignOperator") else None] if w_):
                    und(ctor, z, "%s() may set the cursor" % name)
            if name == "copy_back" and recv is not None:
                fl = resolve(ctor, recv)
                if "callee" in fl and fl["callee"]["name"] == "flip" and fl.get("member_call") and len(kids(fl)) == 3 and \
                        match.this_field(resolve(ctor, kids(fl)[0])) == "strptr":
                    off, ln = L.ev(kids(fl)[1]), L.ev(kids(fl)[2])
                    if off is None or ln is None:
                        und(ctor, z, "range copied home not understood: %s" % dtable.describe(z))
                    homes.append((z, off, ln))
                elif info.shadow:
                    und(ctor, z, "copy_back() on something that is not strptr.flip(offset, size): %s" % dtable.describe(z))
            elif recv is not None and match.this_field(resolve(ctor, recv)) == "strptr":
                if name not in PTR_PURE and name != "flip":
                    und(ctor, z, "%s() on the step's string pointer is not understood" % name)
            else:
                for a in (args[1:] if z.get("member_call") else args):
                    sa = strip_casts(a)
                    if sa is not None and (sa["k"] == "This" or match.this_field(sa) == "strptr" or
                                           (sa["k"] == "UnaryOperator" and sa.get("op") == "*" and strip_casts(kids(sa)[0])["k"] == "This")):
                        und(ctor, z, "the step (or its string pointer) is handed to %s()" % name)
    want_pos = {"bkt_size[0]": 1}
    if info.base_i is not None:
        want_pos["base"] = 1
    if L.idx != {} or L.pos != want_pos:
        ck.violation("STEP-BUCKET0", ctor.qname, ctor.name + ":cursor",
                     "a step must start with idx = 0 and pos = [base +] bkt_size[0]; the constructor leaves idx = %s, pos = %s"
                     % (fmt_lin(L.idx), fmt_lin(L.pos)), ctor.loc)
        return
    if not info.shadow:
        ck.ok("STEP-BUCKET0", where(ctor), "idx=0, pos=base+bkt_size[0] (in place)")
        return
    good = [h for h in homes if h[1] == {} and h[2] == {"bkt_size[0]": 1}]
    g = cfgm.CFG(ctor)
    if good:
        ps = [g.pos_deep(h[0]) for h in good]
        if any(p is None for p in ps):
            und(ctor, good[0][0], "copy_back() not found in the control-flow graph")
        # `if (pos != 0) strptr.flip(0, pos).copy_back();` - skipping the copy of an empty bucket loses nothing
        harmless = []
        for h in good:
            q, below = ctor.parent(h[0]), h[0]
            while q is not None:
                if q["k"] == "IfStmt" and len(kids(q)) > 1 and kids(q)[1] is below:
                    c0 = kids(q)[0]
                    cb = match.binop(c0, ("!=", ">", ">=", "<", "<=", "=="))
                    x, y = (L.ev(cb[1]), L.ev(cb[2])) if cb else (L.ev(c0), {})
                    cc = canon_cmp(cb[0] if cb else "!=", x, y) if x is not None and y is not None else None
                    if cc is not None and not isinstance(cc, bool) and cc[2] and (
                            (cc[0] == "eq" and cc[1] == {"bkt_size[0]": 1}) or (cc[0] == "lt" and cc[1] == {"bkt_size[0]": 1, 1: -1})):
                        fe = g.false_edge_of(q["id"])
                        if fe is not None:
                            harmless.append(fe)
                below, q = q, ctor.parent(q)
        esc = g.path_avoiding((g.entry, -1), ps, blocked_edges=harmless)
        if esc is None:
            ck.ok("STEP-BUCKET0", where(ctor), "idx=0, pos=bkt_size[0], bucket 0 copied home on all paths")
            return
        # the copy exists but some path passes none: whether bucket 0 can be non-empty on that path is not decided here
        und(ctor, good[0][0], "strptr.flip(0, pos).copy_back() is not passed on every path through the constructor (blocks %s) and the "
            "tests on that path are not understood" % esc[:8])
    elif homes:
        found = "found " + ", ".join("flip(%s, %s).copy_back()" % (fmt_lin(h[1]), fmt_lin(h[2])) for h in homes)
    else:
        found = "the constructor never calls copy_back()"
    ck.violation("STEP-BUCKET0", ctor.qname, ctor.name + ":home",
                 "bucket 0 (strings that end here) is final: after the distribution it must be flipped and copied home on every path "
                 "(strptr.flip(0, pos).copy_back()); %s" % found, ctor.loc)


def affine(fn, e, depth=0):
    """(variable, constant) of v, v + c, v - c, c + v, c (looking through locals that only name a value); None otherwise"""
    e = strip_casts(e)
    if e is None or depth > 6:
        return None
    c = const_int(e)
    if c is not None:
        return None, c
    if e["k"] == "DeclRefExpr":
        init = transparent_init(fn, e["ref"]["id"])
        if init is not None and affine(fn, init, depth + 1) is not None:
            return affine(fn, init, depth + 1)
        return e["ref"]["id"], 0
    b = match.binop(e, ("+", "-")) if e["k"] == "BinaryOperator" else None
    if b:
        x, y = affine(fn, b[1], depth + 1), affine(fn, b[2], depth + 1)
        if x is None or y is None:
            return None
        if y[0] is None:
            return x[0], x[1] + (y[1] if b[0] == "+" else -y[1])
        if x[0] is None and b[0] == "+":
            return y[0], x[1] + y[1]
    return None


def _expand(fn, e, m, side, depth=0):
    """e looked through casts, locals that only name a value, calls of local lambdas of the form `return e;` and the parameters
    of such a lambda (m[("sub" + side, parameter)] = argument); False if a lambda call cannot be looked through"""
    e = resolve(fn, e)
    while e is not None and depth < 8:
        depth += 1
        if e["k"] == "DeclRefExpr" and ("sub" + side, e["ref"]["id"]) in m:
            e = resolve(fn, m[("sub" + side, e["ref"]["id"])])
            continue
        if "callee" in e and e.get("op") == "()":
            r = lambda_inline(fn, e)
            if r is None:
                break
            if r is False:
                return False
            for d, arg in r[1].items():
                key = ("sub" + side, d)
                if key in m and m[key] is not arg:
                    return False    # the same lambda called twice on one side with different arguments
                m[key] = arg
            e = resolve(fn, r[0])
            continue
        break
    return e


def expr_cmp(fn, a, b, m):
    """'same' | 'differs' (a difference both sides of which are understood: another literal, operator, function, member,
    parameter) | 'unknown'.  Loop variables of twin loops are matched by consistent renaming (m)."""
    a, b = _expand(fn, a, m, "A"), _expand(fn, b, m, "B")
    if a is False or b is False:
        return "unknown"        # a call of a local lambda that is not looked through
    if a is None or b is None:
        return "same" if a is b else "unknown"
    fa, fb = affine(fn, a), affine(fn, b)
    if fa is not None and fb is not None and fa[0] == fb[0] and (a["k"] != b["k"] or fa[0] is None) and \
            ("subA", fa[0]) not in m and ("subB", fb[0]) not in m:
        return "same" if fa == fb else "differs"        # v + c against v + c'
    if a["k"] != b["k"]:
        ca, cb = const_int(a), const_int(b)
        if ca is not None and cb is not None:
            return "same" if ca == cb else "differs"
        return "unknown"
    if a["k"] == "DeclRefExpr":
        ia, ib = a["ref"]["id"], b["ref"]["id"]
        if ia == ib:
            return "same"
        ka, kb = a["ref"].get("kind"), b["ref"].get("kind")
        if ka == "local" and kb == "local":
            if m.get(("a", ia), ib) == ib and m.get(("b", ib), ia) == ia:
                m[("a", ia)] = ib
                m[("b", ib)] = ia
                return "same"
            return "unknown"
        if ka == "param" and kb == "param":
            return "differs"
        return "unknown"
    for key in ("op", "member", "val"):
        if a.get(key) != b.get(key):
            return "differs"
    if "callee" in a and a["callee"]["qname"] != b.get("callee", {}).get("qname"):
        return "differs"
    ka, kb = kids(a), kids(b)
    if len(ka) != len(kb):
        return "unknown"
    res = "same"
    for x, y in zip(ka, kb):
        r = expr_cmp(fn, x, y, m)
        if r == "differs":
            return r
        if r == "unknown":
            res = r
    return res


def value_used(fn, z):
    """is the value of the expression z used (it is not a statement of its own / the increment part of a for)?"""
    cur, p = z, fn.parent(z)
    while p is not None and strip_casts(p) is strip_casts(cur) and p is not cur:
        cur, p = p, fn.parent(p)
    if p is None or p["k"] in ("CompoundStmt", "LabelStmt"):
        return False
    if p["k"] in ("ForStmt", "WhileStmt", "DoStmt", "IfStmt", "SwitchStmt"):
        init, cond, inc, body = match.loop_parts(p) if p["k"] in ("ForStmt", "WhileStmt", "DoStmt") else (None, kids(p)[0], None, None)
        return cond is cur
    if p["k"] == "BinaryOperator" and p.get("op") == ",":
        return kids(p)[1] is cur and value_used(fn, p)
    return True


def check_prefix(ck, ctor, info):
    """exclusive prefix sums are used with post-increment (out of place), inclusive ones with pre-decrement (in place);
    counting and distribution read the same key"""
    # prefix recurrence: X[i + c] = X[i + c - 1] + bkt_size[i + c - 1 | i + c]   (operands in either order)
    rec = None
    for z in ctor.nodes():
        asg = match.binop(z, ("=",)) if z["k"] in ("BinaryOperator", "CXXOperatorCallExpr") else None
        if not asg:
            continue
        lhs = match.index_parts(asg[1])
        add = match.binop(match.strip_conv(asg[2]), ("+",))
        if not lhs or not add:
            continue
        a, b = match.index_parts(add[1]), match.index_parts(add[2])
        if not a or not b:
            continue
        arr = ref_of(lhs[0])
        if arr is not None and ref_of(b[0]) == arr and match.this_field(a[0]) == "bkt_size":
            a, b = b, a
        if arr is None or ref_of(a[0]) != arr or match.this_field(b[0]) != "bkt_size":
            continue
        li, ai, bi = affine(ctor, lhs[1]), affine(ctor, a[1]), affine(ctor, b[1])
        if not li or not ai or not bi or li[0] is None or ai[0] != li[0] or bi[0] != li[0]:
            und(ctor, z, "prefix-sum recurrence with indices that are not understood: %s" % dtable.describe(z))
        if ai[1] != li[1] - 1:
            und(ctor, z, "prefix-sum recurrence does not add to the previous sum: %s" % dtable.describe(z))
        if bi[1] == li[1]:
            rec = ("inclusive", arr, z)
        elif bi[1] == li[1] - 1:
            rec = ("exclusive", arr, z)
        else:
            und(ctor, z, "prefix-sum recurrence adds a bucket size that is neither its own nor the previous one: %s" % dtable.describe(z))
    for z in ctor.nodes():
        # the same sums written by a standard algorithm over the counters
        if "callee" not in z or z.get("member_call") or z["callee"]["qname"] not in ("std::partial_sum", "std::inclusive_scan", "std::exclusive_scan"):
            continue
        nm = z["callee"]["name"]
        args = kids(z)
        if not any(match.this_field(y) == "bkt_size" for a in args for y in walk(a)):
            continue
        if rec is not None:
            und(ctor, z, "more than one prefix-sum computation over the bucket sizes")
        if len(args) != (4 if nm == "exclusive_scan" else 3):
            und(ctor, z, "%s() with an operation or an execution policy is not understood" % nm)
        src, end, dst = array_at(ctor, args[0]), array_at(ctor, args[1]), array_at(ctor, args[2])
        if not src or not end or not dst or match.this_field(src[0]) != "bkt_size" or match.this_field(end[0]) != "bkt_size" or \
                ref_of(dst[0]) is None or end[1] <= src[1] or src[1] < 0 or dst[1] < 0:
            und(ctor, z, "%s() over ranges that are not understood: %s" % (nm, dtable.describe(z)))
        arr0 = ref_of(dst[0])
        c0, c1 = src[1], dst[1]
        if nm == "exclusive_scan":
            # X[i] = init + bkt_size[0] + ... + bkt_size[i-1]; X[0] = init is the base of the sums as in `X[0] = <begin>`
            if c0 != 0 or c1 != 0:
                und(ctor, z, "exclusive_scan() that does not start at bucket 0: %s" % dtable.describe(z))
            rec = ("exclusive", arr0, z)
            continue
        # X[c1 + i] = bkt_size[c0] + ... + bkt_size[c0 + i]
        if c1 == 0 and c0 == 0:
            rec = ("inclusive", arr0, z)
            continue
        if c1 >= 1 and c0 in (c1, c1 - 1):
            # the first sum written is bkt_size[c0] alone: that is X[c1 - 1] + bkt_size[c0] only if X[c1 - 1] is 0
            base = [y for y in ctor.nodes() if y["k"] == "BinaryOperator" and y.get("op") == "=" and match.index_parts(kids(y)[0]) and
                    ref_of(match.index_parts(kids(y)[0])[0]) == arr0 and const_int(match.index_parts(kids(y)[0])[1]) == c1 - 1]
            if len(base) == 1 and const_int(kids(base[0])[1]) not in (None, 0):
                # evaluated: slot c1 - 1 holds a known number other than 0, so X[c1] = bkt_size[c0] is not X[c1 - 1] + bkt_size[c0]
                ck.violation("PREFIX-SUM-USE", ctor.qname, ctor.name + ":base",
                             "%s() writes slot %d as bkt_size[%d] alone, but slot %d holds %d: the cursors of bucket %d and the following "
                             "buckets overlap — strings land off their bucket" % (nm, c1, c0, c1 - 1, const_int(kids(base[0])[1]), c1 - 1),
                             ctor.nloc(z))
                return
            if len(base) != 1 or const_int(kids(base[0])[1]) != 0:
                und(ctor, z, "%s() writes the sums from slot %d on; that slot %d holds 0 is not established" % (nm, c1, c1 - 1))
            rec = ("inclusive" if c0 == c1 else "exclusive", arr0, z)
            continue
        und(ctor, z, "%s() adds bucket sizes that are neither the slot's own nor the previous one: %s" % (nm, dtable.describe(z)))
    if rec is None:
        raise ir.AnalysisBroken("%s: prefix-sum recurrence not found" % ctor.full)
    kind, arr, node = rec
    # every other operation on the sums must be understood
    uses = []
    for z in ctor.nodes():
        if z is node:
            continue
        u = match.unop(z, ("++", "--"))
        if u:
            ip = match.index_parts(u[1])
            if ip and ref_of(ip[0]) == arr:
                if not value_used(ctor, z):
                    und(ctor, z, "a prefix sum is stepped in a statement of its own; which value addresses the slot is not matched: %s"
                        % dtable.describe(z))
                uses.append((u[0], "post" if u[2] else "pre", z))
            continue
        b = match.binop(z) if z["k"] in ("BinaryOperator", "CompoundAssignOperator", "CXXOperatorCallExpr") else None
        if b and b[0].endswith("=") and b[0] not in ("==", "!=", "<=", ">="):
            ip = match.index_parts(b[1])
            if ip and ref_of(ip[0]) == arr and b[0] in ("+=", "-=") and const_int(b[2]) == 1 and value_used(ctor, z):
                uses.append(("++" if b[0] == "+=" else "--", "pre", z))     # (x -= 1) is --x
                continue
            if ip and ref_of(ip[0]) == arr and not (b[0] == "=" and affine(ctor, ip[1]) == (None, 0)):
                und(ctor, z, "a prefix sum is changed in a way that is not understood: %s" % dtable.describe(z))
        if "callee" in z and not z.get("op"):
            for a in (kids(z)[1:] if z.get("member_call") else kids(z)):
                if ref_of(a) == arr:
                    und(ctor, z, "the prefix sums are handed to %s()" % z["callee"]["name"])
    want = ("++", "post") if kind == "exclusive" else ("--", "pre")
    if info.shadow != (kind == "exclusive"):
        ck.violation("PREFIX-SUM-USE", ctor.qname, ctor.name + ":kind", "%s prefix sums in an %s step" % (kind, "out-of-place" if info.shadow else "in-place"),
                     ctor.nloc(node))
        return
    if not uses:
        und(ctor, node, "no use of the prefix sums as a cursor (++/--) found")
    if any((u[0], u[1]) != want for u in uses):
        ck.violation("PREFIX-SUM-USE", ctor.qname, ctor.name + ":use",
                     "%s prefix sums must be consumed with %s%s; found %s — strings land one slot off their bucket"
                     % (kind, "post-" if want[1] == "post" else "pre-", want[0], [(u[1], u[0]) for u in uses]), ctor.nloc(node))
        return
    # count key == distribute key
    keys = []
    for z in ctor.nodes():
        ip = match.index_parts(z) if z["k"] == "ArraySubscriptExpr" or ("callee" in z and z.get("op") == "[]") else None
        if not ip:
            continue
        base = ip[0]
        if match.this_field(base) == "bkt_size" or ref_of(base) == arr:
            par = ctor.parent(z)
            stepped = par is not None and bool(match.unop(par, ("++", "--")))
            pb = match.binop(par, ("+=", "-=")) if par is not None and par["k"] in ("CompoundAssignOperator", "CXXOperatorCallExpr") else None
            if pb and strip_casts(pb[1]) is z and const_int(pb[2]) == 1:
                stepped = True
            if stepped:
                keys.append((("count" if match.this_field(base) == "bkt_size" else "place"), strip_casts(ip[1])))
    cnt = [k for w_, k in keys if w_ == "count"]
    plc = [k for w_, k in keys if w_ == "place"]
    if not cnt or not plc:
        raise ir.AnalysisBroken("%s: counting/placing key not found" % ctor.full)
    if info.shadow:
        verdicts = [(expr_cmp(ctor, c, p, {}), c, p) for c in cnt for p in plc]
        bad = [v for v in verdicts if v[0] == "differs"]
        if bad:
            ck.violation("PREFIX-SUM-USE", ctor.qname, ctor.name + ":key",
                         "strings are counted by %s but placed by %s" % (dtable.describe(bad[0][1]), dtable.describe(bad[0][2])), ctor.nloc(node))
            return
        unk = [v for v in verdicts if v[0] == "unknown"]
        if unk:
            und(ctor, unk[0][2], "counting key %s and placing key %s could not be compared" % (dtable.describe(unk[0][1]), dtable.describe(unk[0][2])))
    # in place: the placing key is the cached character of the string in hand
    ck.ok("PREFIX-SUM-USE", where(ctor), "%s sums, %s%s use, same key for counting and placing" % (kind, want[1], want[0]))


# ------------------------------------------------------------------ indices of the fixed-size bucket arrays
_ARITH = {"+": lambda a, b: a + b, "-": lambda a, b: a - b, "*": lambda a, b: a * b, "&": lambda a, b: a & b, "|": lambda a, b: a | b,
          "^": lambda a, b: a ^ b, "<<": lambda a, b: a << b if b < 64 else None, ">>": lambda a, b: a >> b,
          "/": lambda a, b: a // b if b else None, "%": lambda a, b: a % b if b else None,
          "<": lambda a, b: int(a < b), "<=": lambda a, b: int(a <= b), ">": lambda a, b: int(a > b), ">=": lambda a, b: int(a >= b),
          "==": lambda a, b: int(a == b), "!=": lambda a, b: int(a != b)}


def concrete_witness(tu, fn, g, target, n, budget=1500000):
    """searches a path of the CFG on which the subscript `target` is evaluated with a concrete index >= n.  Integer locals that
    are set from constants and from each other are followed with their values; every test that depends on anything else (data)
    may go either way.  Returns (index, values of the locals) at such an access; "safe" if the search was exhaustive and the
    index was a known number below n at every access; None if nothing could be established."""
    def tracked(ty):
        ty = (ty or "").replace("const ", "").strip()
        return is_size_t(ty) or ty in ("unsigned int", "unsigned short", "unsigned char", "int", "long", "short", "bool")
    names = {}
    for z in fn.nodes():
        if z["k"] == "VarDecl" and tracked(z.get("ty")):
            names[z["did"]] = z.get("name")
    # only what the index (or a flag that may guard the access) depends on is followed; everything else is data
    rel = {y["ref"]["id"] for y in walk(kids(target)[1]) if y["k"] == "DeclRefExpr"}
    rel |= {z["did"] for z in fn.nodes() if z["k"] == "VarDecl" and (z.get("ty") or "").replace("const ", "") == "bool"}
    grew = True
    while grew:
        grew = False
        for z in fn.nodes():
            tgt, rhs = None, None
            if z["k"] == "VarDecl" and kids(z):
                tgt, rhs = z.get("did"), kids(z)[0]
            elif z["k"] in ("BinaryOperator", "CompoundAssignOperator") and (z.get("op") or "").endswith("=") and \
                    z.get("op") not in ("==", "!=", "<=", ">="):
                tgt, rhs = ref_of(kids(z)[0]), kids(z)[1]
            if tgt in rel and rhs is not None:
                for y in walk(rhs):
                    if y["k"] == "DeclRefExpr" and y["ref"]["id"] in names and y["ref"]["id"] not in rel:
                        rel.add(y["ref"]["id"])
                        grew = True
    names = {d: nm for d, nm in names.items() if d in rel}

    def cev(e, env):
        if e is None:
            return None
        c = const_int(e)
        if c is not None:
            return c
        k = e["k"]
        if k in ("ImplicitCastExpr", "CStyleCastExpr", "CXXStaticCastExpr", "CXXFunctionalCastExpr", "ParenExpr"):
            v = cev(kids(e)[0], env) if kids(e) else None
            ty = (e.get("ty") or "").replace("const ", "")
            if v is not None and ty in ("unsigned char", "unsigned short", "unsigned int"):
                v &= {"unsigned char": 0xFF, "unsigned short": 0xFFFF, "unsigned int": 0xFFFFFFFF}[ty]
            if v is not None and ty == "bool":
                v = int(v != 0)
            return v
        if k == "DeclRefExpr":
            return env.get(e["ref"]["id"])
        if k == "UnaryOperator":
            d = ref_of(kids(e)[0])
            if e.get("op") in ("++", "--"):
                v = env.get(d) if d is not None else None       # the element itself was executed before
                if v is None:
                    return None
                return v if not e.get("postfix") else (v - 1 if e["op"] == "++" else v + 1)
            v = cev(kids(e)[0], env)
            if v is None:
                return None
            return {"!": int(not v), "-": -v, "+": v, "~": None}.get(e.get("op"))
        if k == "CompoundAssignOperator" or (k == "BinaryOperator" and e.get("op") == "="):
            d = ref_of(kids(e)[0])
            return env.get(d) if d is not None else None
        if k == "BinaryOperator":
            op = e.get("op")
            a, b = cev(kids(e)[0], env), cev(kids(e)[1], env)
            if op == "&&":
                return 0 if (a == 0 or b == 0) else (1 if a is not None and b is not None else None)
            if op == "||":
                return 1 if ((a is not None and a != 0) or (b is not None and b != 0)) else (0 if a == 0 and b == 0 else None)
            if a is None or b is None or op not in _ARITH:
                return None
            v = _ARITH[op](a, b)
            return None if (v is None or v < 0) else v
        if k == "ConditionalOperator":
            c0 = cev(kids(e)[0], env)
            return None if c0 is None else cev(kids(e)[1 if c0 else 2], env)
        return None

    def transfer(node, env):
        k = node["k"]
        if k in ("DeclStmt", "VarDecl"):
            for v in (kids(node) if k == "DeclStmt" else [node]):
                if v is not None and v.get("did") in names:
                    val = cev(kids(v)[0], env) if kids(v) and kids(v)[0] is not None else None
                    env.pop(v["did"], None)
                    if val is not None:
                        env[v["did"]] = val
            return
        if k == "UnaryOperator" and node.get("op") in ("++", "--"):
            d = ref_of(kids(node)[0])
            if d in names:
                v = env.pop(d, None)
                if v is not None and (node["op"] == "++" or v > 0):
                    env[d] = v + (1 if node["op"] == "++" else -1)
            return
        if k == "UnaryOperator" and node.get("op") == "&":
            env.pop(ref_of(kids(node)[0]), None)
            return
        if k == "BinaryOperator" and node.get("op") == "=":
            d = ref_of(kids(node)[0])
            if d in names:
                v = cev(kids(node)[1], env)
                env.pop(d, None)
                if v is not None:
                    env[d] = v
            return
        if k == "CompoundAssignOperator":
            d = ref_of(kids(node)[0])
            if d in names:
                a, b = env.pop(d, None), cev(kids(node)[1], env)
                op = (node.get("op") or "")[:-1]
                v = _ARITH[op](a, b) if a is not None and b is not None and op in _ARITH else None
                if v is not None and v >= 0:
                    env[d] = v
            return
        if "callee" in node and not node.get("op"):
            callee = tu.by_did.get(node["callee"].get("did"))
            args = kids(node)[1:] if node.get("member_call") else kids(node)
            for i, a in enumerate(args):
                d = ref_of(a) if a is not None and a["k"] == "DeclRefExpr" else None
                if d in env:
                    pty = callee.params[i]["ty"] if callee is not None and i < len(callee.params) else "&"
                    if pty.rstrip().endswith("&") and not pty.startswith("const "):
                        env.pop(d, None)

    start = (g.entry, ())
    work = [start]
    seen = {start}
    steps = 0
    blind = False               # the access was reached with an index whose value is not followed
    while work:
        b, envt = work.pop()
        env = dict(envt)
        blk = g.blocks[b]
        last = None
        for e in blk.get("el", []):
            if not isinstance(e, int):
                continue
            node = fn.byid(e)
            if node is None:
                continue
            steps += 1
            if node is target:
                v = cev(kids(target)[1], env)
                if v is None:
                    blind = True
                if v is not None and v >= n:
                    inidx = {y["ref"]["id"] for y in walk(kids(target)[1]) if y["k"] == "DeclRefExpr"}
                    return v, ", ".join("%s = %d" % (names[d], x) for d, x in sorted(env.items()) if d in names and d in inidx)
            transfer(node, env)
            last = node
        if steps > budget:
            return None
        if blk.get("noreturn"):
            continue
        succ = blk.get("succ", [])
        nxt = [s for s in succ if s is not None]
        if len(succ) == 2 and last is not None and blk.get("termk") not in ("SwitchStmt",):
            v = cev(last, env)
            if v is not None:
                nxt = [s for s in ([succ[0]] if v else [succ[1]]) if s is not None]
        for s in nxt:
            st = (s, tuple(sorted(env.items())))
            if st not in seen:
                seen.add(st)
                work.append(st)
    # every path was followed (tests on data both ways) and the index was a known in-range number at every access
    return None if blind else "safe"


def check_index_bounds(ck, tu):
    from engine import intervals
    for fn in [f for f in tu.functions if f.record and f.record.startswith(NS + "RadixStep_") and f.body is not None]:
        g = cfgm.CFG(fn)
        bad, n_sites = intervals.fixed_array_findings(fn, g)
        if not n_sites:
            if fn.kind == "lambda":
                continue        # a lambda written inside a step function that subscripts no bucket array: nothing to bound
            raise ir.AnalysisBroken("%s: no fixed-size bucket array subscripts found" % fn.full)
        seen = set()
        undecided = None
        safe = 0
        for z, n, r in bad:
            key = dtable.describe(z)
            if key in seen:
                continue
            seen.add(key)
            # the interval analysis could not bound the index: that alone is no evidence; look for an execution path
            wit = concrete_witness(tu, fn, g, z, n)
            if wit == "safe":
                safe += 1       # the intervals were too coarse (a join or a flag); the path search bounds the index
                continue
            if wit is None:
                undecided = undecided or (z, n, r, key)
                continue
            ck.violation("BKT-INDEX-BOUND", fn.qname, "%s:%s" % (fn.name, key),
                         "%s is evaluated with index %d on a path of the function (%s); the array has %d elements (one-past-the-end read when "
                         "every remaining bucket is empty; the value then decides whether and where an LCP entry is written)"
                         % (key, wit[0], wit[1], n), fn.nloc(z))
        if undecided is not None and not [1 for v in ck.violations if v["rule"] == "BKT-INDEX-BOUND" and v["fn"] == fn.qname]:
            z, n, r, key = undecided
            und(fn, z, "interval analysis cannot bound the index of %s (in [%s, %s], the array has %d elements) and no concrete path "
                "to an out-of-range access was found" % (key, r[0], r[1], n))
        if not bad or (safe == len(seen) and undecided is None):
            ck.ok("BKT-INDEX-BOUND", where(fn), "%d subscripts of fixed-size bucket arrays, all proven < size by interval analysis%s"
                  % (n_sites, " / exhaustive path search" if safe else ""))


# ------------------------------------------------------------------ fall-back chain
def sorter_key(fn):
    return "%s/%d" % (fn.name, len(fn.params))


def mentions(fn, e, did, depth=0):
    """does the expression read the variable (directly or through locals that only name a value)?"""
    for x in walk(e):
        if x["k"] == "DeclRefExpr":
            if x["ref"]["id"] == did:
                return True
            init = transparent_init(fn, x["ref"]["id"]) if depth < 6 else None
            if init is not None and mentions(fn, init, did, depth + 1):
                return True
    return False


def check_fallback(ck, tu):
    sorters = [f for f in tu.functions if f.qname.startswith(NS) and f.body is not None and
               (f.name.startswith("radixsort_") or f.name in INPLACE_NAMES)]
    edges = {}
    for fn in sorters:
        k = sorter_key(fn)
        edges.setdefault(k, set())
        adapter = len(fn.params) == 3 and fn.name != "multikey_quicksort" and \
            not any(n["k"] == "VarDecl" and "std::stack<" in (n.get("ty") or "") for n in walk(fn.body))
        di, mi = role_index(fn.params, "depth"), role_index(fn.params, "memory")
        for z in fn.nodes():
            if "callee" not in z or not z["callee"]["qname"].startswith(NS):
                continue
            cal = tu.by_did.get(z["callee"]["did"])
            if cal is None or not (cal.name.startswith("radixsort_") or cal.name in INPLACE_NAMES):
                continue
            ck2 = sorter_key(cal)
            edges[k].add(ck2)
            # adapters (strptr, depth, memory): early-return fall-backs forward the same roles
            if not adapter:
                continue
            if di is None or mi is None or di == 0 or mi == 0:
                und(fn, None, "roles (strptr, depth, memory) of the parameters not recognised")
            cdi, cmi = role_index(cal.params, "depth"), role_index(cal.params, "memory")
            args = kids(z)
            if cdi is None or cmi is None or max(cdi, cmi) >= len(args):
                und(fn, z, "depth/memory parameters of %s() not recognised" % cal.name)
            L = Lin(fn, {fn.params[di]["did"]: "depth", fn.params[mi]["did"]: "memory"})
            par = fn.parent(z)
            is_return = par is not None and par["k"] == "ReturnStmt"
            a0 = resolve(fn, args[0])
            first_ok = ref_of(a0) == fn.params[0]["did"] or (
                "callee" in a0 and a0["callee"]["name"] == "add_shadow" and ref_of(resolve(fn, kids(a0)[0])) == fn.params[0]["did"])
            if not first_ok:
                # understood and different: a narrower or re-flipped range of the own pointer, or another parameter
                narrower = "callee" in a0 and a0.get("member_call") and a0["callee"]["name"] in ("sub", "flip", "copy_back")
                other = a0["k"] == "DeclRefExpr" and a0["ref"].get("kind") == "param"
                if not (narrower or other):
                    und(fn, z, "string pointer handed to %s() not understood: %s" % (cal.name, dtable.describe(args[0])))
            dep = L.ev(args[cdi])
            if dep is None:
                und(fn, z, "depth handed to %s() not understood: %s" % (cal.name, dtable.describe(args[cdi])))
            dep_ok = dep == {"depth": 1}
            mem = args[cmi]
            mv = L.ev(mem)
            if is_return:
                if mv is None:
                    und(fn, z, "memory limit handed to %s() not understood: %s" % (cal.name, dtable.describe(mem)))
                mem_ok = mv == {"memory": 1}
            else:
                mem_ok = mentions(fn, mem, fn.params[mi]["did"])
                if not mem_ok and mv is None:
                    und(fn, z, "memory limit handed to %s() not understood: %s" % (cal.name, dtable.describe(mem)))
            if not (first_ok and dep_ok and mem_ok):
                ck.violation("FALLBACK-FORWARD", fn.qname, "%s->%s" % (k, ck2),
                             "%s() must hand (strptr, depth, memory) on unchanged to %s(); found %s" % (fn.name, cal.name, dtable.describe(z)),
                             fn.nloc(z))
            else:
                ck.ok("FALLBACK-FORWARD", where(fn, "-> " + ck2), "(strptr, depth, memory%s)" % ("" if is_return else " - own use"))
    # acyclic apart from the self recursion of multikey quicksort on strict sub-ranges
    order = []
    state = {}

    def dfs(u, path):
        state[u] = 1
        for v in sorted(edges.get(u, ())):
            if v == u and u.startswith("multikey_quicksort"):
                continue
            if state.get(v) == 1:
                return path + [u, v]
            if state.get(v) is None:
                r = dfs(v, path + [u])
                if r:
                    return r
        state[u] = 2
        order.append(u)
        return None
    cyc = None
    for u in sorted(edges):
        if state.get(u) is None:
            cyc = cyc or dfs(u, [])
    if cyc:
        # every edge is a call that was found in the code: the cycle is concrete
        ck.violation("FALLBACK-DAG", NS + cyc[-1].split("/")[0], "cycle:" + "->".join(cyc),
                     "the fall-back chain is cyclic (%s): with a tight memory limit the sorters call each other forever" % " -> ".join(cyc), "")
    else:
        sinks = [u for u in edges if not (edges[u] - {u})]
        ck.ok("FALLBACK-DAG", "sorter call graph", "%d sorters, acyclic; sinks: %s" % (len(edges), ", ".join(sorted(sinks))))
        if sorted(s.split("/")[0] for s in sinks) != ["insertion_sort"]:
            # a sorter without outgoing calls: only a finding if all its calls are resolved (closed world)
            for s in sinks:
                for fn in sorters:
                    if sorter_key(fn) == s and fn.name != "insertion_sort":
                        for z in fn.nodes():
                            if "callee" in z and not z.get("op") and z["callee"]["qname"].startswith("tlx::") and \
                                    z["callee"].get("did") not in tu.by_did and not z.get("member_call"):
                                und(fn, z, "%s() calls %s() whose body is not known: the fall-back chain cannot be closed"
                                    % (fn.name, z["callee"]["name"]))
            ck.violation("FALLBACK-DAG", NS + "insertion_sort", "sinks", "the only limit-free sink must be insertion_sort; sinks are %s" % sinks, "")


# ------------------------------------------------------------------ key packing
def pack_table(fn):
    """decision table of get_uintN(s, i): for every outcome of the successive end-of-string tests the returned key as
    {byte index: shift}.  Yields (valuation, key, bytes read, end tests passed)."""
    it = fn.params[1]["did"]

    class St:
        def __init__(self):
            self.p = 0              # how far the iterator was advanced
            self.vars = {}          # local -> {byte: shift}
            self.done = 0
            self.reads = []

    def ev(st, e):
        """{byte: shift} of an integer expression built from the characters read so far; None if not understood"""
        e0 = e
        e = strip_casts(e)
        if e is None:
            return None
        while e["k"] in ("CXXFunctionalCastExpr", "CXXConstructExpr") and len(kids(e)) == 1:
            e = strip_casts(kids(e)[0])
        c = const_int(e)
        if c is not None:
            return {} if c == 0 else None
        if e.get("id") in st_vals(st):
            return st_vals(st)[e["id"]]
        d = match.deref_of(e)
        if d is not None:
            j = pos_of(st, d)
            if j is None:
                return None
            st.reads.append(j)
            return {j: 0}
        ip = match.index_parts(e)
        if ip and ref_of(ip[0]) == it and const_int(ip[1]) is not None:
            j = st.p + const_int(ip[1])
            st.reads.append(j)
            return {j: 0}
        if e["k"] == "DeclRefExpr":
            return dict(st.vars[e["ref"]["id"]]) if st.vars.get(e["ref"]["id"]) is not None else None
        b = match.binop(e, ("<<", "|", "+", "^", "*")) if e["k"] == "BinaryOperator" else None
        if b:
            if b[0] in ("<<", "*"):
                x, s = ev(st, b[1]), const_int(b[2])
                if b[0] == "*":
                    s = {1: 0, 256: 8, 65536: 16, 16777216: 24}.get(s)
                if x is None or s is None:
                    return None
                return {j: sh + s for j, sh in x.items()}
            x, y = ev(st, b[1]), ev(st, b[2])
            if x is None or y is None or set(x) & set(y):
                return None
            out = dict(x)
            out.update(y)
            return out
        return None

    def st_vals(st):
        if not hasattr(st, "vals"):
            st.vals = {}
        return st.vals

    def pos_of(st, e):
        """the position (relative to the start) an iterator expression points to"""
        e = strip_casts(e)
        if e.get("id") in st_vals(st) and isinstance(st_vals(st)[e["id"]], int):
            return st_vals(st)[e["id"]]
        if ref_of(e) == it:
            return st.p
        b = match.binop(e, ("+",))
        if b and ref_of(b[1]) == it and const_int(b[2]) is not None:
            return st.p + const_int(b[2])
        return None

    def effects(st, e):
        for z in postorder(e):
            u = match.unop(z, ("++",))
            if u and ref_of(u[1]) == it:
                st_vals(st)[z["id"]] = st.p if u[2] else st.p + 1       # the iterator value of i++ / ++i
                st.p += 1
                continue
            b = match.binop(z) if z["k"] in ("BinaryOperator", "CompoundAssignOperator", "CXXOperatorCallExpr") else None
            if b and b[0].endswith("=") and b[0] not in ("==", "!=", "<=", ">="):
                d = ref_of(b[1])
                if d == it:
                    if b[0] == "+=" and const_int(b[2]) == 1:
                        st.p += 1
                        continue
                    nb_ = match.binop(b[2], ("+",)) if b[0] == "=" else None
                    if nb_ and ref_of(nb_[1]) == it and const_int(nb_[2]) == 1:
                        st.p += 1
                        continue
                    und(fn, z, "the character iterator is moved in a way that is not understood: %s" % dtable.describe(z))
                if d is not None:
                    rhs = ev(st, b[2])
                    if b[0] == "=":
                        st.vars[d] = rhs
                    elif b[0] in ("|=", "+=", "^="):
                        cur = st.vars.get(d)
                        st.vars[d] = None if (cur is None or rhs is None or set(cur) & set(rhs)) else {**cur, **rhs}
                    elif b[0] == "<<=" and const_int(b[2]) is not None and st.vars.get(d) is not None:
                        st.vars[d] = {j: sh + const_int(b[2]) for j, sh in st.vars[d].items()}
                    else:
                        st.vars[d] = None
                continue
            if "callee" in z and not z.get("op") and z["callee"]["name"] != "is_end":
                for a in (kids(z)[1:] if z.get("member_call") else kids(z)):
                    if ref_of(a) == it:
                        und(fn, z, "the character iterator is handed to %s()" % z["callee"]["name"])

    def state(run):
        st = getattr(run, "_c03", None)
        if st is None:
            st = run._c03 = St()
        while st.done < len(run.events):
            ev_ = run.events[st.done]
            st.done += 1
            if ev_[0] == "decl":
                v = ev_[1]
                init = kids(v)[0] if kids(v) else None
                if init is not None:
                    effects(st, init)
                    st.vars[v["did"]] = ev(st, init)
            elif ev_[0] == "expr":
                effects(st, ev_[1])
            elif ev_[0] == "loop":
                und(fn, ev_[1], "loop in the key packing")
        return st

    def atomize(n, run):
        s = strip_casts(n)
        if s is not None and "callee" in s and s["callee"]["name"] == "is_end":
            st = state(run)
            args = kids(s)[1:] if s.get("member_call") else kids(s)
            its = [a for a in args if pos_of(st, a) is not None and (ref_of(a) == it or match.binop(a, ("+",)))]
            if len(its) != 1:
                und(fn, s, "end-of-string test on something that is not the character iterator: %s" % dtable.describe(s))
            return "end@%d" % pos_of(st, its[0]), False
        return None

    counter = [-100]

    def lower(n):
        """return c ? a : b;  ->  if (c) return a; else return b;   (so that the tests inside are decided like the others)"""
        if n is None or "ch" not in n:
            return n
        if n["k"] == "ReturnStmt" and kids(n) and strip_casts(kids(n)[0]) is not None and strip_casts(kids(n)[0])["k"] == "ConditionalOperator":
            c0, a, b = kids(strip_casts(kids(n)[0]))
            counter[0] -= 3
            return {"k": "IfStmt", "id": counter[0], "l": n.get("l"), "ch": [
                c0, lower({"k": "ReturnStmt", "id": counter[0] + 1, "l": n.get("l"), "ch": [a]}),
                lower({"k": "ReturnStmt", "id": counter[0] + 2, "l": n.get("l"), "ch": [b]})]}
        if n["k"] in ("CompoundStmt", "IfStmt"):
            out = dict(n)
            out["ch"] = [lower(c) for c in n["ch"]]
            return out
        return n

    for lf in dtable.explore(lower(fn.body), atomize, fn):
        st = state(lf["run"])
        if lf["stop"][0] != "return" or lf["stop"][1][0] is None:
            und(fn, None, "a path of the key packing does not return a value")
        effects(st, lf["stop"][1][0])
        key = ev(st, lf["stop"][1][0])
        yield lf["val"], key, list(st.reads), lf


def check_keypack(ck, tu):
    for fn in [f for f in tu.functions if f.qname in (NS + "StringSetBase::get_uint16", NS + "StringSetBase::get_uint8")]:
        if len(fn.params) != 2 or is_size_t(fn.params[1]["ty"]) or fn.body is None:
            continue            # the (string, depth) overload forwards to the (string, iterator) one
        width = 2 if fn.name == "get_uint16" else 1
        sig = "%s:%s" % (fn.name, label_set(fn))
        bad = None
        rows = 0
        for val, key, reads, lf in pack_table(fn):
            rows += 1
            row = dtable.fmt_val(val)
            # the characters before the first end test that succeeds are present
            present = 0
            while present < width and val.get("end@%d" % present) is False:
                present += 1
            for j in reads:
                if val.get("end@%d" % j) is not False:
                    bad = bad or "in the row {%s} character %d is read without its own end-of-string test" % (row, j)
            if key is None:
                und(fn, None, "row {%s} of the key packing: returned value not understood" % row)
            if present < width and val.get("end@%d" % present) is not True and not bad:
                # the row is fully evaluated: it returns without having looked whether character `present` exists
                bad = "in the row {%s} the key %s is returned without an end-of-string test of character %d" % (row, fmt_key(key), present)
            want = {j: 8 * (width - 1 - j) for j in range(present)}
            if key != want and not bad:
                bad = "byte j of the %d-byte key must be shifted by 8*(%d-1-j) after an end-of-string test; in the row {%s} the key is " \
                      "built as %s instead of %s" % (width, width, row, fmt_key(key), fmt_key(want))
        if not rows:
            und(fn, None, "key packing has no path")
        if bad:
            ck.violation("KEY-PACK-TABLE", fn.qname, sig, bad, fn.loc)
        else:
            ck.ok("KEY-PACK-TABLE", "%s [%s]" % (fn.name, label_set(fn)),
                  "%d rows: shifts %s, each byte behind its end test" % (rows, [8 * (width - 1 - j) for j in range(width)]))
    # characters are unsigned bytes in every analysed string set
    seen = set()
    for fn in [f for f in tu.functions if f.qname == NS + "StringSetBase::get_char"]:
        t = fn.rtargs[0] if fn.rtargs else ""
        if t in seen:
            continue
        seen.add(t)
        r = (fn.d.get("ret") or B_ret_type(fn) or "").replace("const ", "").replace("volatile ", "").strip()
        if r in ("unsigned char", "std::uint8_t", "uint8_t", "unsigned short", "unsigned int", "char8_t"):
            ck.ok("CHAR-UNSIGNED", "get_char [%s]" % label_set(fn), "character type %s" % r)
        elif r in ("char", "signed char", "std::int8_t", "int8_t", "short", "int"):
            ck.violation("CHAR-UNSIGNED", fn.qname, "get_char:" + label_set(fn), "multikey quicksort compares get_char() values: for %s the character type "
                         "is %s, which orders bytes >= 0x80 before ASCII" % (label_set(fn), r), fn.loc)
        else:
            und(fn, None, "character type `%s` of get_char() is neither a known unsigned nor a known signed type" % r)


def fmt_key(k):
    if k is None:
        return "?"
    return " | ".join("c%d << %d" % (j, s) for j, s in sorted(k.items())) or "0"


def B_ret_type(fn):
    rets = [n for n in walk(fn.body) if n["k"] == "ReturnStmt" and kids(n)]
    return (strip_casts(kids(rets[0])[0]).get("ty") or "") if rets else ""


def label_set(fn):
    t = " ".join(fn.rtargs or fn.targs or [fn.full])
    for name, pat in (("CUChar", "GenericCharStringSet<const unsigned char>"), ("UChar", "GenericCharStringSet<unsigned char>"),
                      ("UPtrStd", "UPtrStdStringSet"), ("StdString", "StdStringSet"), ("Suffix", "StringSuffixSet")):
        if pat in t:
            return name
    return t[:30]


# ------------------------------------------------------------------ LCP slot 0 belongs to the caller
def is_unsigned(ty):
    ty = (ty or "").replace("const ", "").strip()
    return "unsigned" in ty or ty in ("size_t", "std::size_t")


def lower_bound(fn, e, guards, depth=0):
    """(lb, free) for an unsigned index expression: lb is a sound lower bound; free says that lb is what the expression evaluates
    to when every unsigned quantity in it that is not looked through is at its least value (0, or its guard), i.e. nothing
    in the expression was skipped.  None if the expression contains something that is not understood."""
    e = strip_casts(e)
    if e is None or depth > 8:
        return None
    c = const_int(e)
    if c is not None:
        return c, True
    if e["k"] == "ParenExpr":
        return lower_bound(fn, kids(e)[0], guards, depth)
    if e["k"] == "BinaryOperator" and e.get("op") == "+":
        a, b = lower_bound(fn, kids(e)[0], guards, depth + 1), lower_bound(fn, kids(e)[1], guards, depth + 1)
        if a is None or b is None:
            return None
        return a[0] + b[0], a[1] and b[1]
    if e["k"] == "BinaryOperator" and e.get("op") == "-":
        # p - q with p initialised from the same expression as q
        l, r = strip_casts(kids(e)[0]), strip_casts(kids(e)[1])
        d = ref_of(l)
        if d is not None:
            for n in walk(fn.body):
                if n["k"] == "VarDecl" and n.get("did") == d and kids(n) and match.same_expr(kids(n)[0], r):
                    return 0, True
        return None
    d = ref_of(e)
    if d is not None:
        if d in guards:
            return guards[d], True
        init = transparent_init(fn, d)
        if init is not None:
            r = lower_bound(fn, init, guards, depth + 1)
            if r is not None:
                return r
        if not is_unsigned(e.get("ty")):
            return None
        stepwise = any((match.binop(w) and match.binop(w)[0] != "=") or match.unop(w, ("++", "--")) for w in writes_of(fn, d))
        return 0, not stepwise      # a counter that is built up step by step is >= 0, but 0 need not be what it holds here
    if e["k"] == "MemberExpr" and is_unsigned(e.get("ty")):
        return 0, True              # a field such as rs.pos / this->pos
    return None


def fill_loop_parts(fn, loop):
    """(counter decl id, start expression, set_lcp call) of a loop whose body is one set_lcp(counter, v) and that counts the
    counter up; None if the loop is something else; Undecidable if it writes LCPs at a counter in another form"""
    if loop["k"] not in ("ForStmt", "WhileStmt"):
        return None
    init, cond, inc, body = match.loop_parts(loop)
    stmts = [x for x in (kids(body) if body is not None and body["k"] == "CompoundStmt" else [body]) if x is not None]
    calls = [strip_casts(x) for x in stmts if "callee" in (strip_casts(x) or {}) and strip_casts(x)["callee"]["name"] == "set_lcp"]
    if len(calls) != 1:
        return None
    call = calls[0]
    var = ref_of(kids(call)[1])
    rest = [x for x in stmts if strip_casts(x) is not call]
    if var is None and len(rest) <= 1:
        und(fn, loop, "a loop fills LCPs at %s, which is not its plain counter" % dtable.describe(kids(call)[1]))
    ups = [x for x in rest + ([inc] if inc is not None else []) if
           (match.unop(x, ("++",)) and ref_of(match.unop(x, ("++",))[1]) == var) or
           (match.binop(x, ("+=",)) and ref_of(match.binop(x, ("+=",))[1]) == var and const_int(match.binop(x, ("+=",))[2]) == 1)]
    if var is None or len(ups) != 1 or len(rest) != (0 if inc is not None and ups[0] is inc else 1):
        return None
    ivars = [x for x in walk(init) if x["k"] == "VarDecl"] if init is not None else []
    if ivars:
        if ivars[0].get("did") != var or not kids(ivars[0]):
            return None
        return var, kids(ivars[0])[0], call
    if init is not None:
        b = match.binop(init, ("=",))
        if not b or ref_of(b[1]) != var:
            return None
        return var, b[2], call
    # while loop: the counter keeps the value of its declaration if nothing writes it before the loop
    d = decl_of(fn, var)
    other = [w for w in writes_of(fn, var) if not any(y is w for y in walk(loop))]
    if d is None or not kids(d) or other:
        und(fn, loop, "LCP fill loop whose start value is not understood")
    return var, kids(d)[0], call


def check_lcp_slot0(ck, tu):
    n_loops = 0
    for fn in [f for f in tu.functions if f.qname.startswith(NS) and f.body is not None and "LcpPtr" in f.full]:
        if not (fn.name.startswith("radixsort_") or fn.name in INPLACE_NAMES or fn.kind == "ctor" or fn.name == "fill_lcp"):
            continue
        for loop in match.loops_in(fn.body):
            parts = fill_loop_parts(fn, loop)
            if parts is None:
                continue
            var, start, call = parts
            n_loops += 1
            lbf = lower_bound(fn, start, {})
            if lbf is None or (lbf[0] < 1 and not lbf[1]):
                und(fn, loop, "start index %s of an LCP fill loop is not understood" % dtable.describe(start))
            lb = lbf[0]
            if lb < 1:
                ck.violation("LCP-SLOT0", fn.qname, "%s:fill-from:%s" % (fn.name, dtable.describe(start)),
                             "a run of equal strings gets its LCP filled from index %s on, which is not provably >= 1: slot 0 of the range a sorter "
                             "was given (and the slot of a run's first string) holds the LCP to the predecessor and belongs to the caller"
                             % dtable.describe(start), fn.nloc(loop))
            else:
                ck.ok("LCP-SLOT0", where(fn, "fill from " + dtable.describe(start)), "lower bound %d" % lb)
        # single writes guarded by `x > 0`
        for z in fn.nodes():
            if "callee" not in z or z["callee"]["name"] != "set_lcp" or not z.get("member_call"):
                continue
            par = fn.parent(z)
            inloop = False
            q = par
            guards = {}
            while q is not None:
                if q["k"] in ("ForStmt", "WhileStmt", "DoStmt"):
                    inloop = True
                if q["k"] == "IfStmt":
                    c = kids(q)[0]
                    # only the then-branch counts
                    if any(x is z for x in walk(kids(q)[1])):
                        for cc in conj(c):
                            b = match.binop(cc, (">", ">=", "!="))
                            if b and ref_of(b[1]) is not None and const_int(b[2]) is not None:
                                v = const_int(b[2])
                                guards[ref_of(b[1])] = v + 1 if b[0] == ">" else (v if b[0] == ">=" else (1 if v == 0 else 0))
                q = fn.parent(q)
            if inloop:
                continue
            lbf = lower_bound(fn, kids(z)[1], guards)
            lb = lbf[0] if lbf else None
            if lb is not None and lb >= 1:
                ck.ok("LCP-SLOT0", where(fn, "write at " + dtable.describe(kids(z)[1])), "lower bound %d under its guard" % lb, nontrivial=False)
    return n_loops


def conj(c):
    c = strip_casts(c)
    if c["k"] == "ParenExpr":
        return conj(kids(c)[0])
    if c["k"] == "BinaryOperator" and c.get("op") == "&&":
        return conj(kids(c)[0]) + conj(kids(c)[1])
    return [c]


# ------------------------------------------------------------------ public entry points
def expand(fn, e):
    """the nodes of e, with locals that only name a value replaced by that value"""
    for x in walk(e):
        if x["k"] == "DeclRefExpr" and x["ref"].get("kind") == "local":
            init = transparent_init(fn, x["ref"]["id"])
            if init is not None:
                yield from expand(fn, init)
                continue
        yield x


def param_use(fn, e, pids):
    """(set of parameters the expression is built from, understood?): understood means that apart from parameters the
    expression only contains constants, operators, casts and calls (no local whose value is not visible)"""
    used, ok = set(), True
    for x in expand(fn, e):
        if x["k"] == "DeclRefExpr":
            if x["ref"]["id"] in pids:
                used.add(x["ref"]["id"])
            elif x["ref"].get("kind") in ("local", "param"):
                ok = False
    return used, ok


def same_param(fn, e, did, pids, what, c):
    """True: e is the parameter; False: e is understood and something else (another parameter, a constant); else Undecidable"""
    r = resolve(fn, e)
    if ref_of(r) == did:
        return True
    if const_int(r) is not None or r["k"] in ("NullPtr", "CXXNullPtrLiteralExpr", "GNUNullExpr") or ref_of(r) in pids:
        return False
    used, ok = param_use(fn, r, pids)
    if ok and did not in used:
        return False
    und(fn, c, "%s handed on as %s: not understood" % (what, dtable.describe(e)))


def check_entries(ck, tu):
    targets = ("tlx::sort_strings", "tlx::sort_strings_lcp", NS + "radixsort_CE3")
    for fn in [f for f in tu.functions if f.qname in ("tlx::sort_strings", "tlx::sort_strings_lcp")]:
        calls = [z for z in fn.nodes() if "callee" in z and z["callee"]["qname"] in targets]
        sig = "%s(%s)" % (fn.name, ",".join(p["ty"].replace("std::", "")[:28] for p in fn.params))
        lcp = fn.name == "sort_strings_lcp"
        # roles of the parameters: the strings (first), [their number], [the lcp array], the memory limit (last)
        pids = [p["did"] for p in fn.params]
        rest = fn.params[1:-1]
        p_size = [p["did"] for p in rest if is_size_t(p["ty"])]
        p_lcp = [p["did"] for p in rest if "*" in p["ty"]]
        if len(fn.params) < 2 or not is_size_t(fn.params[-1]["ty"]) or len(p_size) > 1 or len(p_lcp) != (1 if lcp else 0) or \
                len(p_size) + len(p_lcp) != len(rest):
            und(fn, None, "roles of the parameters of the entry point not recognised")
        p_strings, p_mem = pids[0], pids[-1]
        names = {p["did"]: p["name"] for p in fn.params}
        if len(calls) != 1:
            other = [z for z in fn.nodes() if "callee" in z and not z.get("op") and z["callee"]["qname"].startswith("tlx::") and
                     z["callee"]["qname"] not in targets and z["k"] not in ("CXXConstructExpr", "CXXTemporaryObjectExpr")]
            if calls or other:
                und(fn, (calls or other)[0], "entry point with %d sorter calls and %d other tlx calls: not understood" % (len(calls), len(other)))
            # closed world: the body calls nothing of tlx at all
            ck.violation("ENTRY-FORWARD", fn.qname, sig, "an entry point must reach radixsort_CE3 or another overload exactly once; it calls no sorter",
                         fn.loc)
            continue
        c = calls[0]
        args = kids(c)
        if c["callee"]["name"] == "radixsort_CE3":
            if len(args) != 3 or not p_size:
                und(fn, c, "radixsort_CE3 call of a shape that is not understood")
            d = resolve(fn, args[1])
            if const_int(d) is None and ref_of(d) not in pids:
                und(fn, c, "depth handed to radixsort_CE3 not understood: %s" % dtable.describe(args[1]))
            depth0 = const_int(d) == 0
            mem = same_param(fn, args[2], p_mem, pids, "memory limit", c)
            ptr = resolve(fn, args[0])
            pty = ptr.get("ty") or ""
            if not ("StringPtr<" in pty or "StringLcpPtr<" in pty or "StringShadow" in pty):
                und(fn, c, "type of the string pointer handed to radixsort_CE3 not understood: %s" % pty[:80])
            kind_ok = ("StringLcpPtr<" in pty) == lcp and "Shadow" not in pty
            # the set is [strings, strings + size)
            sets = [x for x in expand(fn, ptr) if x["k"] in ("CXXConstructExpr", "CXXTemporaryObjectExpr", "CXXFunctionalCastExpr") and
                    "StringSet" in (x.get("ty") or "") and "Ptr<" not in (x.get("ty") or "") and len(kids(x)) == 2]
            if len(sets) != 1:
                und(fn, c, "construction of the string set not found in %s" % dtable.describe(ptr)[:160])
            sb, se = resolve(fn, kids(sets[0])[0]), resolve(fn, kids(sets[0])[1])
            eb = match.binop(se, ("+",))
            range_ok = ref_of(sb) == p_strings and bool(eb) and \
                {ref_of(resolve(fn, eb[1])), ref_of(resolve(fn, eb[2]))} == {p_strings, p_size[0]}
            if not range_ok:
                for part in (sb, se):
                    if not param_use(fn, part, pids)[1] or any("callee" in x and not x.get("op") for x in expand(fn, part)):
                        und(fn, c, "bounds of the string set not understood: %s" % dtable.describe(sets[0])[:160])
            used, ok = param_use(fn, ptr, pids)
            lcp_ok = (not lcp) or p_lcp[0] in used
            if not lcp_ok and not ok:
                und(fn, c, "lcp array handed to radixsort_CE3 not understood: %s" % dtable.describe(ptr)[:160])
            if "unsigned char" in pty or "StdStringSet" in pty:
                unsigned_ok = True
            elif "GenericCharStringSet<char>" in pty or "GenericCharStringSet<const char>" in pty:
                unsigned_ok = False
            else:
                und(fn, c, "character type of the string set not recognised: %s" % pty[:120])
            if not (depth0 and mem and kind_ok and range_ok and lcp_ok and unsigned_ok):
                ck.violation("ENTRY-FORWARD", fn.qname, sig, "the entry point must sort [strings, strings+size) from depth 0 with the caller's memory limit%s "
                             "through an unsigned-character set: %s" % (" and lcp array" if lcp else "", dtable.describe(c)[:200]), fn.nloc(c))
            else:
                ck.ok("ENTRY-FORWARD", sig, "radixsort_CE3(%s[strings, strings+size)%s, 0, memory)" % ("Lcp" if lcp else "", ", lcp" if lcp else ""))
            continue
        # forwards to another overload: same name, every role handed on, char -> unsigned char reinterpretation only
        if c["callee"]["name"] != fn.name:
            ck.violation("ENTRY-FORWARD", fn.qname, sig, "%s forwards to %s" % (fn.name, c["callee"]["name"]), fn.nloc(c))
            continue
        if len(args) != (4 if lcp else 3):
            und(fn, c, "forwarding call with %d arguments" % len(args))
        good = True
        u0, ok0 = param_use(fn, args[0], pids)
        u1, ok1 = param_use(fn, args[1], pids)
        if not ok0 or not ok1:
            und(fn, c, "strings/size handed on in a form that is not understood: %s" % dtable.describe(c)[:160])
        good = good and u0 == {p_strings}
        if p_size:
            good = good and same_param(fn, args[1], p_size[0], pids, "number of strings", c)
        else:
            good = good and u1 == {p_strings}       # strings.data(), strings.size()
        if lcp:
            good = good and same_param(fn, args[2], p_lcp[0], pids, "lcp array", c)
        good = good and same_param(fn, args[-1], p_mem, pids, "memory limit", c)
        cast_ok = True
        for x in expand(fn, args[0]):
            if x["k"] == "CXXReinterpretCastExpr":
                cast_ok = "unsigned char" in (x.get("ty") or "") and ("const" in (x.get("ty") or "")) == ("const" in fn.params[0]["ty"])
        if not good or not cast_ok:
            ck.violation("ENTRY-FORWARD", fn.qname, sig, "the overload does not hand its arguments on in order (%s)" % dtable.describe(c)[:160], fn.nloc(c))
        else:
            ck.ok("ENTRY-FORWARD", sig, "-> %s(%s)" % (fn.name, ", ".join(names[u] for u in pids)), nontrivial=False)


# ------------------------------------------------------------------ driver
def run(ck):
    ck.explanation = (
        "Sorted-permutation and exact LCP values are value-level and NOT decided. Decided structural necessary conditions: in every explicit radix "
        "loop each path of the bucket dispatch advances rs.pos exactly once by the bucket size, hands exactly the range [pos, +bkt_size) to exactly "
        "one consumer, and a bucket produced by flip() (which may live in the temporary shadow array) reaches an in-place sorter only through "
        "copy_back() or is handed to a shadow-aware consumer (HOME-BEFORE-INPLACE, BUCKET-DISPOSED); sub-sorters continue at depth + k*stack size "
        "for a k-byte radix and final buckets of the 16-bit radix get LCP depth + 2*size - 1 (DEPTH-ADVANCE); loops cover buckets 1..N-1 and the step "
        "constructors make bucket 0 final and home (BUCKET-RANGE, STEP-BUCKET0); exclusive prefix sums are consumed by post-increment and inclusive "
        "ones by pre-decrement with the counting key (PREFIX-SUM-USE); memory-limit fall-backs forward (strptr, depth, memory) and form a DAG ending in "
        "insertion_sort (FALLBACK-FORWARD/DAG); key packing shifts and end tests (KEY-PACK-TABLE), unsigned characters (CHAR-UNSIGNED); fill loops "
        "over runs of equal strings never write LCP slot 0 of their range (LCP-SLOT0); "
        "all 20 public overloads reach radixsort_CE3 at depth 0 with their own arguments (ENTRY-FORWARD). "
        "Violations are reported on evaluated evidence only (linear forms of offsets and depths, fully classified paths of the bucket dispatch, rows "
        "of the key-packing table, a concrete out-of-range index on a CFG path); shapes that are not understood give `cannot decide`.")
    tu = ir.extract("witness/C03_sort_strings.cpp")
    for rule_group in (check_loops, check_steps, check_index_bounds, check_fallback, check_keypack, check_lcp_slot0, check_entries):
        ck.guarded(lambda rule_group=rule_group: rule_group(ck, tu))
    ck.floor("BUCKET-RANGE", 50)
    ck.floor("BUCKET-DISPOSED", 150)
    ck.floor("HOME-BEFORE-INPLACE", 90)
    ck.floor("DEPTH-ADVANCE", 200)
    ck.floor("STEP-BUCKET0", 50)
    ck.floor("PREFIX-SUM-USE", 50)
    ck.floor("BKT-INDEX-BOUND", 50)
    ck.floor("FALLBACK-FORWARD", 100)
    ck.floor("FALLBACK-DAG", 1)
    ck.floor("KEY-PACK-TABLE", 10)
    ck.floor("CHAR-UNSIGNED", 5)
    ck.floor("LCP-SLOT0", 40)
    ck.floor("ENTRY-FORWARD", 20)
