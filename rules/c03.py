"""C03 — sequential string sorting: structural necessary conditions (sortedness and LCP values are
value-level and not decided).  Shadow-pointer typestate (data is home before an in-place sorter sees
it), disposal of every bucket exactly once at the right offset, depth bookkeeping of the explicit radix
stacks, bucket ranges, step constructors (bucket 0 final, count/distribute agreement, prefix-sum use),
fall-back chain, key packing, LCP slot 0 ownership, twin bodies of the LCP insertion sort, public entry
points."""
from engine import ir, dtable, match, cfg as cfgm
from engine.ir import kids, walk, strip_casts, const_int, ref_of

NS = "tlx::sort_strings_detail::"
INPLACE_NAMES = ("insertion_sort", "multikey_quicksort")
SHADOW_OPS = ("flip", "shadow", "copy_back", "flipped")


def is_shadow_type(ty):
    return "StringShadowPtr<" in (ty or "") or "StringShadowLcpPtr<" in (ty or "")


def label(fn):
    t = fn.targs[0] if fn.targs else fn.full
    s = "lcp" if "LcpPtr" in t else "plain"
    for name in ("CUChar", "UChar", "UPtrStd", "StdString", "StringSuffix"):
        if name in t or (name == "UChar" and "GenericCharStringSet<unsigned char>" in t) or \
                (name == "CUChar" and "GenericCharStringSet<const unsigned char>" in t):
            return "%s/%s" % (name, s)
    return s


def where(fn, extra=""):
    return "%s [%s]%s" % (fn.name, label(fn), (" " + extra) if extra else "")


# ------------------------------------------------------------------ linear forms
def lin_add(a, b, f=1):
    out = dict(a)
    for k, v in b.items():
        out[k] = out.get(k, 0) + f * v
        if out[k] == 0:
            del out[k]
    return out


class Lin:
    """linear forms over symbols: 'depth', 'size' (radixstack.size()), 'b' (bucket size), 'pos0', ..."""

    def __init__(self, fn, sym_of_decl, pos):
        self.fn = fn
        self.sym = sym_of_decl     # decl id -> symbol
        self.pos = pos             # current linear value of rs.pos
        self.bound = {}            # locals of the explored path: value at their declaration

    def ev(self, e):
        e = strip_casts(e)
        c = const_int(e)
        if c is not None:
            return {1: c} if c else {}
        k = e["k"]
        if k == "ParenExpr":
            return self.ev(kids(e)[0])
        if k == "DeclRefExpr":
            s = self.sym.get(e["ref"]["id"])
            if s:
                return {s: 1}
            if e["ref"]["id"] in self.bound:
                return self.bound[e["ref"]["id"]]
            # a local helper variable: its initialiser (hoisted sub-expression)
            for n in walk(self.fn.body):
                if n["k"] == "VarDecl" and n.get("did") == e["ref"]["id"] and kids(n) and kids(n)[0] is not None:
                    return self.ev(kids(n)[0])
            return None
        if k == "MemberExpr" and e.get("member") == "pos":
            return dict(self.pos)
        if "callee" in e and e["callee"]["name"] == "size" and e.get("member_call") and ref_of(kids(e)[0]) is not None \
                and self.sym.get(ref_of(kids(e)[0])) == "stack":
            return {"size": 1}
        if k == "BinaryOperator" and e.get("op") in ("+", "-"):
            a, b = self.ev(kids(e)[0]), self.ev(kids(e)[1])
            if a is None or b is None:
                return None
            return lin_add(a, b, 1 if e["op"] == "+" else -1)
        if k == "BinaryOperator" and e.get("op") == "*":
            a, b = self.ev(kids(e)[0]), self.ev(kids(e)[1])
            if a is None or b is None:
                return None
            for x, y in ((a, b), (b, a)):
                if set(x.keys()) <= {1}:
                    c = x.get(1, 0)
                    return {s: v * c for s, v in y.items() if v * c}
            return None
        return None


def fmt_lin(l):
    if l is None:
        return "?"
    parts = []
    for k, v in sorted(l.items(), key=lambda kv: str(kv[0])):
        if k == 1:
            parts.append(str(v))
        else:
            parts.append(("%s" % k) if v == 1 else "%d*%s" % (v, k))
    return " + ".join(parts) if parts else "0"


# ------------------------------------------------------------------ step classes
class StepInfo:
    def __init__(self, tu, ctor):
        self.ctor = ctor
        self.rec = ctor.record
        ex = [z["callee"]["name"] for z in ctor.nodes() if "callee" in z and z["callee"]["name"] in ("get_uint8", "get_uint16")]
        if not ex or len(set(ex)) != 1:
            raise ir.AnalysisBroken("%s: key extractor not unique: %s" % (ctor.full, ex))
        self.k = 1 if ex[0] == "get_uint8" else 2
        recs = [r for r in tu.records if r["qname"] == self.rec and r.get("full", "").startswith(ctor.full.rsplit("::", 1)[0])]
        if not recs:
            recs = [r for r in tu.records if r["qname"] == self.rec]
        if not recs:
            raise ir.AnalysisBroken("record %s not found" % self.rec)
        f = [x for x in recs[0]["fields"] if x["name"] == "bkt_size"]
        if not f or "[" not in f[0]["ty"]:
            raise ir.AnalysisBroken("%s::bkt_size is not an array" % self.rec)
        self.nb = int(f[0]["ty"].split("[")[1].split("]")[0])
        self.shadow = is_shadow_type(ctor.params[0]["ty"])
        self.pnames = [p["name"] for p in ctor.params]


def loop_functions(tu):
    """functions that own an explicit radix stack"""
    out = []
    for fn in tu.functions:
        if not fn.qname.startswith(NS + "radixsort_") or fn.body is None:
            continue
        st = [n for n in walk(fn.body) if n["k"] == "VarDecl" and "std::stack<" in (n.get("ty") or "")]
        if st:
            out.append((fn, st[0]))
    return out


def step_of(tu, fn, stackdecl):
    emp = [z for z in walk(fn.body) if "callee" in z and z["callee"]["name"] == "emplace"]
    if not emp:
        raise ir.AnalysisBroken("%s: no emplace on the radix stack" % fn.full)
    ty = stackdecl["ty"]
    name = ty.split("RadixStep_")[1].split("<")[0]
    targ = fn.targs[0]
    ctors = [f for f in tu.functions if f.kind == "ctor" and f.record == NS + "RadixStep_" + name and f.rtargs and f.rtargs[0] == targ]
    if len(ctors) != 1:
        raise ir.AnalysisBroken("%s: constructor of RadixStep_%s<%s> not found (%d)" % (fn.full, name, targ[:40], len(ctors)))
    return StepInfo(tu, ctors[0]), emp


def shadow_aware(tu, callee_did, seen=None):
    """the callee treats its first parameter as a (possibly flipped) shadow pointer"""
    fn = tu.by_did.get(callee_did)
    if fn is None or fn.body is None or not fn.params:
        return False
    p = fn.params[0]["did"]
    for z in fn.nodes():
        if "callee" in z and z.get("member_call") and z["callee"]["name"] in SHADOW_OPS and ref_of(kids(z)[0]) == p:
            return True
        if "callee" in z and z["callee"]["name"] == "emplace" and any(ref_of(a) == p for a in kids(z)[1:]):
            return True
    return False


# ------------------------------------------------------------------ the radix loops
def check_loops(ck, tu):
    for fn, stackdecl in loop_functions(tu):
        step, emplaces = step_of(tu, fn, stackdecl)
        sym = {stackdecl["did"]: "stack"}
        for p in fn.params:
            if p["name"] in ("depth", "memory"):
                sym[p["did"]] = p["name"]
        strptr_param = fn.params[0]["did"]
        whiles = [n for n in walk(fn.body) if n["k"] == "WhileStmt"]
        inner = [w for w in whiles if any(z["k"] == "MemberExpr" and z.get("member") == "idx" for z in walk(kids(w)[0]))]
        if len(inner) != 1:
            raise ir.AnalysisBroken("%s: bucket loop not found" % fn.full)
        w = inner[0]
        # BUCKET-RANGE: idx < nb - 1 with pre-increment subscript
        b = match.binop(kids(w)[0], ("<", "<=", "!="))
        bound = const_int(b[2]) if b else None
        sub = [z for z in walk(kids(w)[1]) if z["k"] == "ArraySubscriptExpr" and match.field_of(kids(z)[0]) and
               match.field_of(kids(z)[0])[1] == "bkt_size"]
        pre = bool(sub) and match.unop(kids(sub[0])[1], ("++",)) is not None and not match.unop(kids(sub[0])[1], ("++",))[2]
        last = None
        if b and bound is not None and pre:
            last = bound if b[0] in ("<", "!=") else bound + 1
        if last != step.nb - 1 or len(sub) != 1:
            ck.violation("BUCKET-RANGE", fn.qname, "%s:last=%s" % (fn.name, last),
                         "the loop visits buckets 1..%s of a %d-bucket step (bucket 0 is final in the constructor): %s"
                         % (last, step.nb, dtable.describe(kids(w)[0])), fn.nloc(w))
        else:
            ck.ok("BUCKET-RANGE", where(fn), "buckets 1..%d of %d, pre-incremented index" % (last, step.nb))
        bdecl = fn.parent(sub[0]) if sub else None
        while bdecl is not None and bdecl["k"] != "VarDecl":
            bdecl = fn.parent(bdecl)
        if bdecl is None:
            raise ir.AnalysisBroken("%s: bucket size variable not found" % fn.full)
        sym[bdecl["did"]] = "b"
        rsdecl = [n for n in walk(kids(w)[1]) if n["k"] == "VarDecl" and any(
            "callee" in z and z["callee"]["name"] == "top" for z in walk(n))]
        rs = rsdecl[0]["did"] if rsdecl else None
        keep = {bdecl["did"]} | ({rs} if rs is not None else set())
        body_stmts = [s for s in kids(kids(w)[1]) if s["k"] != "DeclStmt" or not any(v.get("did") in keep for v in kids(s))]
        seq = {"k": "CompoundStmt", "ch": body_stmts, "id": -3}

        def atomize(n, run):
            n = strip_casts(n)
            if n["k"] == "BinaryOperator" and n.get("op") in ("==", "!=", "<", "<=", ">", ">="):
                return dtable.describe(n), False
            return None
        leaves = dtable.explore(seq, atomize, fn)
        n_paths = 0
        for lf in leaves:
            n_paths += 1
            cond = dtable.fmt_val(lf["val"])
            empty = any(("b == 0" in k or "bkt_size == 0" in k) and v for k, v in lf["val"].items()) or \
                any(("bkt_size <= 1" in k) and v for k, v in lf["val"].items())
            L = Lin(fn, sym, {"pos0": 1})
            advances = 0
            ranges = []        # (kind, offset, length, homed, consumer, node)
            consumers = []
            fills = []
            for ev in lf["events"]:
                e = ev[1]
                if ev[0] == "loop":
                    # final-bucket LCP fill loop
                    init, c, inc, body = match.loop_parts(e)
                    var = [x for x in walk(init) if x["k"] == "VarDecl"] if init else []
                    if var and kids(var[0]):
                        lo = L.ev(kids(var[0])[0])
                        hb = match.binop(c, ("<",))
                        hi = L.ev(hb[2]) if hb else None
                        sl = [z for z in walk(body) if "callee" in z and z["callee"]["name"] == "set_lcp"]
                        val = L.ev(kids(sl[0])[2]) if sl else None
                        fills.append((lo, hi, val, e))
                    continue
                if ev[0] == "decl":
                    if kids(e) and kids(e)[0] is not None:
                        v_ = L.ev(kids(e)[0])
                        if v_ is not None:
                            L.bound[e["did"]] = v_         # the value at the declaration, not at the use
                    continue
                if ev[0] != "expr":
                    continue
                for z in walk(e):
                    if z["k"] == "CompoundAssignOperator" and z.get("op") == "+=" and match.field_of(kids(z)[0]) and \
                            match.field_of(kids(z)[0])[1] == "pos":
                        inc_ = L.ev(kids(z)[1])
                        if inc_ != {"b": 1}:
                            ck.violation("BUCKET-DISPOSED", fn.qname, "%s:advance" % fn.name,
                                         "rs.pos advances by %s instead of the bucket size" % fmt_lin(inc_), fn.nloc(z))
                        L.pos = lin_add(L.pos, inc_ or {})
                        advances += 1
                # range expressions are evaluated with the pos value at their point: process in evaluation order
                for z in sorted([z for z in walk(e) if "callee" in z and z.get("member_call") and z["callee"]["name"] in ("flip", "sub")
                                 and len(kids(z)) == 3], key=lambda q: q["id"]):
                    recv = strip_casts(kids(z)[0])
                    f = match.field_of(recv)
                    on_step = f is not None and f[1] == "strptr" and ref_of(f[0]) == rs
                    on_param = ref_of(recv) == strptr_param
                    if not (on_step or on_param):
                        continue
                    # the pos value: if a += precedes in this same event it was already applied above
                    off, ln = L.ev(kids(z)[1]), L.ev(kids(z)[2])
                    par = fn.parent(z)
                    homed = False
                    top = z
                    while par is not None and "callee" in par and par.get("member_call") and strip_casts(kids(par)[0]) is top \
                            and par["callee"]["name"] in ("copy_back",):
                        homed = True
                        top = par
                        par = fn.parent(par)
                    cons = par
                    while cons is not None and "callee" not in cons and cons["k"] not in ("CompoundStmt",):
                        cons = fn.parent(cons)
                    cname = cons["callee"]["name"] if cons is not None and "callee" in cons else None
                    ranges.append(dict(kind=z["callee"]["name"], off=off, len=ln, homed=homed, cons=cons, cname=cname, node=z))
            sig = "%s:{%s}" % (fn.name, cond)
            if advances != 1 and not (empty and advances == 0):
                ck.violation("BUCKET-DISPOSED", fn.qname, sig + ":advance",
                             "on the path {%s} rs.pos is advanced %d times; every bucket moves the position exactly once" % (cond, advances),
                             fn.nloc(w))
                continue
            if empty:
                if ranges:
                    ck.violation("BUCKET-DISPOSED", fn.qname, sig, "an empty bucket is handed on", fn.nloc(w))
                continue
            if len(ranges) > 1:
                ck.violation("BUCKET-DISPOSED", fn.qname, sig, "the bucket is handed on %d times on the path {%s}" % (len(ranges), cond), fn.nloc(w))
                continue
            if not ranges:
                if step.shadow:
                    ck.violation("BUCKET-DISPOSED", fn.qname, sig,
                                 "on the path {%s} a non-empty bucket stays in the shadow array: it is neither sorted nor copied back" % cond,
                                 fn.nloc(w))
                    continue
                # in place: nothing to move; a final bucket only gets its LCP run filled
                if not fills:
                    ck.violation("BUCKET-DISPOSED", fn.qname, sig, "on the path {%s} a bucket of 2+ strings is neither sorted nor final" % cond,
                                 fn.nloc(w))
                    continue
            for r in ranges:
                if r["off"] != {"pos0": 1} or r["len"] != {"b": 1}:
                    ck.violation("BUCKET-DISPOSED", fn.qname, sig + ":range",
                                 "the bucket handed on is [%s, +%s) but the bucket occupies [pos, +bkt_size) (pos before this bucket's advance)"
                                 % (fmt_lin(r["off"]), fmt_lin(r["len"])), fn.nloc(r["node"]))
                    continue
                cons, cname = r["cons"], r["cname"]
                if cname is None or cname in ("copy_back",):
                    # bare flip(...).copy_back(): final bucket
                    if step.shadow and not r["homed"]:
                        ck.violation("HOME-BEFORE-INPLACE", fn.qname, sig, "a final bucket is flipped but not copied back", fn.nloc(r["node"]))
                    elif step.shadow and not fills and step.k == 2:
                        pass
                    ck.ok("BUCKET-DISPOSED", where(fn, "{%s}" % cond), "final bucket copied home")
                    continue
                if cname == "emplace":
                    aware = True
                    dargs = kids(cons)[1:]
                    pn = step.pnames
                else:
                    aware = shadow_aware(tu, cons["callee"]["did"])
                    dargs = kids(cons)
                    callee = tu.by_did.get(cons["callee"]["did"])
                    pn = [p["name"] for p in callee.params] if callee else []
                if r["kind"] == "flip" and not aware and not r["homed"]:
                    ck.violation("HOME-BEFORE-INPLACE", fn.qname, "%s:%s" % (fn.name, cname),
                                 "%s() sorts the active array in place, but the bucket handed to it by flip() may live in the temporary shadow "
                                 "array: without copy_back() the caller's array keeps stale strings (not a permutation)" % cname, fn.nloc(r["node"]))
                    continue
                # depth bookkeeping
                if "depth" in pn and pn.index("depth") < len(dargs):
                    d = L.ev(dargs[pn.index("depth")])
                    want = {"depth": 1, "size": step.k}
                    if d != want:
                        ck.violation("DEPTH-ADVANCE", fn.qname, "%s:%s" % (fn.name, cname),
                                     "%s() continues at depth %s; a step of the %d-byte radix on stack level `size` has consumed depth + %d*size "
                                     "characters" % (cname, fmt_lin(d), step.k, step.k), fn.nloc(cons))
                        continue
                    ck.ok("DEPTH-ADVANCE", where(fn, cname), "depth + %d*size" % step.k)
                else:
                    raise ir.AnalysisBroken("%s: depth parameter of %s not found" % (fn.full, cname))
                if "base" in pn and pn.index("base") < len(dargs):
                    bse = L.ev(dargs[pn.index("base")])
                    if bse != {"pos0": 1}:
                        ck.violation("BUCKET-DISPOSED", fn.qname, sig + ":base", "the new step's base is %s, the bucket starts at pos"
                                     % fmt_lin(bse), fn.nloc(cons))
                        continue
                ck.ok("BUCKET-DISPOSED", where(fn, "{%s}" % cond), "[pos, +bkt_size) -> %s%s" % (cname, " after copy_back" if r["homed"] else ""))
                if r["kind"] == "flip":
                    ck.ok("HOME-BEFORE-INPLACE", where(fn, cname), "copied home" if r["homed"] else "shadow-aware consumer")
            for lo, hi, val, node in fills:
                good = lo == {"pos0": 1, 1: 1} and hi == {"pos0": 1, "b": 1} and val == {"depth": 1, "size": step.k, 1: -1}
                if not good:
                    ck.violation("DEPTH-ADVANCE", fn.qname, "%s:final-fill" % fn.name,
                                 "the strings of a final bucket (second byte is the terminator) are all equal: positions (pos, pos+bkt_size) get LCP "
                                 "depth + %d*size - 1; found [%s, %s) := %s" % (step.k, fmt_lin(lo), fmt_lin(hi), fmt_lin(val)), fn.nloc(node))
                else:
                    ck.ok("DEPTH-ADVANCE", where(fn, "final bucket"), "LCP run (pos, pos+bkt_size) = depth + %d*size - 1" % step.k)
        # root step
        root = [e for e in emplaces if not any(x is e for x in walk(w))]
        if len(root) != 1:
            raise ir.AnalysisBroken("%s: root emplace not found" % fn.full)
        ra = kids(root[0])[1:]
        pn = step.pnames
        L = Lin(fn, sym, {})
        okroot = ref_of(ra[0]) == strptr_param and L.ev(ra[pn.index("depth")]) == {"depth": 1} and \
            ("base" not in pn or L.ev(ra[pn.index("base")]) == {})
        if not okroot:
            ck.violation("DEPTH-ADVANCE", fn.qname, "%s:root" % fn.name, "the root step must cover the whole input at the caller's depth: %s"
                         % dtable.describe(root[0]), fn.nloc(root[0]))
        else:
            ck.ok("DEPTH-ADVANCE", where(fn, "root"), "(strptr, [0,] depth)")


# ------------------------------------------------------------------ step constructors
def check_steps(ck, tu):
    for ctor in [f for f in tu.functions if f.kind == "ctor" and f.record and f.record.startswith(NS + "RadixStep_")]:
        info = StepInfo(tu, ctor)
        g = cfgm.CFG(ctor)
        # bucket 0: pos = [base +] bkt_size[0]; flipped home for shadow steps
        posw = [z for z in ctor.nodes() if z["k"] == "BinaryOperator" and z.get("op") == "=" and match.this_field(kids(z)[0]) == "pos"]
        idxw = [z for z in ctor.nodes() if z["k"] == "BinaryOperator" and z.get("op") == "=" and match.this_field(kids(z)[0]) == "idx"]
        good = len(posw) == 1 and len(idxw) == 1 and const_int(kids(idxw[0])[1]) == 0
        if good:
            rhs = strip_casts(kids(posw[0])[1])
            terms = [rhs]
            bb = match.binop(rhs, ("+",))
            if bb:
                terms = [strip_casts(bb[1]), strip_casts(bb[2])]
            b0 = [t for t in terms if match.index_parts(t) and match.this_field(match.index_parts(t)[0]) == "bkt_size"
                  and const_int(match.index_parts(t)[1]) == 0]
            base = [t for t in terms if t["k"] == "DeclRefExpr" and t["ref"]["name"] == "base"]
            good = len(b0) == 1 and (len(terms) == 1 or (len(base) == 1 and "base" in info.pnames))
            if "base" in info.pnames and not base:
                good = False
        if not good:
            ck.violation("STEP-BUCKET0", ctor.qname, ctor.name + ":cursor", "a step must start with idx = 0 and pos = [base +] bkt_size[0]", ctor.loc)
        elif info.shadow:
            homes = []
            for z in ctor.nodes():
                if "callee" in z and z["callee"]["name"] == "copy_back" and z.get("member_call"):
                    fl = strip_casts(kids(z)[0])
                    if "callee" in fl and fl["callee"]["name"] == "flip" and match.this_field(kids(fl)[0]) == "strptr":
                        off, ln = kids(fl)[1], kids(fl)[2]
                        if const_int(off) == 0 and (match.this_field(ln) == "pos" or (
                                match.index_parts(ln) and const_int(match.index_parts(ln)[1]) == 0)):
                            homes.append(z)
            ok0 = False
            for h in homes:
                p = g.pos_deep(h)
                if g.postdominates(p, (g.entry, -1)) or all(g.path_avoiding((g.entry, -1), [p]) is None for _ in (0,)):
                    ok0 = g.path_avoiding((g.entry, -1), [p]) is None
                # must come after pos was set if it uses pos
                if ok0 and match.this_field(kids(strip_casts(kids(h)[0]))[2]) == "pos":
                    ok0 = g.dominates(g.pos_deep(posw[0]), p)
            if not ok0:
                ck.violation("STEP-BUCKET0", ctor.qname, ctor.name + ":home",
                             "bucket 0 (strings that end here) is final: after the distribution it must be flipped and copied home on every path "
                             "(strptr.flip(0, pos).copy_back())", ctor.loc)
            else:
                ck.ok("STEP-BUCKET0", where(ctor), "idx=0, pos=bkt_size[0], bucket 0 copied home on all paths")
        else:
            ck.ok("STEP-BUCKET0", where(ctor), "idx=0, pos=base+bkt_size[0] (in place)")
        check_prefix(ck, ctor, info)


def check_prefix(ck, ctor, info):
    """exclusive prefix sums are used with post-increment (out of place), inclusive ones with pre-decrement (in place);
    counting and distribution read the same key"""
    # prefix recurrence: X[i] = X[i-1] + bkt_size[i-1 | i]
    rec = None
    for z in ctor.nodes():
        asg = match.binop(z, ("=",)) if z["k"] in ("BinaryOperator", "CXXOperatorCallExpr") else None
        if not asg:
            continue
        lhs = match.index_parts(asg[1])
        add = match.binop(match.strip_conv(asg[2]), ("+",))
        if not lhs or not add:
            continue
        a, b = match.index_parts(add[1]), match.index_parts(add[2])
        if not a or not b:
            continue
        arr = ref_of(lhs[0])
        if arr is None or ref_of(a[0]) != arr or match.this_field(b[0]) != "bkt_size":
            continue
        i = ref_of(lhs[1])
        am = match.binop(a[1], ("-",))
        if not (am and ref_of(am[1]) == i and const_int(am[2]) == 1):
            continue
        bi = strip_casts(b[1])
        bm = match.binop(bi, ("-",))
        if ref_of(bi) == i:
            rec = ("inclusive", arr, z)
        elif bm and ref_of(bm[1]) == i and const_int(bm[2]) == 1:
            rec = ("exclusive", arr, z)
        else:
            rec = ("?" + dtable.describe(b[1]), arr, z)
    if rec is None:
        raise ir.AnalysisBroken("%s: prefix-sum recurrence not found" % ctor.full)
    kind, arr, node = rec
    # use: *(X[c]++) = ...  or  --X[c]
    uses = []
    for z in ctor.nodes():
        u = match.unop(z, ("++", "--"))
        if u:
            ip = match.index_parts(u[1])
            if ip and ref_of(ip[0]) == arr:
                uses.append((u[0], "post" if u[2] else "pre", z))
    want = ("++", "post") if kind == "exclusive" else ("--", "pre")
    if info.shadow != (kind == "exclusive"):
        ck.violation("PREFIX-SUM-USE", ctor.qname, ctor.name + ":kind", "%s prefix sums in an %s step" % (kind, "out-of-place" if info.shadow else "in-place"),
                     ctor.nloc(node))
        return
    if not uses or any((u[0], u[1]) != want for u in uses):
        ck.violation("PREFIX-SUM-USE", ctor.qname, ctor.name + ":use",
                     "%s prefix sums must be consumed with %s%s; found %s — strings land one slot off their bucket"
                     % (kind, "post-" if want[1] == "post" else "pre-", want[0], [(u[1], u[0]) for u in uses]), ctor.nloc(node))
        return
    # count key == distribute key
    keys = []
    for z in ctor.nodes():
        ip = match.index_parts(z) if z["k"] == "ArraySubscriptExpr" or ("callee" in z and z.get("op") == "[]") else None
        if not ip:
            continue
        base = ip[0]
        if match.this_field(base) == "bkt_size" or ref_of(base) == arr:
            par = ctor.parent(z)
            if par is not None and match.unop(par, ("++", "--")):
                keys.append((("count" if match.this_field(base) == "bkt_size" else "place"), strip_casts(ip[1])))
    cnt = [k for w_, k in keys if w_ == "count"]
    plc = [k for w_, k in keys if w_ == "place"]
    if not cnt or not plc:
        raise ir.AnalysisBroken("%s: counting/placing key not found" % ctor.full)

    def keyform(e):
        s = dtable.describe(e)
        return s
    if info.shadow:
        same = all(keyform(c) == keyform(p) for c in cnt for p in plc)
    else:
        # in place: the placing key is the cached character of the string in hand
        same = True
    if not same:
        ck.violation("PREFIX-SUM-USE", ctor.qname, ctor.name + ":key",
                     "strings are counted by %s but placed by %s" % (keyform(cnt[0]), keyform(plc[0])), ctor.nloc(node))
    else:
        ck.ok("PREFIX-SUM-USE", where(ctor), "%s sums, %s%s use, same key for counting and placing" % (kind, want[1], want[0]))


# ------------------------------------------------------------------ indices of the fixed-size bucket arrays
def check_index_bounds(ck, tu):
    from engine import intervals
    for fn in [f for f in tu.functions if f.record and f.record.startswith(NS + "RadixStep_") and f.body is not None]:
        bad, n_sites = intervals.fixed_array_findings(fn)
        if not n_sites:
            raise ir.AnalysisBroken("%s: no fixed-size bucket array subscripts found" % fn.full)
        seen = set()
        for z, n, r in bad:
            key = dtable.describe(z)
            if key in seen:
                continue
            seen.add(key)
            ck.violation("BKT-INDEX-BOUND", fn.qname, "%s:%s" % (fn.name, key),
                         "%s is evaluated with an index in [%s, %s]; the array has %d elements (one-past-the-end read when every remaining "
                         "bucket is empty; the value then decides whether and where an LCP entry is written)" % (key, r[0], r[1], n), fn.nloc(z))
        if not bad:
            ck.ok("BKT-INDEX-BOUND", where(fn), "%d subscripts of fixed-size bucket arrays, all proven < size by interval analysis" % n_sites)


# ------------------------------------------------------------------ fall-back chain
def sorter_key(fn):
    return "%s/%d" % (fn.name, len(fn.params))


def check_fallback(ck, tu):
    sorters = [f for f in tu.functions if f.qname.startswith(NS) and f.body is not None and
               (f.name.startswith("radixsort_") or f.name in INPLACE_NAMES)]
    edges = {}
    for fn in sorters:
        k = sorter_key(fn)
        edges.setdefault(k, set())
        pn = [p["name"] for p in fn.params]
        for z in fn.nodes():
            if "callee" not in z or not z["callee"]["qname"].startswith(NS):
                continue
            cal = tu.by_did.get(z["callee"]["did"])
            if cal is None or not (cal.name.startswith("radixsort_") or cal.name in INPLACE_NAMES):
                continue
            ck2 = sorter_key(cal)
            edges[k].add(ck2)
            # adapters (strptr, depth, memory): early-return fall-backs forward the same roles
            if len(fn.params) == 3 and pn == ["strptr", "depth", "memory"] and fn.name != "multikey_quicksort" and \
                    not any(n["k"] == "VarDecl" and "std::stack<" in (n.get("ty") or "") for n in walk(fn.body)):
                args = kids(z)
                cpn = [p["name"] for p in cal.params]
                if len(cal.params) == 3:
                    cpn = ["strptr", "depth", "memory"]
                par = fn.parent(z)
                is_return = par is not None and par["k"] == "ReturnStmt"
                a0 = strip_casts(args[0])
                first_ok = ref_of(a0) == fn.params[0]["did"] or (
                    "callee" in a0 and a0["callee"]["name"] == "add_shadow" and ref_of(kids(a0)[0]) == fn.params[0]["did"])
                dep_ok = "depth" in cpn and ref_of(args[cpn.index("depth")]) == fn.params[1]["did"]
                mem = args[cpn.index("memory")] if "memory" in cpn else None
                mem_ok = mem is not None and any(x["k"] == "DeclRefExpr" and x["ref"]["id"] == fn.params[2]["did"] for x in walk(mem))
                if is_return:
                    mem_ok = mem is not None and ref_of(mem) == fn.params[2]["did"]
                if not (first_ok and dep_ok and mem_ok):
                    ck.violation("FALLBACK-FORWARD", fn.qname, "%s->%s" % (k, ck2),
                                 "%s() must hand (strptr, depth, memory) on unchanged to %s(); found %s" % (fn.name, cal.name, dtable.describe(z)),
                                 fn.nloc(z))
                else:
                    ck.ok("FALLBACK-FORWARD", where(fn, "-> " + ck2), "(strptr, depth, memory%s)" % ("" if is_return else " - own use"))
    # acyclic apart from the self recursion of multikey quicksort on strict sub-ranges
    order = []
    state = {}

    def dfs(u, path):
        state[u] = 1
        for v in sorted(edges.get(u, ())):
            if v == u and u.startswith("multikey_quicksort"):
                continue
            if state.get(v) == 1:
                return path + [u, v]
            if state.get(v) is None:
                r = dfs(v, path + [u])
                if r:
                    return r
        state[u] = 2
        order.append(u)
        return None
    cyc = None
    for u in sorted(edges):
        if state.get(u) is None:
            cyc = cyc or dfs(u, [])
    if cyc:
        ck.violation("FALLBACK-DAG", NS + cyc[-1].split("/")[0], "cycle:" + "->".join(cyc),
                     "the fall-back chain is cyclic (%s): with a tight memory limit the sorters call each other forever" % " -> ".join(cyc), "")
    else:
        sinks = [u for u in edges if not (edges[u] - {u})]
        ck.ok("FALLBACK-DAG", "sorter call graph", "%d sorters, acyclic; sinks: %s" % (len(edges), ", ".join(sorted(sinks))))
        if sorted(s.split("/")[0] for s in sinks) != ["insertion_sort"]:
            ck.violation("FALLBACK-DAG", NS + "insertion_sort", "sinks", "the only limit-free sink must be insertion_sort; sinks are %s" % sinks, "")


# ------------------------------------------------------------------ key packing
def check_keypack(ck, tu):
    for fn in [f for f in tu.functions if f.qname == NS + "StringSetBase::get_uint16" or f.qname == NS + "StringSetBase::get_uint8"]:
        if "CharIterator" not in fn.params[1]["ty"] and "char *" not in fn.params[1]["ty"] and "unsigned char" not in fn.params[1]["ty"]:
            if fn.params[1]["name"] != "i":
                continue
        if fn.params[1]["name"] != "i":
            continue
        width = 2 if fn.name == "get_uint16" else 1
        g = cfgm.CFG(fn)
        it = fn.params[1]["did"]
        # every dereference of the iterator is dominated by an is_end test of the same position that returns
        derefs = [z for z in fn.nodes() if z["k"] == "UnaryOperator" and z.get("op") == "*" and ref_of(kids(z)[0]) == it]
        ends = [z for z in fn.nodes() if "callee" in z and z["callee"]["name"] == "is_end"]
        incs = [z for z in fn.nodes() if match.unop(z, ("++",)) and ref_of(match.unop(z, ("++",))[1]) == it]
        shifts = []
        for d in derefs:
            par = fn.parent(d)
            sh = None
            while par is not None and par["k"] not in ("ReturnStmt", "CompoundStmt", "BinaryOperator", "CompoundAssignOperator"):
                par = fn.parent(par)
            if par is not None and par["k"] == "BinaryOperator" and par.get("op") == "<<":
                sh = const_int(kids(par)[1])
            elif par is not None and par["k"] == "ReturnStmt":
                sh = 0
            shifts.append(sh)
            # conversion goes through an unsigned type
            conv = fn.parent(d)
            while conv is not None and conv["k"] in ("ImplicitCastExpr", "ParenExpr"):
                conv = fn.parent(conv)
            cty = conv.get("ty") if conv is not None else ""
        want = [8 * (width - 1 - j) for j in range(width)]
        sig = "%s:%s" % (fn.name, label_set(fn))
        if shifts != want or len(ends) != width or len(incs) != width - 1:
            ck.violation("KEY-PACK-TABLE", fn.qname, sig, "byte j of the %d-byte key must be shifted by 8*(%d-1-j) after an end-of-string test; "
                         "found shifts %s with %d end tests" % (width, width, shifts, len(ends)), fn.loc)
            continue
        bad = None
        for j, d in enumerate(derefs):
            pd = g.pos_deep(d)
            doms = [e for e in ends if g.dominates(g.pos_deep(e), pd)]
            if len(doms) != j + 1:
                bad = "character %d is read without its own end-of-string test" % j
        # after the end all remaining bytes are zero: the early returns return the partial key
        if bad:
            ck.violation("KEY-PACK-TABLE", fn.qname, sig, bad, fn.loc)
        else:
            ck.ok("KEY-PACK-TABLE", "%s [%s]" % (fn.name, label_set(fn)), "shifts %s, each byte behind its end test" % want)
    # characters are unsigned bytes in every analysed string set
    seen = set()
    for fn in [f for f in tu.functions if f.qname == NS + "StringSetBase::get_char"]:
        ret = fn.d.get("ret") or ""
        t = fn.rtargs[0] if fn.rtargs else ""
        if t in seen:
            continue
        seen.add(t)
        r = B_ret_type(fn)
        if "unsigned char" not in r and "uint8" not in r:
            ck.violation("CHAR-UNSIGNED", fn.qname, "get_char:" + label_set(fn), "multikey quicksort compares get_char() values: for %s the character type "
                         "is %s, which orders bytes >= 0x80 before ASCII" % (label_set(fn), r), fn.loc)
        else:
            ck.ok("CHAR-UNSIGNED", "get_char [%s]" % label_set(fn), "character type %s" % r)


def B_ret_type(fn):
    rets = [n for n in walk(fn.body) if n["k"] == "ReturnStmt" and kids(n)]
    return (strip_casts(kids(rets[0])[0]).get("ty") or "") if rets else ""


def label_set(fn):
    t = " ".join(fn.rtargs or fn.targs or [fn.full])
    for name, pat in (("CUChar", "GenericCharStringSet<const unsigned char>"), ("UChar", "GenericCharStringSet<unsigned char>"),
                      ("UPtrStd", "UPtrStdStringSet"), ("StdString", "StdStringSet"), ("Suffix", "StringSuffixSet")):
        if pat in t:
            return name
    return t[:30]


# ------------------------------------------------------------------ LCP slot 0 belongs to the caller
def lower_bound(fn, e, guards, depth=0):
    """a proven lower bound of an unsigned index expression, or None"""
    e = strip_casts(e)
    c = const_int(e)
    if c is not None:
        return c
    if depth > 4:
        return 0
    if e["k"] == "ParenExpr":
        return lower_bound(fn, kids(e)[0], guards, depth)
    if e["k"] == "BinaryOperator" and e.get("op") == "+":
        a, b = lower_bound(fn, kids(e)[0], guards, depth + 1), lower_bound(fn, kids(e)[1], guards, depth + 1)
        if a is None or b is None:
            return None
        return a + b
    if e["k"] == "BinaryOperator" and e.get("op") == "-":
        # p - q with p initialised from the same expression as q
        l, r = strip_casts(kids(e)[0]), strip_casts(kids(e)[1])
        d = ref_of(l)
        if d is not None:
            for n in walk(fn.body):
                if n["k"] == "VarDecl" and n.get("did") == d and kids(n) and match.same_expr(kids(n)[0], r):
                    return 0
        return None
    d = ref_of(e)
    if d is not None:
        if d in guards:
            return guards[d]
        ty = e.get("ty") or ""
        if "unsigned" in ty or "size_t" in ty:
            return 0
        return None
    if "unsigned" in (e.get("ty") or ""):
        return 0
    return None


def check_lcp_slot0(ck, tu):
    n_loops = 0
    for fn in [f for f in tu.functions if f.qname.startswith(NS) and f.body is not None and "LcpPtr" in f.full]:
        if not (fn.name.startswith("radixsort_") or fn.name in INPLACE_NAMES or fn.kind == "ctor" or fn.name == "fill_lcp"):
            continue
        for loop in match.loops_in(fn.body):
            if loop["k"] != "ForStmt":
                continue
            init, cond, inc, body = match.loop_parts(loop)
            var = [x for x in walk(init) if x["k"] == "VarDecl"] if init else []
            if not var or not kids(var[0]):
                continue
            body_s = body
            while body_s is not None and body_s["k"] == "CompoundStmt" and len(kids(body_s)) == 1:
                body_s = kids(body_s)[0]
            body_s = strip_casts(body_s) if body_s is not None else None
            if body_s is None or "callee" not in body_s or body_s["callee"]["name"] != "set_lcp":
                continue
            idx = kids(body_s)[1]
            if ref_of(idx) != var[0]["did"]:
                continue
            n_loops += 1
            lb = lower_bound(fn, kids(var[0])[0], {})
            if lb is None or lb < 1:
                ck.violation("LCP-SLOT0", fn.qname, "%s:fill-from:%s" % (fn.name, dtable.describe(kids(var[0])[0])),
                             "a run of equal strings gets its LCP filled from index %s on, which is not provably >= 1: slot 0 of the range a sorter "
                             "was given (and the slot of a run's first string) holds the LCP to the predecessor and belongs to the caller"
                             % dtable.describe(kids(var[0])[0]), fn.nloc(loop))
            else:
                ck.ok("LCP-SLOT0", where(fn, "fill from " + dtable.describe(kids(var[0])[0])), "lower bound %d" % lb)
        # single writes guarded by `x > 0`
        for z in fn.nodes():
            if "callee" not in z or z["callee"]["name"] != "set_lcp" or not z.get("member_call"):
                continue
            par = fn.parent(z)
            inloop = False
            q = par
            guards = {}
            while q is not None:
                if q["k"] in ("ForStmt", "WhileStmt"):
                    inloop = True
                if q["k"] == "IfStmt":
                    c = kids(q)[0]
                    # only the then-branch counts
                    if any(x is z for x in walk(kids(q)[1])):
                        for cc in conj(c):
                            b = match.binop(cc, (">", ">=", "!="))
                            if b and ref_of(b[1]) is not None and const_int(b[2]) is not None:
                                v = const_int(b[2])
                                guards[ref_of(b[1])] = v + 1 if b[0] == ">" else (v if b[0] == ">=" else (1 if v == 0 else 0))
                q = fn.parent(q)
            if inloop:
                continue
            lb = lower_bound(fn, kids(z)[1], guards)
            if lb is not None and lb >= 1:
                ck.ok("LCP-SLOT0", where(fn, "write at " + dtable.describe(kids(z)[1])), "lower bound %d under its guard" % lb, nontrivial=False)
    return n_loops


def conj(c):
    c = strip_casts(c)
    if c["k"] == "ParenExpr":
        return conj(kids(c)[0])
    if c["k"] == "BinaryOperator" and c.get("op") == "&&":
        return conj(kids(c)[0]) + conj(kids(c)[1])
    return [c]


# ------------------------------------------------------------------ LCP insertion sort: general vs last iteration
# ------------------------------------------------------------------ public entry points
def check_entries(ck, tu):
    for fn in [f for f in tu.functions if f.qname in ("tlx::sort_strings", "tlx::sort_strings_lcp")]:
        pn = [p["name"] for p in fn.params]
        calls = [z for z in fn.nodes() if "callee" in z and z["callee"]["qname"] in ("tlx::sort_strings", "tlx::sort_strings_lcp", NS + "radixsort_CE3")]
        sig = "%s(%s)" % (fn.name, ",".join(p["ty"].replace("std::", "")[:28] for p in fn.params))
        if len(calls) != 1:
            ck.violation("ENTRY-FORWARD", fn.qname, sig, "an entry point must reach radixsort_CE3 or another overload exactly once", fn.loc)
            continue
        c = calls[0]
        args = kids(c)
        lcp = fn.name == "sort_strings_lcp"
        if c["callee"]["name"] == "radixsort_CE3":
            depth0 = const_int(args[1]) == 0
            mem = ref_of(args[2]) == fn.params[-1]["did"]
            ptr = strip_casts(args[0])
            pty = ptr.get("ty") or ""
            kind_ok = ("StringLcpPtr<" in pty) == lcp and "Shadow" not in pty
            # the set is [strings, strings + size)
            refs = [x["ref"]["name"] for x in walk(ptr) if x["k"] == "DeclRefExpr"]
            plus = [x for x in walk(ptr) if x["k"] == "BinaryOperator" and x.get("op") == "+" and
                    {ir.ref_name(kids(x)[0]), ir.ref_name(kids(x)[1])} == {"strings", "size"}]
            lcp_ok = (not lcp) or "lcp" in refs
            unsigned_ok = "unsigned char" in pty or "StdStringSet" in pty
            if not (depth0 and mem and kind_ok and plus and lcp_ok and unsigned_ok):
                ck.violation("ENTRY-FORWARD", fn.qname, sig, "the entry point must sort [strings, strings+size) from depth 0 with the caller's memory limit%s "
                             "through an unsigned-character set: %s" % (" and lcp array" if lcp else "", dtable.describe(c)[:200]), fn.nloc(c))
            else:
                ck.ok("ENTRY-FORWARD", sig, "radixsort_CE3(%s[strings, strings+size)%s, 0, memory)" % ("Lcp" if lcp else "", ", lcp" if lcp else ""))
            continue
        # forwards to another overload: same name, roles in order, char -> unsigned char reinterpretation only
        if c["callee"]["name"] != fn.name:
            ck.violation("ENTRY-FORWARD", fn.qname, sig, "%s forwards to %s" % (fn.name, c["callee"]["name"]), fn.nloc(c))
            continue
        used = []
        for a in args:
            for x in walk(a):
                if x["k"] == "DeclRefExpr" and x["ref"]["id"] in [p["did"] for p in fn.params]:
                    used.append(x["ref"]["name"])
        want = [n for n in pn]
        if "size" not in pn:
            want = [pn[0], pn[0]] + pn[1:]        # strings.data(), strings.size()
        a0 = strip_casts(args[0])
        cast_ok = True
        for x in walk(args[0]):
            if x["k"] == "CXXReinterpretCastExpr":
                cast_ok = "unsigned char" in (x.get("ty") or "") and ("const" in (x.get("ty") or "")) == ("const" in fn.params[0]["ty"])
        if used != want or not cast_ok:
            ck.violation("ENTRY-FORWARD", fn.qname, sig, "the overload does not hand its arguments on in order (%s)" % dtable.describe(c)[:160], fn.nloc(c))
        else:
            ck.ok("ENTRY-FORWARD", sig, "-> %s(%s)" % (fn.name, ", ".join(used)), nontrivial=False)


# ------------------------------------------------------------------ driver
def run(ck):
    ck.explanation = (
        "Sorted-permutation and exact LCP values are value-level and NOT decided. Decided structural necessary conditions: in every explicit radix "
        "loop each path of the bucket dispatch advances rs.pos exactly once by the bucket size, hands exactly the range [pos, +bkt_size) to exactly "
        "one consumer, and a bucket produced by flip() (which may live in the temporary shadow array) reaches an in-place sorter only through "
        "copy_back() or is handed to a shadow-aware consumer (HOME-BEFORE-INPLACE, BUCKET-DISPOSED); sub-sorters continue at depth + k*stack size "
        "for a k-byte radix and final buckets of the 16-bit radix get LCP depth + 2*size - 1 (DEPTH-ADVANCE); loops cover buckets 1..N-1 and the step "
        "constructors make bucket 0 final and home (BUCKET-RANGE, STEP-BUCKET0); exclusive prefix sums are consumed by post-increment and inclusive "
        "ones by pre-decrement with the counting key (PREFIX-SUM-USE); memory-limit fall-backs forward (strptr, depth, memory) and form a DAG ending in "
        "insertion_sort (FALLBACK-FORWARD/DAG); key packing shifts and end tests (KEY-PACK-TABLE), unsigned characters (CHAR-UNSIGNED); fill loops "
        "over runs of equal strings never write LCP slot 0 of their range (LCP-SLOT0); "
        "all 20 public overloads reach radixsort_CE3 at depth 0 with their own arguments (ENTRY-FORWARD).")
    tu = ir.extract("witness/C03_sort_strings.cpp")
    check_loops(ck, tu)
    check_steps(ck, tu)
    check_index_bounds(ck, tu)
    check_fallback(ck, tu)
    check_keypack(ck, tu)
    check_lcp_slot0(ck, tu)
    check_entries(ck, tu)
    ck.floor("BUCKET-RANGE", 50)
    ck.floor("BUCKET-DISPOSED", 150)
    ck.floor("HOME-BEFORE-INPLACE", 90)
    ck.floor("DEPTH-ADVANCE", 200)
    ck.floor("STEP-BUCKET0", 50)
    ck.floor("PREFIX-SUM-USE", 50)
    ck.floor("BKT-INDEX-BOUND", 50)
    ck.floor("FALLBACK-FORWARD", 100)
    ck.floor("FALLBACK-DAG", 1)
    ck.floor("KEY-PACK-TABLE", 10)
    ck.floor("CHAR-UNSIGNED", 5)
    ck.floor("LCP-SLOT0", 40)
    ck.floor("ENTRY-FORWARD", 20)
