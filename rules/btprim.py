"""PRIMITIVE-EFFECT: the eight B+ tree rebalancing primitives (merge/shift/split, leaf and inner) are executed
abstractly (engine/absexec.py) on nodes whose slots hold opaque labels, for every fill level their callers
can produce at the witness capacities, and must conserve the entry / key / child sequences, keep the
children count at slotuse + 1, stay inside the node arrays, repair the underflow, and leave the right
separator in the parent."""
from engine import ir, absexec, dtable
from engine.ir import kids
from rules import btcommon as B

BT = B.BT


def live(node, field, extra=0):
    return list(node.arr(field)[:node.slotuse + extra])


def bind(ex, fn, values):
    for p, v in zip(fn.params, values):
        ex.env[p["did"]] = v


def junk_in(seq):
    return [x for x in seq if absexec.is_junk(x)]


def flags_of(ret):
    if isinstance(ret, tuple) and ret and ret[0] == "result":
        return set(str(ret[1]).split("|")), ret[2]
    if isinstance(ret, tuple) and ret and ret[0] == "flag":
        return {ret[1]}, None
    return set(), None


MODEL_CAPS = [(4, 4), (5, 4), (4, 5), (6, 7), (7, 6)]


def cap_configs(tree, cfg, names):
    """the primitives do not mention the capacity constants (the node arrays of the model carry the capacity), so
    they are also executed for small even/odd capacities beyond the instantiated one; if a body does mention
    them, only the instantiated capacities are used"""
    uses = False
    for n in names:
        for fn in tree.find(n):
            for z in fn.nodes():
                if z["k"] == "DeclRefExpr" and z["ref"]["name"] in ("leaf_slotmax", "inner_slotmax", "leaf_slotmin", "inner_slotmin") \
                        and not under_dead_code(fn, z):
                    uses = True
    out = [dict(cfg)]
    if not uses:
        for l, i in MODEL_CAPS:
            if (l, i) != (cfg["leaf"], cfg["inner"]):
                out.append(dict(leaf=l, inner=i))
    return out


def under_dead_code(fn, z):
    p = fn.parent(z)
    while p is not None:
        if p["k"] == "DoStmt":       # compiled-out assertion
            return True
        if p["k"] == "IfStmt" and ir.const_int(kids(p)[0]) == 0:
            return True
        p = fn.parent(p)
    return False


PRIMS = ("merge_leaves", "merge_inner", "shift_left_leaf", "shift_right_leaf", "shift_left_inner", "shift_right_inner",
         "split_leaf_node", "split_inner_node")


def check_primitives(ck, tree, cfg, rule="PRIMITIVE-EFFECT"):
    for c in cap_configs(tree, cfg, PRIMS):
        check_primitives_at(ck, tree, c, rule)


def check_insert(ck, tu, tree, cfg, rule="INSERT-EFFECT"):
    for c in cap_configs(tree, cfg, ("insert_descend", "split_leaf_node", "split_inner_node")):
        check_insert_at(ck, tu, tree, c, rule)


def run_case(fn, caps, setup, tree=None):
    ex = absexec.Exec(fn, caps, tu=tree)
    ctx = setup(ex)
    ret = ex.run(kids(fn.body))
    return ex, ctx, ret


def check_primitives_at(ck, tree, cfg, rule="PRIMITIVE-EFFECT"):
    caps = {"leaf": cfg["leaf"], "inner": cfg["inner"]}
    mins = {"leaf": cfg["leaf"] // 2, "inner": cfg["inner"] // 2}
    PF = 3       # separators in the model parent

    def parent():
        return absexec.Node("P", "inner", max(caps["inner"], PF), PF, 1)

    def report(fn, what, ncases, problem):
        if problem:
            ck.violation(rule, fn.qname, "%s@%d/%d" % (what, caps["leaf"], caps["inner"]),
                         "[capacities leaf %d, inner %d] %s" % (caps["leaf"], caps["inner"], problem), fn.loc)
        else:
            ck.ok(rule, tree.where(fn, "cap %d/%d" % (caps["leaf"], caps["inner"])),
                  "%d fill combinations: sequences conserved, bounds respected, separator correct" % ncases)
            ck.states += ncases

    # ---------------- merge_leaves
    fn = tree.one("merge_leaves")
    cap, mn = caps["leaf"], mins["leaf"]
    problem, n = None, 0
    for l in range(0, mn + 1):
        for r in range(0, mn + 1):
            if l + r > cap or problem:
                continue
            n += 1
            try:
                def setup(ex):
                    L, R, P = absexec.Node("L", "leaf", cap, l), absexec.Node("R", "leaf", cap, r), parent()
                    L.next_leaf, R.prev_leaf = R, L
                    bind(ex, fn, [L, R, P])
                    ex.this["tail_leaf_"] = R
                    return L, R, P, live(L, "slotdata"), live(R, "slotdata")
                ex, (L, R, P, L0, R0), ret = run_case(fn, caps, setup, tree)
                fl, _ = flags_of(ret)
                if live(L, "slotdata") != L0 + R0:
                    problem = "merge_leaves(%d, %d): the left leaf holds %s instead of all %d entries of both leaves in order" % (
                        l, r, summarize(live(L, "slotdata")), l + r)
                elif R.slotuse != 0:
                    problem = "merge_leaves(%d, %d): the emptied leaf keeps slotuse %d (the parent frees the child with slotuse 0)" % (l, r, R.slotuse)
                elif "btree_fixmerge" not in fl:
                    problem = "merge_leaves does not report btree_fixmerge"
            except absexec.Problem as p:
                problem = "merge_leaves(%d, %d): %s" % (l, r, p)
    report(fn, "merge_leaves", n, problem)

    # ---------------- merge_inner
    fn = tree.one("merge_inner")
    cap, mn = caps["inner"], mins["inner"]
    problem, n = None, 0
    for l in range(0, mn + 1):
        for r in range(0, mn + 1):
            for ps in (0, PF - 1):
                if l + r + 1 > cap or problem:
                    continue
                n += 1
                try:
                    def setup(ex):
                        L, R, P = absexec.Node("L", "inner", cap, l), absexec.Node("R", "inner", cap, r), parent()
                        bind(ex, fn, [L, R, P, ps])
                        return L, R, P, live(L, "slotkey"), live(R, "slotkey"), live(L, "childid", 1), live(R, "childid", 1), P.slotkey[ps]
                    ex, (L, R, P, Lk, Rk, Lc, Rc, S), ret = run_case(fn, caps, setup, tree)
                    fl, _ = flags_of(ret)
                    if live(L, "slotkey") != Lk + [S] + Rk:
                        problem = "merge_inner(%d, %d, slot %d): keys become %s; expected left keys, the parent's separator slotkey[%d], right keys" % (
                            l, r, ps, summarize(live(L, "slotkey")), ps)
                    elif live(L, "childid", 1) != Lc + Rc:
                        problem = "merge_inner(%d, %d): children become %s; expected all %d children of both nodes in order" % (
                            l, r, summarize(live(L, "childid", 1)), l + r + 2)
                    elif R.slotuse != 0:
                        problem = "merge_inner(%d, %d): the emptied node keeps slotuse %d" % (l, r, R.slotuse)
                    elif "btree_fixmerge" not in fl:
                        problem = "merge_inner does not report btree_fixmerge"
                except absexec.Problem as p:
                    problem = "merge_inner(%d, %d): %s" % (l, r, p)
    report(fn, "merge_inner", n, problem)

    # ---------------- shifts between leaves
    for name, donor_right in (("shift_left_leaf", True), ("shift_right_leaf", False)):
        fn = tree.one(name)
        cap, mn = caps["leaf"], mins["leaf"]
        problem, n = None, 0
        for small in range(0, mn):
            for big in range(max(small + 1, mn + 1), cap + 1):
                for ps in (0, PF - 1):
                    if problem:
                        continue
                    l, r = (small, big) if donor_right else (big, small)
                    n += 1
                    try:
                        def setup(ex):
                            L, R, P = absexec.Node("L", "leaf", cap, l), absexec.Node("R", "leaf", cap, r), parent()
                            L.next_leaf, R.prev_leaf = R, L
                            bind(ex, fn, [L, R, P, ps])
                            return L, R, P, live(L, "slotdata"), live(R, "slotdata")
                        ex, (L, R, P, L0, R0), ret = run_case(fn, caps, setup, tree)
                        got = live(L, "slotdata") + live(R, "slotdata")
                        recv = L if donor_right else R
                        if got != L0 + R0:
                            problem = "%s(%d, %d): the two leaves hold %s afterwards; the %d entries must be conserved in order" % (
                                name, l, r, summarize(got), l + r)
                        elif L.slotuse + R.slotuse != l + r:
                            problem = "%s(%d, %d): slotuse sums to %d" % (name, l, r, L.slotuse + R.slotuse)
                        elif small == mn - 1 and (L.slotuse < mn or R.slotuse < mn):
                            problem = "%s(%d, %d): fills become (%d, %d); an underflowing leaf and a donor above the minimum must both end with >= %d" % (
                                name, l, r, L.slotuse, R.slotuse, mn)
                        elif L.slotuse == 0 or R.slotuse == 0:
                            problem = "%s(%d, %d): a leaf is emptied" % (name, l, r)
                        else:
                            fl, key = flags_of(ret)
                            want = absexec.keyof(L.slotdata[L.slotuse - 1])
                            if P.slotkey[ps] != want and not ("btree_update_lastkey" in fl and key == want):
                                problem = "%s(%d, %d, slot %d): parent->slotkey[%d] is %s; the separator must be the largest key of the left leaf (%s)" % (
                                    name, l, r, ps, ps, P.slotkey[ps], want)
                            elif [x for i, x in enumerate(P.slotkey[:PF]) if i != ps and x != ("P", "k", i)]:
                                problem = "%s: a separator other than slotkey[parentslot] is overwritten" % name
                    except absexec.Problem as p:
                        problem = "%s(%d, %d): %s" % (name, l, r, p)
        report(fn, name, n, problem)

    # ---------------- shifts between inner nodes
    for name, donor_right in (("shift_left_inner", True), ("shift_right_inner", False)):
        fn = tree.one(name)
        cap, mn = caps["inner"], mins["inner"]
        problem, n = None, 0
        for small in range(0, mn):
            for big in range(max(small + 1, mn + 1), cap + 1):
                for ps in (0, PF - 1):
                    if problem:
                        continue
                    l, r = (small, big) if donor_right else (big, small)
                    if big - small < 2:
                        continue      # shiftnum would be 0: never called (the donor is not few, the receiver underflows)
                    n += 1
                    try:
                        def setup(ex):
                            L, R, P = absexec.Node("L", "inner", cap, l), absexec.Node("R", "inner", cap, r), parent()
                            bind(ex, fn, [L, R, P, ps])
                            return L, R, P, live(L, "slotkey"), live(R, "slotkey"), live(L, "childid", 1), live(R, "childid", 1), P.slotkey[ps]
                        ex, (L, R, P, Lk, Rk, Lc, Rc, S), ret = run_case(fn, caps, setup, tree)
                        gotk = live(L, "slotkey") + [P.slotkey[ps]] + live(R, "slotkey")
                        gotc = live(L, "childid", 1) + live(R, "childid", 1)
                        if gotk != Lk + [S] + Rk:
                            problem = ("%s(%d, %d, slot %d): keys left ++ [parent separator] ++ right become %s; the sequence (with the separator rotating "
                                       "through the parent) must be conserved" % (name, l, r, ps, summarize(gotk)))
                        elif gotc != Lc + Rc:
                            problem = "%s(%d, %d): children become %s; the %d children must be conserved in order with slotuse + 1 per node" % (
                                name, l, r, summarize(gotc), l + r + 2)
                        elif small == mn - 1 and (L.slotuse < mn or R.slotuse < mn):
                            problem = "%s(%d, %d): fills become (%d, %d); both nodes must end with >= %d" % (name, l, r, L.slotuse, R.slotuse, mn)
                        elif [x for i, x in enumerate(P.slotkey[:PF]) if i != ps and x != ("P", "k", i)]:
                            problem = "%s: a separator other than slotkey[parentslot] is overwritten" % name
                    except absexec.Problem as p:
                        problem = "%s(%d, %d): %s" % (name, l, r, p)
        report(fn, name, n, problem)

    # ---------------- splits
    fn = tree.one("split_leaf_node")
    cap, mn = caps["leaf"], mins["leaf"]
    problem, n = None, 0
    try:
        n += 1

        def setup(ex):
            L = absexec.Node("L", "leaf", cap, cap)
            bind(ex, fn, [L, absexec.OutPtr("newkey"), absexec.OutPtr("newleaf")])
            ex.this["tail_leaf_"] = L
            return L, live(L, "slotdata")
        ex, (L, L0), ret = run_case(fn, caps, setup, tree)
        N = ex.out.get("newleaf")
        if not isinstance(N, absexec.Node) or len(ex.new_nodes) != 1:
            problem = "split_leaf_node does not hand out the new leaf"
        elif live(L, "slotdata") + live(N, "slotdata") != L0:
            problem = "split_leaf_node: the two halves hold %s; the %d entries must be conserved in order" % (
                summarize(live(L, "slotdata") + live(N, "slotdata")), cap)
        elif L.slotuse < mn or N.slotuse < mn:
            problem = "split_leaf_node: halves of %d and %d entries; both must reach the minimum %d" % (L.slotuse, N.slotuse, mn)
        elif ex.out.get("newkey") != absexec.keyof(L.slotdata[L.slotuse - 1]):
            problem = "split_leaf_node: the key handed to the parent is %s, not the largest key of the left half" % (ex.out.get("newkey"),)
    except absexec.Problem as p:
        problem = "split_leaf_node: %s" % p
    report(fn, "split_leaf_node", n, problem)

    fn = tree.one("split_inner_node")
    cap, mn = caps["inner"], mins["inner"]
    problem, n = None, 0
    for addslot in range(0, cap + 1):
        if problem:
            continue
        n += 1
        try:
            def setup(ex):
                I = absexec.Node("I", "inner", cap, cap, 1)
                bind(ex, fn, [I, absexec.OutPtr("newkey"), absexec.OutPtr("newinner"), addslot])
                return I, live(I, "slotkey"), live(I, "childid", 1)
            ex, (I, K0, C0), ret = run_case(fn, caps, setup, tree)
            N = ex.out.get("newinner")
            if not isinstance(N, absexec.Node):
                problem = "split_inner_node does not hand out the new node"
                continue
            gotk = live(I, "slotkey") + [ex.out.get("newkey")] + live(N, "slotkey")
            gotc = live(I, "childid", 1) + live(N, "childid", 1)
            # the pending (key, child) pair goes left if addslot <= slotuse, right if addslot > slotuse + 1, and to
            # either side on the boundary (the pending key can become the separator)
            a, b = I.slotuse, N.slotuse
            if addslot <= a:
                fills_ok = a + 1 >= mn and b >= mn
            elif addslot > a + 1:
                fills_ok = a >= mn and b + 1 >= mn
            else:
                fills_ok = (a + 1 >= mn and b >= mn) or (a >= mn and b + 1 >= mn)
            if gotk != K0:
                problem = "split_inner_node(addslot %d): left keys ++ [key moved up] ++ right keys become %s; the %d keys must be conserved" % (
                    addslot, summarize(gotk), cap)
            elif gotc != C0:
                problem = "split_inner_node(addslot %d): children become %s; the %d children must be conserved with slotuse + 1 per node" % (
                    addslot, summarize(gotc), cap + 1)
            elif N.level != I.level:
                problem = "split_inner_node: the new node is on level %s, its sibling on %s" % (N.level, I.level)
            elif not fills_ok:
                problem = "split_inner_node(addslot %d): halves of %d and %d keys cannot both reach the minimum %d once the pending pair is inserted" % (
                    addslot, a, b, mn)
        except absexec.Problem as p:
            problem = "split_inner_node(addslot %d): %s" % (addslot, p)
    report(fn, "split_inner_node", n, problem)


def summarize(seq):
    out = []
    for x in seq:
        if absexec.is_junk(x):
            out.append("<stale %s[%s]>" % (x[1], x[3]))
        elif isinstance(x, tuple) and len(x) == 3:
            out.append("%s%s" % (x[0], x[2]))
        else:
            out.append(str(x))
    s = " ".join(out)
    return "[" + (s if len(s) < 140 else s[:140] + " ...") + "]"


# ------------------------------------------------------------------ insert_descend: one level at a time
def check_insert_at(ck, tu, tree, cfg, rule="INSERT-EFFECT"):
    """insert_descend is executed abstractly on one node: a leaf receiving (key, value) at every slot of every fill,
    and an inner node whose child at every slot reports a split (newkey, newchild).  find_lower and the
    recursion are stubs; split_leaf_node / split_inner_node are executed."""
    caps = {"leaf": cfg["leaf"], "inner": cfg["inner"]}
    mins = {"leaf": cfg["leaf"] // 2, "inner": cfg["inner"] // 2}
    fn = tree.one("insert_descend")
    V = ("V",)
    NK, NC = ("NK",), ("NC",)

    def execute(node, slot, child_splits):
        def find_lower(ex, e):
            return slot

        def recurse(ex, e):
            args = kids(e)[1:]
            if child_splits:
                ex.store(ex.lv_of_ptr(ex.ev(args[3])), NK)
                ex.store(ex.lv_of_ptr(ex.ev(args[4])), NC)
            return ("r",)
        ex = absexec.Exec(fn, caps, tu=tu, stubs={"find_lower": find_lower, "find_upper": find_lower, "insert_descend": recurse,
                                                  "key_equal": lambda ex, e: False},
                          inline=("split_leaf_node", "split_inner_node"))
        bind(ex, fn, [node, absexec.keyof(V), V, absexec.OutPtr("splitkey"), absexec.OutPtr("splitnode")])
        ex.out["splitnode"] = None
        ex.this["tail_leaf_"] = node if node.kind == "leaf" else None
        ret = ex.run(kids(fn.body))
        return ex, ret

    # ---- leaf level
    cap, mn = caps["leaf"], mins["leaf"]
    problem, n = None, 0
    for f in range(0, cap + 1):
        for s in range(0, f + 1):
            if problem:
                continue
            n += 1
            try:
                L = absexec.Node("L", "leaf", cap, f)
                D0 = live(L, "slotdata")
                want = D0[:s] + [V] + D0[s:]
                ex, ret = execute(L, s, False)
                N = ex.out.get("splitnode")
                got = live(L, "slotdata") + (live(N, "slotdata") if isinstance(N, absexec.Node) else [])
                where = "insert into a leaf with %d of %d entries at slot %d" % (f, cap, s)
                if got != want:
                    problem = "%s: the leaf%s holds %s; expected the old entries with the new value at position %d" % (
                        where, " and its new sibling" if N else "", summarize(got), s)
                elif (f == cap) != isinstance(N, absexec.Node):
                    problem = "%s: %s" % (where, "a full leaf must split" if f == cap else "a leaf with room must not split")
                elif isinstance(N, absexec.Node) and (L.slotuse < mn or N.slotuse < mn):
                    problem = "%s: halves of %d and %d entries, minimum %d" % (where, L.slotuse, N.slotuse, mn)
                elif isinstance(N, absexec.Node) and ex.out.get("splitkey") != absexec.keyof(L.slotdata[L.slotuse - 1]):
                    problem = "%s: the separator handed to the parent is %s, not the largest key of the left half %s" % (
                        where, ex.out.get("splitkey"), absexec.keyof(L.slotdata[L.slotuse - 1]))
                else:
                    # returned (iterator(node, slot), true) designates the new entry
                    it = ret[2][0] if isinstance(ret, tuple) and ret[0] == "obj" else None
                    okit = isinstance(it, tuple) and it[0] == "obj" and isinstance(it[2][0], absexec.Node) and \
                        0 <= it[2][1] < it[2][0].slotuse and it[2][0].slotdata[it[2][1]] == V and ret[2][1] in (True, 1)
                    if not okit:
                        problem = "%s: the returned iterator does not designate the inserted entry" % where
            except absexec.Problem as p:
                problem = "insert into a leaf with %d of %d entries at slot %d: %s" % (f, cap, s, p)
    if problem:
        ck.violation(rule, fn.qname, "leaf@%d" % cap, "[leaf capacity %d] %s" % (cap, problem), fn.loc)
    else:
        ck.ok(rule, tree.where(fn, "leaf cap %d" % cap), "%d (fill, slot) combinations: entries conserved, split halves legal, separator and iterator correct" % n)
        ck.states += n

    # ---- inner level
    cap, mn = caps["inner"], mins["inner"]
    problem, n = None, 0
    for f in range(1, cap + 1):
        for s in range(0, f + 1):
            if problem:
                continue
            n += 1
            try:
                I = absexec.Node("I", "inner", cap, f, 1)
                K0, C0 = live(I, "slotkey"), live(I, "childid", 1)
                wantk = K0[:s] + [NK] + K0[s:]
                wantc = C0[:s + 1] + [NC] + C0[s + 1:]
                ex, ret = execute(I, s, True)
                N = ex.out.get("splitnode")
                where = "child %d of an inner node with %d of %d keys splits" % (s, f, cap)
                if isinstance(N, absexec.Node):
                    gotk = live(I, "slotkey") + [ex.out.get("splitkey")] + live(N, "slotkey")
                    gotc = live(I, "childid", 1) + live(N, "childid", 1)
                else:
                    gotk, gotc = live(I, "slotkey"), live(I, "childid", 1)
                if gotk != wantk:
                    problem = "%s: keys%s become %s; expected the old keys with the child's separator at position %d" % (
                        where, " (left ++ [key moved up] ++ right)" if N else "", summarize(gotk), s)
                elif gotc != wantc:
                    problem = "%s: children become %s; expected the new child directly after child %d" % (where, summarize(gotc), s)
                elif (f == cap) != isinstance(N, absexec.Node):
                    problem = "%s: %s" % (where, "a full node must split" if f == cap else "a node with room must not split")
                elif isinstance(N, absexec.Node) and (I.slotuse < mn or N.slotuse < mn):
                    problem = "%s: halves of %d and %d keys, minimum %d" % (where, I.slotuse, N.slotuse, mn)
                elif ret != ("r",):
                    problem = "%s: the child's result is not handed upwards" % where
            except absexec.Problem as p:
                problem = "child %d of an inner node with %d of %d keys splits: %s" % (s, f, cap, p)
    if problem:
        ck.violation(rule, fn.qname, "inner@%d" % cap, "[inner capacity %d] %s" % (cap, problem), fn.loc)
    else:
        ck.ok(rule, tree.where(fn, "inner cap %d" % cap), "%d (fill, slot) combinations: keys and children conserved, split halves legal" % n)
        ck.states += n


# ------------------------------------------------------------------ erase descents: one level at a time
def check_erase(ck, tu, tree, cfg, rule="ERASE-EFFECT"):
    for c in cap_configs(tree, cfg, ("erase_one_descend", "erase_iter_descend")):
        for name in ("erase_one_descend", "erase_iter_descend"):
            check_erase_at(ck, tu, tree, c, tree.one(name), rule)


def check_erase_at(ck, tu, tree, cfg, fn, rule):
    """the removal of one entry from a leaf (every fill and slot; with and without a parent separator to maintain)
    and the repair of an inner node after a child reported btree_fixmerge (either of the two candidate
    children emptied) are executed abstractly; underflow handling is switched off here (UNDERFLOW-LEGAL and
    PRIMITIVE-EFFECT cover it)"""
    caps = {"leaf": cfg["leaf"], "inner": cfg["inner"]}
    PF = 3
    by_iter = fn.name == "erase_iter_descend"
    freed = []

    def mk_exec(slot, child_result):
        def has(ex, e):
            r = ex.ev(kids(e)[0])
            f = ex.ev(kids(e)[1])
            return f[1] in str(r[1]).split("|")
        stubs = {
            "find_lower": lambda ex, e: slot,
            "find_upper": lambda ex, e: slot,
            "key_equal": lambda ex, e: True,
            "is_underflow": lambda ex, e: False,
            "has": has,
            "free_node": lambda ex, e: freed.append(ex.ev(kids(e)[1])),
            fn.name: lambda ex, e: child_result,
        }
        return absexec.Exec(fn, caps, tu=tu, stubs=stubs)

    # ---- leaf level
    cap = caps["leaf"]
    problem, n = None, 0
    mn = cap // 2
    for f in range(1, cap + 1):
        for s in range(0, f):
            # 'sep': non-root leaf whose parent holds its separator; 'nosep': non-root leaf on the rightmost path;
            # 'root': the root leaf (no parent, may hold a single entry)
            for mode in ("sep", "nosep", "root"):
                if problem or (mode != "root" and f < max(2, mn)):
                    continue
                n += 1
                try:
                    L = absexec.Node("L", "leaf", cap, f)
                    P = absexec.Node("P", "inner", max(caps["inner"], PF), PF, 1) if mode != "root" else None
                    ps = 1 if mode == "sep" else PF
                    D0 = live(L, "slotdata")
                    ex = mk_exec(s, None)
                    first = {"curr_leaf": L, "curr_slot": s} if by_iter else absexec.keyof(D0[s])
                    bind(ex, fn, [first, L, None, None, None, None, P, ps if P else 0])
                    ex.this["root_"] = L if mode == "root" else None
                    ret = ex.run(kids(fn.body))
                    fl, key = flags_of(ret)
                    where = "%s: removing slot %d of a leaf with %d entries (%s)" % (
                        fn.name, s, f, {"sep": "separator in the parent", "nosep": "rightmost child, no separator", "root": "root leaf"}[mode])
                    if live(L, "slotdata") != D0[:s] + D0[s + 1:]:
                        problem = "%s leaves %s; expected the other %d entries in order" % (where, summarize(live(L, "slotdata")), f - 1)
                    elif "btree_not_found" in fl:
                        problem = "%s reports btree_not_found" % where
                    elif s == f - 1 and f >= 2:
                        want = absexec.keyof(L.slotdata[L.slotuse - 1])
                        if mode == "sep" and P.slotkey[ps] != want:
                            problem = "%s: the largest key changed but parent->slotkey[parentslot] is %s, not %s" % (where, P.slotkey[ps], want)
                        elif mode == "nosep" and not ("btree_update_lastkey" in fl and key == want):
                            problem = "%s: the largest key changed and the parent has no separator for this child; the caller must receive btree_update_lastkey(%s)" % (where, want)
                    if not problem and P is not None and [x for i, x in enumerate(P.slotkey[:PF]) if x != ("P", "k", i) and not (mode == "sep" and i == ps and s == f - 1)]:
                        problem = "%s: a parent separator is rewritten although this leaf's largest key did not change" % where
                except absexec.Problem as p:
                    problem = "%s: removing slot %d of a leaf with %d entries: %s" % (fn.name, s, f, p)
    if problem:
        ck.violation(rule, fn.qname, "%s:leaf@%d" % (fn.name, cap), "[leaf capacity %d] %s" % (cap, problem), fn.loc)
    else:
        ck.ok(rule, tree.where(fn, "leaf cap %d" % cap), "%d (fill, slot, parent) cases: entries conserved, separator maintained or handed up" % n)
        ck.states += n

    # ---- inner level: a child merged with its neighbour; one of childid[slot], childid[slot + 1] is empty
    cap = caps["inner"]
    lcap = caps["leaf"]
    problem, n = None, 0
    for f in range(1, cap + 1):
        for s in range(0, f + 1):
            for emptied in (s, s + 1):
                if emptied > f or emptied == 0 or problem:
                    # the emptied node is always the right one of the merged pair, so it is never child 0
                    continue
                if emptied == s and s == 0:
                    continue
                n += 1
                try:
                    del freed[:]
                    I = absexec.Node("I", "inner", cap, f, 1)
                    kidsn = []
                    for i in range(f + 1):
                        c = absexec.Node("c%d" % i, "leaf", lcap, 0 if i == emptied else 2)
                        kidsn.append(c)
                        I.childid[i] = c
                    K0, C0 = live(I, "slotkey"), live(I, "childid", 1)
                    ex = mk_exec(s, ("result", "btree_fixmerge", None))
                    first = {"curr_leaf": kidsn[s], "curr_slot": 0} if by_iter else ("K",)
                    if by_iter:
                        ex.stubs["key"] = lambda ex, e: ("K",) if isinstance(ex.ev(kids(e)[0]), dict) else NotImplemented
                    bind(ex, fn, [first, I, None, None, None, None, None, 0])
                    ex.this["root_"] = I
                    ret = ex.run(kids(fn.body))
                    where = "%s: child %d of an inner node with %d keys was merged away (descended into child %d)" % (fn.name, emptied, f, s)
                    wantk = K0[:emptied - 1] + K0[emptied:]
                    wantc = C0[:emptied] + C0[emptied + 1:]
                    gotk = live(I, "slotkey")
                    # on level 1 the separator of the surviving left child is refreshed from the child itself
                    cmpk = [(k if i != emptied - 1 else wantk[i]) for i, k in enumerate(gotk)] if len(gotk) == len(wantk) else gotk
                    if freed != [kidsn[emptied]]:
                        problem = "%s: freed %s; exactly the emptied child must be released" % (where, [getattr(x, "name", x) for x in freed])
                    elif live(I, "childid", 1) != wantc:
                        problem = "%s: children become %s" % (where, summarize([getattr(x, "name", x) for x in live(I, "childid", 1)]))
                    elif cmpk != wantk:
                        problem = "%s: keys become %s; the separator left of the emptied child must disappear, the others stay" % (where, summarize(gotk))
                    elif emptied - 1 < I.slotuse and gotk[emptied - 1] not in (wantk[emptied - 1], absexec.keyof(kidsn[emptied - 1].slotdata[1])):
                        problem = "%s: the separator of the merged child is %s" % (where, gotk[emptied - 1])
                except absexec.Problem as p:
                    problem = "%s: child %d of an inner node with %d keys merged away: %s" % (fn.name, emptied, f, p)
    if problem:
        ck.violation(rule, fn.qname, "%s:inner@%d" % (fn.name, cap), "[inner capacity %d] %s" % (cap, problem), fn.loc)
    else:
        ck.ok(rule, tree.where(fn, "inner cap %d" % cap), "%d (fill, slot, emptied child) cases: emptied child freed, keys and children closed up" % n)
        ck.states += n


# ------------------------------------------------------------------ bulk_load: the tree it builds
def check_bulk_load(ck, tu, tree, cfg, rule="BULK-LOAD-SHAPE"):
    """bulk_load() is executed abstractly for input lengths across three levels of the tree at the instantiated
    capacities (its body uses the capacity constants, so only those); the result must be a legal B+ tree that
    holds the input in order: arrays within capacity, slotuse + 1 children, equal depth, every non-root node at
    least half full, separators = largest key below, consistent leaf chain, size = n"""
    lcap, icap = cfg["leaf"], cfg["inner"]
    lmin, imin = lcap // 2, icap // 2
    caps = {"leaf": lcap, "inner": icap}
    fns = tree.find("bulk_load")
    if not fns:
        raise ir.AnalysisBroken("bulk_load not instantiated for %s" % tree.label)
    fn = fns[0]
    sizes = set(range(0, 3 * lcap + 2))
    for base in (lcap, lcap * (icap + 1), lcap * (icap + 1) * (icap + 1), lmin * (imin + 1), lcap * icap):
        for k in (1, 2, 3):
            for d in (-1, 0, 1):
                sizes.add(base * k + d)
    top = lcap * (icap + 1) * (icap + 1) + lcap + 1
    sizes |= set(range(0, top, 7))
    sizes = sorted(x for x in sizes if 0 <= x <= top)
    problem = None
    for n in sizes:
        if problem:
            break
        try:
            IN = absexec.Node("in", "leaf", max(n, 1), n)
            ex = absexec.Exec(fn, caps, tu=tu)
            bind(ex, fn, [absexec.ArrPtr(IN, "slotdata", 0), absexec.ArrPtr(IN, "slotdata", n)])
            ex.this.update(root_=None, head_leaf_=None, tail_leaf_=None, stats_=dict(size=0, leaves=0, inner_nodes=0))
            ex.stubs["empty"] = lambda ex, e: True
            ex.stubs["verify"] = lambda ex, e: None
            ex.run(kids(fn.body))
            problem = bulk_shape_problem(ex, IN, n, lcap, icap, lmin, imin)
            if problem:
                problem = "bulk_load of %d entries (leaf capacity %d, inner capacity %d): %s" % (n, lcap, icap, problem)
        except absexec.Problem as p:
            problem = "bulk_load of %d entries (leaf capacity %d, inner capacity %d): %s" % (n, lcap, icap, p)
    if problem:
        ck.violation(rule, fn.qname, "bulk_load@%d/%d" % (lcap, icap), problem, fn.loc)
    else:
        ck.ok(rule, tree.where(fn, "cap %d/%d" % (lcap, icap)), "%d input lengths up to %d: legal tree, input conserved in order" % (len(sizes), top))
        ck.states += len(sizes)


def bulk_shape_problem(ex, IN, n, lcap, icap, lmin, imin):
    root, head, tail = ex.this.get("root_"), ex.this.get("head_leaf_"), ex.this.get("tail_leaf_")
    st = ex.this.get("stats_") or {}
    if st.get("size") != n:
        return "size() reports %s" % st.get("size")
    if n == 0:
        return None if root is None and head is None and tail is None else "an empty load must leave an empty tree"
    if not isinstance(root, absexec.Node):
        return "no root"
    # leaf chain
    chain, x, prev = [], head, None
    while x is not None:
        if not isinstance(x, absexec.Node) or x.kind != "leaf" or len(chain) > n + 2:
            return "the leaf chain is broken"
        if x.prev_leaf is not prev:
            return "prev_leaf of a leaf does not point to its predecessor"
        chain.append(x)
        prev, x = x, x.next_leaf
    if not chain or chain[-1] is not tail:
        return "tail_leaf_ is not the last leaf of the chain"
    data = [d for leaf in chain for d in live(leaf, "slotdata")]
    if data != IN.slotdata[:n]:
        return "the leaves hold %d entries %s; expected the %d input entries in order" % (len(data), summarize(data[:12]), n)
    # tree walk
    leaves_in_tree = []
    depths = set()

    def walk_tree(node, depth, is_root):
        if not isinstance(node, absexec.Node):
            return "a child slot holds %r instead of a node" % (node,)
        if node.kind == "leaf":
            depths.add(depth)
            leaves_in_tree.append(node)
            if node.slotuse > lcap:
                return "a leaf holds %d entries, capacity %d" % (node.slotuse, lcap)
            if not is_root and node.slotuse < lmin:
                return "a leaf holds %d entries, the minimum is %d" % (node.slotuse, lmin)
            if node.slotuse == 0:
                return "an empty leaf"
            return None
        if node.slotuse > icap:
            return "an inner node holds %d keys, capacity %d" % (node.slotuse, icap)
        if node.slotuse < (1 if is_root else imin):
            return "an inner node holds %d keys, the minimum is %d" % (node.slotuse, 1 if is_root else imin)
        for i in range(node.slotuse + 1):
            c = node.childid[i]
            if isinstance(c, absexec.Node) and c.kind == "inner" and c.level != node.level - 1:
                return "level bookkeeping: child level %s below level %s" % (c.level, node.level)
            if isinstance(c, absexec.Node) and c.kind == "leaf" and node.level != 1:
                return "a leaf hangs below an inner node of level %s" % node.level
            r = walk_tree(c, depth + 1, False)
            if r:
                return r
            if i < node.slotuse:
                mx = max_key(c)
                if node.slotkey[i] != mx:
                    return "separator %d of an inner node is %s, the largest key below it is %s" % (i, node.slotkey[i], mx)
        return None

    def max_key(node):
        while node.kind == "inner":
            node = node.childid[node.slotuse]
        return absexec.keyof(node.slotdata[node.slotuse - 1])
    r = walk_tree(root, 0, True)
    if r:
        return r
    if len(depths) != 1:
        return "leaves at different depths %s" % sorted(depths)
    if [id(x) for x in leaves_in_tree] != [id(x) for x in chain]:
        return "the leaf chain does not visit the leaves in tree order"
    return None
