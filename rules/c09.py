"""C09 — loser trees: replay / initial-tournament decision tables (engine A2),
replay path by evaluation of the integer skeleton, slot-0 reporting, padding range, size switch; in the pointer trees the
object behind every key pointer put into a node outlives the storing call (PADDING, lifetime: check_key_lifetime()).

Verdict policy of this file: a violation is reported only on positive evidence (a concrete counterexample of an
evaluation, a row of a decision table, a closed-world absence).  A shape that is not recognised is `Undecidable`.

Closed world: "this store / this access does not happen" is concluded from an evaluation only if unmodelled_tree_use() finds
nothing in the text of the function that could reach the tree behind the evaluation's back (a call that receives a node, a
field, a pointer into the tree or the object and is not executed or modelled; a tuple of references, a structured binding,
a lambda that reaches into the tree).

Spellings the rules do not read are first written out as the plain statements they stand for (lower_novel_forms(): calls of
local lambdas that stand as statements, std::tie packs, std::exchange, switch); a pointer that walks the tree
(game = base + (game - base) / 2) is a position variable like an index; a local plain struct can carry the challenger."""
from engine import ir, dtable, match
from engine.ir import kids, strip_casts, const_int, ref_of

CLASSES = {
    "tlx::LoserTreeCopy": dict(guarded=True, base="tlx::LoserTreeCopyBase", pointer=False),
    "tlx::LoserTreePointer": dict(guarded=True, base="tlx::LoserTreePointerBase", pointer=True),
    "tlx::LoserTreeCopyUnguarded": dict(guarded=False, base="tlx::LoserTreeCopyUnguardedBase", pointer=False),
    "tlx::LoserTreePointerUnguarded": dict(guarded=False, base="tlx::LoserTreePointerUnguardedBase", pointer=True),
}
TREE = "losers_"
NULLS = ("NullPtr", "CXXNullPtrLiteralExpr", "GNUNullExpr")


_REF_INITS = {}     # decl id of a local reference (auto& node = losers_[pos]) -> its initialiser, per function run
_PTR_INITS = {}     # decl id of a never-reassigned local pointer (Loser* node = &losers_[pos]) -> the pointee expression
_BASE_PTRS = set()  # decl ids of never-reassigned local pointers to the first node (Loser* base = losers_.data())
_WALK_PTRS = set()  # decl ids of local pointers to a node that ARE reassigned (Loser* game = base + i; ...; game = base + (game - base) / 2):
                    # such a pointer names the current node the way an index local does


_RECORDS = {}       # local struct of the function under analysis whose fields are plain values (struct Travelling { bool sup; Source source;
                    # ValueType key; }): qualified name / printed type -> field names in declaration order.  An object of such a type can
                    # carry the travelling player the way a local Loser object does.

_ZERO = {"k": "IntegerLiteral", "val": 0, "id": -1, "ty": "int"}


def _bare_type(t):
    """a type without const / reference decoration"""
    t = (t or "").strip()
    while True:
        t0 = t
        if t.startswith("const "):
            t = t[6:].strip()
        if t.endswith("&"):
            t = t.rstrip("&").strip()
        if t.endswith(" const"):
            t = t[:-6].strip()
        if t.endswith("*const"):
            t = t[:-5].strip()
        if t == t0:
            return t


def tree_base(e):
    """e is a pointer to the first node: losers_.data() / begin(), &losers_[0], or a never-reassigned local initialised by one"""
    e = strip_casts(e)
    if e is None:
        return False
    if tree_accessor(e, 1) == 0:
        return True
    if e["k"] == "UnaryOperator" and e.get("op") == "&" and kids(e):
        p = match.index_parts(kids(e)[0])
        return bool(p and match.this_field(p[0]) == TREE and const_int(p[1]) == 0)
    return ref_of(e) is not None and ref_of(e) in _BASE_PTRS


def _base_plus(e):
    """index expression i if e is the pointer base + i / i + base for a pointer base to the first node (built-in pointer
    arithmetic: base + i is &base[i]); None otherwise"""
    e = strip_casts(e)
    if e is None or e["k"] != "BinaryOperator" or e.get("op") != "+" or len(kids(e)) != 2 or not _bare_type(e.get("ty")).endswith("*"):
        return None
    a, b = kids(e)
    if tree_base(a) and not _bare_type((strip_casts(b) or {}).get("ty")).endswith("*"):
        return b
    if tree_base(b) and not _bare_type((strip_casts(a) or {}).get("ty")).endswith("*"):
        return a
    return None


def node_index(n):
    """index expression i if n is this->losers_[i] (also through a local reference / constant pointer bound to it, and
    base[i] / *base / base-> for a pointer to the first node)"""
    p = match.index_parts(n)
    if p and match.this_field(p[0]) == TREE:
        return p[1]
    if p and tree_base(p[0]):
        return p[1]
    if ref_of(n) is not None and ref_of(n) in _BASE_PTRS:
        return _ZERO                               # base->f
    n_ = strip_casts(n)
    if n_ is not None and "callee" in n_ and tree_accessor(n_, 1) == 0 and _bare_type(n_.get("ty")).endswith("*"):
        return _ZERO                               # losers_.data()->f: the pointer to the first node, used with ->
    pa = _base_plus(n_)
    if pa is not None:
        return pa                                  # (base + i)->f
    if ref_of(n) is not None and ref_of(n) in _WALK_PTRS:
        return strip_casts(n)                      # game->f: the walking pointer itself names the node
    if match.deref_of(n) is not None and ref_of(match.deref_of(n)) in _WALK_PTRS:
        return strip_casts(match.deref_of(n))      # (*game).f
    if match.deref_of(n) is not None and tree_base(match.deref_of(n)) and not (strip_casts(match.deref_of(n))["k"] == "UnaryOperator"):
        return _ZERO                               # (*base).f
    if match.deref_of(n) is not None and _base_plus(match.deref_of(n)) is not None:
        return _base_plus(match.deref_of(n))       # (*(base + i)).f
    d = ref_of(n)
    if d is not None and d in _REF_INITS:
        return node_index(_REF_INITS[d])
    if d is not None and d in _PTR_INITS:          # node->f
        return node_index(_PTR_INITS[d])
    q = match.deref_of(n)                          # (*node).f
    if q is not None and ref_of(q) in _PTR_INITS:
        return node_index(_PTR_INITS[ref_of(q)])
    n0 = strip_casts(n)
    if n0 is not None and n0["k"] == "UnaryOperator" and n0.get("op") == "&" and kids(n0):
        return node_index(kids(n0)[0])             # (&losers_[i])->f
    if q is not None:
        q0 = strip_casts(q)
        if q0 is not None and q0["k"] == "UnaryOperator" and q0.get("op") == "&" and kids(q0):
            return node_index(kids(q0)[0])         # (*&losers_[i]).f
    return None


def bind_reference_locals(fn):
    _REF_INITS.clear()
    _PTR_INITS.clear()
    _BASE_PTRS.clear()
    _WALK_PTRS.clear()
    _RECORDS.clear()
    for r in (fn.tu.records if fn.tu is not None else ()):
        if r["qname"].startswith(fn.qname + "::") and not r.get("bases") and not r.get("methods") and r.get("fields") and \
                not any((f.get("ty") or "").rstrip().endswith("&") or "Loser" in (f.get("ty") or "") for f in r["fields"]):
            _RECORDS[r["qname"]] = _RECORDS[r.get("full") or r["qname"]] = [f["name"] for f in r["fields"]]
    written = set()
    for x in fn.nodes():
        if x["k"] in ("BinaryOperator", "CompoundAssignOperator", "CXXOperatorCallExpr"):
            b = match.binop(x)
            if b and b[0].endswith("=") and b[0] not in ("==", "!=", "<=", ">="):
                written.add(ref_of(b[1]))
        u = match.unop(x, ("++", "--")) if x["k"] in ("UnaryOperator", "CXXOperatorCallExpr") else None
        if u:
            written.add(ref_of(u[1]))
    for x in fn.nodes():
        if x["k"] == "VarDecl" and kids(x) and kids(x)[0] is not None:
            if x.get("isref"):
                _REF_INITS[x["did"]] = kids(x)[0]
            elif (x.get("ty") or "").replace("const", "").rstrip().endswith("*") and x["did"] not in written:
                i0 = strip_casts(kids(x)[0])
                if tree_base(i0):
                    _BASE_PTRS.add(x["did"])
                elif i0 is not None and i0["k"] == "UnaryOperator" and i0.get("op") == "&":
                    _PTR_INITS[x["did"]] = kids(i0)[0]
            elif x["did"] in written and _bare_type((x.get("ty") or "")).endswith("*") and \
                    _bare_type(_bare_type(x.get("ty") or "")[:-1]).endswith("::Loser"):
                _WALK_PTRS.add(x["did"])


def node_field(n):
    """(index_expr, field) if n is this->losers_[i].field (also through a local reference bound to the field)"""
    f = match.field_of(n)
    if f:
        i = node_index(f[0])
        if i is not None:
            return i, f[1]
    d = ref_of(n)
    if d is not None and d in _REF_INITS:
        return node_field(_REF_INITS[d])
    return None


def strip_move(e):
    """looks through std::move / std::forward"""
    e = strip_casts(e)
    c = match.call_named(e, ("move", "forward"))
    if c is not None and len(kids(c)) == 1 and not c.get("member_call"):
        return strip_casts(kids(c)[0])
    return e


def is_loser_member(e):
    e = strip_casts(e)
    return e is not None and e["k"] == "MemberExpr" and (e.get("owner") or "").endswith("::Loser")


def is_loser_object(e):
    e = strip_casts(e)
    return e is not None and (e.get("ty") or "").replace("const ", "").rstrip(" &").endswith("::Loser")


def is_record_member(e):
    """a field of an object of a local plain struct of this function (t.source)"""
    e = strip_casts(e)
    return e is not None and e["k"] == "MemberExpr" and e.get("owner") in _RECORDS and bool(kids(e))


def is_record_object(e):
    e = strip_casts(e)
    return e is not None and _bare_type(e.get("ty")) in _RECORDS


def member_names(e, fields):
    """names of the fields of the object that the member expression e belongs to"""
    return _RECORDS.get(strip_casts(e).get("owner")) or fields


def local_object(b, depth=0):
    """declaration id of the local Loser object that b designates (the object itself, a reference local bound to it, *p for a
    never-reassigned pointer to it); None if b is a node of the tree or anything else"""
    b = strip_casts(b)
    if b is None or depth > 6 or node_index(b) is not None:
        return None
    d = ref_of(b)
    if d is None:
        q = match.deref_of(b)
        if q is not None and ref_of(q) in _PTR_INITS:
            return local_object(_PTR_INITS[ref_of(q)], depth + 1)
        if b["k"] == "UnaryOperator" and b.get("op") == "&" and kids(b):
            return local_object(kids(b)[0], depth + 1)          # (&cand)->f
        if q is not None and strip_casts(q)["k"] == "UnaryOperator" and strip_casts(q).get("op") == "&":
            return local_object(kids(strip_casts(q))[0], depth + 1)     # (*&cand).f
        return None
    if d in _REF_INITS:
        return local_object(_REF_INITS[d], depth + 1)
    if d in _PTR_INITS:
        return local_object(_PTR_INITS[d], depth + 1)          # p->f
    return d if is_loser_object(b) or (is_record_object(b) and b["k"] == "DeclRefExpr" and b["ref"].get("kind") in ("local", "param")) else None


def local_place(e, depth=0):
    """where a value of the travelling player is held: the declaration id of a plain local / parameter, or (id, field) for
    a field of a local Loser object (`cand.keyp`); None for a field of a tree node and for anything else"""
    e = strip_casts(e)
    if e is None or depth > 6:
        return None
    if e["k"] == "DeclRefExpr" and e["ref"].get("kind") == "binding":
        return None                                   # a structured binding: the object it names is not known here
    if e["k"] == "UnaryOperator" and e.get("op") == "&" and kids(e):
        q = strip_casts(kids(e)[0])
        if q is not None and q["k"] == "UnaryOperator" and q.get("op") == "*" and kids(q):
            return local_place(kids(q)[0], depth + 1)     # &*p is p (builtin operators on a pointer)
    d = ref_of(e)
    if d is not None:
        if d in _REF_INITS and node_field(e) is None and node_index(e) is None:
            t = local_place(_REF_INITS[d], depth + 1)      # Source& s = source;  const bool& s = cand.sup;
            return t if t is not None else d
        return d
    if (is_loser_member(e) or is_record_member(e)) and kids(e):
        o = local_object(kids(e)[0])
        if o is not None:
            return (o, e["member"])
    return None


def place_decl(p):
    return p[0] if isinstance(p, tuple) else p


def member_expr(obj, field, owner):
    """synthetic obj.field, for a whole-object operation that is taken apart field by field"""
    m = {"k": "MemberExpr", "id": -1, "member": field["name"], "owner": owner, "ty": field.get("ty"), "lv": True,
         "l": obj.get("l"), "ch": [obj], "synthetic": True}
    if obj.get("f"):
        m["f"] = obj["f"]
    return m


def field_values(e, fields, owner):
    """a whole player value taken apart: field name -> expression, for Loser{a, b, ...} / {a, b, ...} (declaration order),
    a node of the tree, a local Loser object (also through std::move and copy construction); None if e is something else"""
    e = match.strip_conv(strip_move(e))
    while e is not None and e["k"] in ("MaterializeTemporaryExpr", "ExprWithCleanups", "CXXBindTemporaryExpr", "ParenExpr") and kids(e):
        e = match.strip_conv(strip_move(kids(e)[0]))
    if e is None:
        return None
    if e["k"] == "InitListExpr":
        if len(kids(e)) != len(fields) or any(x is None for x in kids(e)) or is_record_object(e):
            return None
        return {f["name"]: x for f, x in zip(fields, kids(e))}
    if is_loser_object(e) and (node_index(e) is not None or local_object(e) is not None):
        return {f["name"]: member_expr(e, f, owner) for f in fields}
    return None


def record_values(e):
    """a whole object of a local plain struct taken apart: field name -> expression, for Travelling{a, b, c} (declaration order)
    and a local object of that type; None if e is something else"""
    e = match.strip_conv(strip_move(e))
    while e is not None and e["k"] in ("MaterializeTemporaryExpr", "ExprWithCleanups", "CXXBindTemporaryExpr", "ParenExpr") and kids(e):
        e = match.strip_conv(strip_move(kids(e)[0]))
    names = _RECORDS.get(_bare_type(e.get("ty"))) if e is not None else None
    if names is None:
        return None
    if e["k"] == "InitListExpr":
        if len(kids(e)) != len(names) or any(x is None for x in kids(e)):
            return None
        return dict(zip(names, kids(e)))
    if local_object(e) is not None:
        return {f: member_expr(e, {"name": f}, _bare_type(e.get("ty"))) for f in names}
    return None


def lambda_condition(fn, n):
    """for a call of a local lambda used as a condition (`node_wins(losers_[pos])`): the value it returns as one
    expression over the caller's objects, parameters replaced by the arguments.  The lambda must see the caller's locals as
    they are at the call: every variable is captured by reference.  None if n is not such a call; Undecidable if it is one
    and cannot be translated."""
    fc = match.functor_call(n)
    if not fc or ref_of(fc[0]) is None:
        return None
    decl = None
    for x in fn.nodes():
        if x["k"] == "VarDecl" and x.get("did") == ref_of(fc[0]):
            decl = x
    init = decl and kids(decl) and kids(decl)[0]
    while init and init["k"] != "LambdaExpr" and len(kids(init)) == 1 and \
            init["k"] in ("ExprWithCleanups", "MaterializeTemporaryExpr", "CXXConstructExpr", "ImplicitCastExpr", "CXXBindTemporaryExpr"):
        init = kids(init)[0]
    if not init or init["k"] != "LambdaExpr":
        return None
    where = fn.nloc(n)
    callee = fn.tu.by_did.get(init.get("fn"))
    if callee is None or callee.body is None or "captures" not in init:
        raise dtable.Undecidable("%s: body of the lambda called here is not known" % where)
    for c in init["captures"]:
        if c.get("name") != "this" and not c.get("byref"):
            raise dtable.Undecidable("%s: lambda captures %s by value: what it sees at the call is not what the caller holds" % (where, c.get("name")))
    if len(fc[1]) != len(callee.params):
        raise dtable.Undecidable("%s: arguments of the lambda called here not understood" % where)
    sub = dtable.stmts_as_expr(kids(callee.body), {p["did"]: a for p, a in zip(callee.params, fc[1])})
    if sub is None:
        raise dtable.Undecidable("%s: body of the lambda called here is not a chain of returns" % where)
    return sub


# ----------------------------------------------------------------------------
# evaluation of tree accesses in the integer skeleton (engine/skel.py): REPLAY-PATH and PADDING
# ----------------------------------------------------------------------------

def _key_slot(key):
    """slot of a skeleton lvalue key that lies in the tree: losers_[i], or address i (losers_.data() is address 0)"""
    if isinstance(key, tuple) and len(key) == 3 and key[0] == "elem" and key[1] == ("field", TREE):
        return key[2]
    if isinstance(key, tuple) and len(key) == 2 and key[0] == "mem":
        return key[1]
    return None


def _is_int(v):
    return isinstance(v, int) and not isinstance(v, bool)


def tree_accessor(e, size):
    """value of losers_.begin() / data() / end() / size() in the skeleton (the tree's storage starts at address 0)"""
    if "callee" in e and e.get("member_call") and kids(e) and match.this_field(kids(e)[0]) == TREE:
        nm = e["callee"]["name"]
        if nm in ("begin", "data", "cbegin"):
            return 0
        if nm in ("end", "cend", "size"):
            return size
    return None


def object_slot(fn, obj, arrow, sk):
    """(slot, index expression or None) of the tree node that `obj` designates: losers_[i], a reference bound to it, *p / p-> / p[i]
    for a pointer into the tree; (None, None) for a Loser object that is a local of its own.  Undecidable if the node is not
    known in this run of the skeleton."""
    o = strip_casts(obj)
    ix = None
    if arrow:
        v = sk.ev(obj)
        if isinstance(v, tuple) and len(v) == 2 and v[0] == "ptr":
            if _is_int(v[1]) and v[1] not in sk.alias:
                return None, None                       # pointer to a local object
            s = _key_slot(v[1])
        else:
            s = v
    else:
        ip = match.index_parts(o)
        if ip and match.this_field(ip[0]) == TREE:
            ix = ip[1]
            s = sk.ev(ip[1])
        elif ip and "*" in (strip_casts(ip[0]).get("ty") or ""):
            a, i = sk.ev(ip[0]), sk.ev(ip[1])            # p[i] for a pointer into the tree (losers_.data() is address 0)
            s = a + i if _is_int(a) and _is_int(i) else None
        else:
            key = sk.lvalue(o)
            if _is_int(key):
                return None, None                       # a local Loser object (also through a reference / pointer to it)
            s = _key_slot(key)
    if not _is_int(s):
        raise dtable.Undecidable("%s: tree node of this access is not known to the evaluation: %s" % (fn.nloc(o), dtable.describe(o)))
    return s, ix


def local_key(obj, arrow, sk):
    """key, in the evaluation, of the local Loser object that `obj` designates (object_slot() said it is not a tree node)"""
    if arrow:
        v = sk.ev(obj)
        return v[1] if isinstance(v, tuple) and len(v) == 2 and v[0] == "ptr" and _is_int(v[1]) else None
    key = sk.lvalue(strip_casts(obj))
    return key if _is_int(key) else None


def player(names, values):
    """value of a whole Loser object in the evaluation: its fields in declaration order"""
    return ("loser", tuple((f, values.get(f)) for f in names))


def player_field(v, field):
    if isinstance(v, tuple) and len(v) == 2 and v[0] == "loser":
        return dict(v[1]).get(field)
    return None


def inlinable(e, sk):
    """the skeleton executes the body of this call (engine/skel.py inline())"""
    if sk.tu is None or sk.depth >= 5 or e["k"] == "CXXOperatorCallExpr":
        return False
    callee = sk.tu.by_did.get(e["callee"].get("did"))
    if callee is None or callee.body is None or callee.did == sk.fn.did or callee.kind in ("ctor", "dtor", "lambda"):
        return False
    args = [a for a in kids(e) if a is not None and a["k"] != "DefaultArg"]
    if e.get("member_call"):
        if not args or strip_casts(args[0])["k"] != "This":
            return False
        args = args[1:]
    return len(args) == len(callee.params)


_BENIGN = {"swap", "move", "forward", "min", "max", "unused", "begin", "end", "data", "size", "cbegin", "cend", "at", "addressof"}


def opaque_tree_call(e, sk):
    """a call whose effect on the tree the evaluation does not know: not executed by the skeleton, not a known accessor,
    and it receives the tree, a node, a pointer / reference into the tree or the object itself"""
    if "callee" not in e or e["k"] in ("CXXOperatorCallExpr", "CXXConstructExpr", "CXXTemporaryObjectExpr"):
        return False
    if e["callee"]["name"] in _BENIGN or inlinable(e, sk):
        return False
    for a in kids(e):
        if a is not None and strip_casts(a) is not None and strip_casts(a)["k"] == "This":
            return True
    for x in ir.walk(e):
        if match.this_field(x) == TREE:
            return True
        if x["k"] == "DeclRefExpr":
            d = x["ref"]["id"]
            if d in sk.alias and _key_slot(sk.alias[d]) is not None:
                return True
            v = sk.env.get(d)
            if isinstance(v, tuple) and len(v) == 2 and v[0] == "ptr" and _key_slot(v[1]) is not None:
                return True
    return False


def field_escapes(fn):
    """a reference or pointer to a single field of a node: stores through it are not seen by the evaluation"""
    for x in fn.nodes():
        if x["k"] == "VarDecl" and x.get("isref") and kids(x) and is_loser_member(kids(x)[0]):
            return "%s: reference to a node field" % fn.nloc(x)
        if x["k"] == "UnaryOperator" and x.get("op") == "&" and kids(x) and is_loser_member(kids(x)[0]):
            return "%s: address of a node field" % fn.nloc(x)
    return None


# ----------------------------------------------------------------------------
# closed world: is every operation of a function that can reach the tree one the evaluation models?
# ----------------------------------------------------------------------------
# The evaluation (REPLAY-PATH, PADDING) observes accesses to nodes as the skeleton executes them.  "This store / this access
# does not happen" may be concluded from it only if nothing in the function can touch the tree behind the evaluation's back:
# a call that receives a node, a field, a pointer / reference into the tree or the object itself and is neither executed by
# the skeleton nor one of the few operations modelled here (std::tie / tuple assignment, a lambda, memcpy, an unknown
# helper, a member function of the vector other than the accessors, ...), or a local of a type that is not a value of the
# player and is initialised from the tree (a tuple of references, an iterator object, a structured binding).  The scan is
# static (the whole text of the function, whatever the evaluation executes for the sizes it tries).

_CASTS = ("ImplicitCastExpr", "CStyleCastExpr", "CXXStaticCastExpr", "CXXFunctionalCastExpr", "CXXReinterpretCastExpr", "CXXConstCastExpr",
          "ParenExpr", "MaterializeTemporaryExpr", "ExprWithCleanups", "CXXBindTemporaryExpr", "ConstantExpr")
_PLAIN = ("bool", "char", "signed char", "unsigned char", "short", "unsigned short", "int", "unsigned int", "unsigned", "long", "unsigned long",
          "long long", "unsigned long long", "size_t", "std::size_t", "float", "double")
_PASS_THROUGH = ("move", "forward", "min", "max", "unused")
_COMPARE = ("==", "!=", "<", ">", "<=", ">=", "<=>")


def static_inlinable(fn, e):
    """engine/skel.py inline() executes the body of this call (the static twin of inlinable())"""
    if fn.tu is None or e["k"] == "CXXOperatorCallExpr" or "callee" not in e:
        return None
    callee = fn.tu.by_did.get(e["callee"].get("did"))
    if callee is None or callee.body is None or callee.did == fn.did or callee.kind in ("ctor", "dtor", "lambda"):
        return None
    args = [a for a in kids(e) if a is not None and a["k"] != "DefaultArg"]
    if e.get("member_call"):
        if not args or strip_casts(args[0])["k"] != "This":
            return None
        args = args[1:]
    return callee if len(args) == len(callee.params) else None


def unmodelled_tree_use(fn, extra=(), _depth=0, _seen=None):
    """None if every operation of fn (and of the project functions the skeleton executes for it) that can reach the tree
    is one the evaluation models; otherwise '<file:line>: <what>' for the first one that is not.  `extra`: names of further
    free functions the caller's evaluation models (std::fill / std::fill_n in the constructor)."""
    _seen = set() if _seen is None else _seen
    if fn.did in _seen or _depth > 4:
        return None
    _seen.add(fn.did)
    try:
        values = {_bare_type(f.get("ty")) for f in loser_fields(fn)}
    except ir.AnalysisBroken:
        values = set()

    def value_type(t):
        b = _bare_type(t)
        return b in values or b in _PLAIN or b.endswith("::Loser") or b in _RECORDS

    handles = {}         # local / parameter -> 'ref' | 'ptr' | 'object': it gives access to storage of the tree

    def conveys(e):
        """e designates storage of the tree (a node, a field of one, the vector) or is a pointer into it"""
        if e is None:
            return False
        k = e["k"]
        if k in _CASTS:
            return bool(kids(e)) and conveys(kids(e)[0])
        if match.this_field(e) == TREE:
            return True
        if k == "DeclRefExpr":
            return e["ref"]["id"] in handles
        if k == "MemberExpr":
            return bool(kids(e)) and conveys(kids(e)[0])
        ip = match.index_parts(e)
        if ip:
            return conveys(ip[0])
        if k == "UnaryOperator":
            return e.get("op") in ("&", "*", "++", "--") and conveys(kids(e)[0])
        if k in ("BinaryOperator", "CompoundAssignOperator"):
            op = e.get("op")
            if op == ",":
                return conveys(kids(e)[1])
            if op.endswith("=") and op not in _COMPARE:
                return conveys(kids(e)[0])
            if _bare_type(e.get("ty")).endswith("*"):
                return conveys(kids(e)[0]) or conveys(kids(e)[1])       # base + i
            return False
        if k == "ConditionalOperator":
            return conveys(kids(e)[1]) or conveys(kids(e)[2])
        if k == "InitListExpr":
            return False if value_type(e.get("ty")) else any(conveys(c) for c in kids(e))
        if "callee" in e:
            if tree_accessor(e, 1) is not None:
                return e["callee"]["name"] != "size"
            if value_type(e.get("ty")) and not (e.get("lv") or (e.get("ty") or "").rstrip().endswith("&")):
                return False                       # a value of the player (a copy of a node, a key, an index)
            return any(conveys(a) for a in kids(e))
        return False

    def handle_kind(v):
        ty = v.get("ty") or ""
        if v["k"] != "VarDecl" or not v.get("name"):
            return "object"                  # auto& [a, b] = losers_[0]: which field a binding names is not in the tree the rules see
        if v.get("isref") or ty.rstrip().endswith("&"):
            return "ref"
        b = _bare_type(ty)
        if b.endswith("*"):
            return "ptr" if _bare_type(b[:-1]).endswith("::Loser") else None     # keyp is a value of the player
        return None if value_type(ty) else "object"

    if _depth:
        for p_ in fn.params:
            ty = (p_.get("ty") or "").rstrip()
            if "Loser" in ty and (ty.endswith("&") or ty.endswith("*")):
                handles[p_["did"]] = "ref" if ty.endswith("&") else "ptr"
    changed = True
    while changed:
        changed = False
        for x in fn.nodes():
            if x["k"] in ("VarDecl", "DecompositionDecl", "BindingDecl") and x.get("did") is not None and x["did"] not in handles:
                init = kids(x)[0] if kids(x) else None
                if init is not None and conveys(init) and handle_kind(x):
                    handles[x["did"]] = handle_kind(x)
                    changed = True
            b = match.binop(x, ("=",)) if x["k"] == "BinaryOperator" else None
            if b and ref_of(b[1]) is not None and ref_of(b[1]) not in handles and conveys(b[2]) and \
                    _bare_type(strip_casts(b[1]).get("ty")).endswith("*"):
                handles[ref_of(b[1])] = "ptr"
                changed = True
    for x in fn.nodes():
        if x["k"] in ("VarDecl", "DecompositionDecl", "BindingDecl") and handles.get(x.get("did")) == "object":
            return "%s: local %s of type %s is initialised from the tree: accesses through it are not modelled" \
                % (fn.nloc(x), x.get("name"), x.get("ty"))

    def bare_this(e, under_member=False):
        if e is None:
            return False
        if e["k"] == "This":
            return not under_member
        if e["k"] in _CASTS:
            return bool(kids(e)) and bare_this(kids(e)[0], under_member)
        if e["k"] == "MemberExpr":
            return any(bare_this(c, True) for c in kids(e))
        if "callee" in e:
            return False                           # looked at on its own
        return any(bare_this(c) for c in kids(e))

    def lambda_of(f):
        d = ref_of(f)
        if d is None:
            return None
        for x in fn.nodes():
            if x["k"] == "VarDecl" and x.get("did") == d and kids(x):
                init = kids(x)[0]
                while init is not None and init["k"] != "LambdaExpr" and len(kids(init)) == 1:
                    init = kids(init)[0]
                if init is not None and init["k"] == "LambdaExpr":
                    return init
        return None

    def modelled(c, args):
        name, k = c["callee"]["name"], c["k"]
        member = bool(c.get("member_call"))
        ip = match.index_parts(c)
        if ip:
            return not conveys(ip[1])                                     # losers_[i], p[i]
        if tree_accessor(c, 1) is not None:
            return True
        if name == "swap" and not member and len(args) == 2 and k == "CallExpr":
            return True
        fc = match.functor_call(c)
        if fc and match.this_field(fc[0]) == "cmp_":
            return True                                                   # the comparator reads its operands
        if name in _PASS_THROUGH and not member and k == "CallExpr":
            return True
        if name in extra and not member and k == "CallExpr":
            return True
        if k in ("CXXConstructExpr", "CXXTemporaryObjectExpr"):
            return len(args) == 1 and _bare_type(args[0].get("ty")) == _bare_type(c.get("ty")) and value_type(c.get("ty"))   # a copy of a player / key
        if fc and k == "CXXOperatorCallExpr":
            lam = lambda_of(fc[0])
            lf = fn.tu.by_did.get(lam.get("fn")) if lam is not None and fn.tu is not None else None
            if lf is None or lf.body is None or len(lf.params) != len(fc[1]):
                return False
            for a, p_ in zip(fc[1], lf.params):
                ty = (p_.get("ty") or "").strip()
                if conveys(a) and (ty.endswith("*") or (ty.endswith("&") and not ty.startswith("const "))):
                    return False                                          # the lambda may store through this parameter
            return not bare_this(fc[0])                                    # reads only; what its body reaches by itself is scanned at the LambdaExpr
        if k == "CXXOperatorCallExpr":
            op = c.get("op")
            if op == "=" and len(args) == 2:
                lhs = strip_casts(args[0])
                if (is_loser_member(lhs) and not match.this_field(lhs)) or is_loser_object(lhs):
                    return True                                           # the evaluation takes these apart
                return lhs["k"] == "DeclRefExpr" and lhs["ref"]["id"] not in handles and value_type(lhs.get("ty"))
            if op in _COMPARE or op in ("+", "-", "*", "->"):
                return True                                               # reads / iterator arithmetic
            if op in ("++", "--", "+=", "-=") and args:
                return ref_of(args[0]) is not None and handles.get(ref_of(args[0])) != "ref"      # a local iterator steps
            return False
        callee = static_inlinable(fn, c)
        if callee is not None:
            return True                                                   # executed by the skeleton; its body is scanned below
        return False

    for c in fn.nodes():
        if c["k"] in ("CompoundAssignOperator", "UnaryOperator") and (c["k"] == "CompoundAssignOperator" or c.get("op") in ("++", "--")):
            t = strip_casts(kids(c)[0]) if kids(c) else None
            if t is not None and is_loser_member(t) and not match.this_field(t) and conveys(t):
                return "%s: a node field is updated in place: %s" % (fn.nloc(c), dtable.describe(c)[:80])
        if c["k"] == "LambdaExpr":
            lf = fn.tu.by_did.get(c.get("fn")) if fn.tu is not None else None
            if lf is None or lf.body is None:
                return "%s: body of a lambda is not known" % fn.nloc(c)
            for y in lf.nodes():
                if match.this_field(y) == TREE or (y["k"] == "DeclRefExpr" and y["ref"]["id"] in handles):
                    return "%s: a lambda reaches into the tree (its body is not executed by the evaluation)" % fn.nloc(c)
        if c["k"] in ("CXXNewExpr", "CXXDeleteExpr", "CXXForRangeStmt") and any(conveys(y) for y in ir.walk(c) if y is not c):
            return "%s: %s over the tree" % (fn.nloc(c), c["k"])
        if "callee" not in c:
            continue
        args = [a for a in kids(c) if a is not None and a["k"] != "DefaultArg"]
        if not any(conveys(a) or bare_this(a) for a in args):
            continue
        if not modelled(c, args):
            return "%s: call not understood: %s" % (fn.nloc(c), dtable.describe(c)[:80])
        callee = static_inlinable(fn, c)
        if callee is not None:
            r = unmodelled_tree_use(callee, extra, _depth + 1, _seen)
            if r:
                return r
    return None


# ----------------------------------------------------------------------------
# REPLAY-PATH
# ----------------------------------------------------------------------------

class _PathWrong(Exception):
    def __init__(self, sig, msg, node):
        Exception.__init__(self, msg)
        self.sig, self.msg, self.node = sig, msg, node


# ----------------------------------------------------------------------------
# a switch in the loop body, written as the if-chain it stands for
# ----------------------------------------------------------------------------

_fresh = [1 << 40]


def _fresh_id():
    _fresh[0] += 1
    return _fresh[0]


def _own_break(s):
    """s holds a `break` that leaves the enclosing switch (not one of a loop / switch nested in s)"""
    if s is None:
        return False
    if s["k"] == "BreakStmt":
        return True
    if s["k"] in ("WhileStmt", "ForStmt", "DoStmt", "CXXForRangeStmt", "SwitchStmt", "LambdaExpr"):
        return False
    return any(_own_break(c) for c in kids(s))


def _as_list(s):
    if s is None:
        return []
    return list(kids(s)) if s["k"] == "CompoundStmt" else [s]


def _block(stmts, like):
    return {"k": "CompoundStmt", "id": _fresh_id(), "l": like.get("l"), "ch": stmts}


def _switch_arm(fn, stmts, cont):
    """the statements of a switch from one label on, as straight code: `break` and the end of the switch continue with
    `cont` (the statements that follow the switch), a statement with a `break` inside takes the rest of the arm into its
    branches; `continue` / `return` end the arm.  Labels further down are fallen through."""
    out = []
    stmts = list(stmts)
    while stmts:
        s = stmts.pop(0)
        if s is None or s["k"] == "NullStmt":
            continue
        k = s["k"]
        if k == "BreakStmt":
            return out + cont
        if k in ("ContinueStmt", "ReturnStmt"):
            return out + [s]
        if k in ("AttributedStmt", "CaseStmt", "DefaultStmt"):
            stmts = [c for c in kids(s) if c is not None and "k" in c and not c["k"].endswith("Attr")] + stmts      # [[fallthrough]]; a label
            continue
        if _own_break(s):
            if k == "IfStmt" and "init" not in s and "condvar" not in s:
                c, t, e = (list(kids(s)) + [None, None])[:3]
                new = dict(s)
                new["id"] = _fresh_id()
                new["ch"] = [c, _block(_switch_arm(fn, _as_list(t) + stmts, cont), s), _block(_switch_arm(fn, _as_list(e) + stmts, cont), s)]
                return out + [new]
            if k == "CompoundStmt":
                stmts = list(kids(s)) + stmts
                continue
            raise dtable.Undecidable("%s: break of a switch inside %s" % (fn.nloc(s), k))
        out.append(s)
    return out + cont


def lower_switches(fn, stmts):
    """the statement list with every switch replaced by the chain  if (sel == c1) {...} else if (sel == c2) {...} else
    {default}  that it stands for (the statements after the switch become the continuation of every arm that leaves it);
    engine/dtable.py does not interpret a switch.  The selector must be free of side effects (it is evaluated per test)."""
    out = []
    stmts = list(stmts)
    for i, s in enumerate(stmts):
        if s is None:
            continue
        if s["k"] == "SwitchStmt" and len(kids(s)) == 2 and "init" not in s and "condvar" not in s:
            sel, body = kids(s)
            for x in ir.walk(sel):
                if x["k"] in ("CompoundAssignOperator", "LambdaExpr") or (x["k"] == "BinaryOperator" and x.get("op") == "=") or \
                        (x["k"] == "UnaryOperator" and x.get("op") in ("++", "--")) or \
                        ("callee" in x and not (match.index_parts(x) or match.functor_call(x) or match.deref_of(x))):
                    raise dtable.Undecidable("%s: switch on an expression with side effects" % fn.nloc(s))
            cont = lower_switches(fn, stmts[i + 1:])
            flat = []         # ('case', value) | ('default', None) | ('stmt', node), in the order of the text

            def add(x):
                if x is None:
                    return
                if x["k"] == "CaseStmt":
                    if x.get("val") is None:
                        raise dtable.Undecidable("%s: case label not understood" % fn.nloc(x))
                    flat.append(("case", x["val"]))
                    for c in kids(x):
                        add(c)
                elif x["k"] == "DefaultStmt":
                    flat.append(("default", None))
                    for c in kids(x):
                        add(c)
                else:
                    flat.append(("stmt", x))
            for x in _as_list(body):
                add(x)
            if flat and flat[0][0] == "stmt":
                flat = flat[next((j for j, f in enumerate(flat) if f[0] != "stmt"), len(flat)):]      # not reachable
            chain = None
            dflt = cont
            tests = []
            for j, f in enumerate(flat):
                if f[0] == "stmt":
                    continue
                arm = lower_switches(fn, _switch_arm(fn, [g[1] for g in flat[j + 1:] if g[0] == "stmt"], cont))
                if f[0] == "default":
                    dflt = arm
                else:
                    tests.append((f[1], arm))
            chain = _block(dflt, s)
            for val, arm in reversed(tests):
                lit = {"k": "IntegerLiteral", "id": _fresh_id(), "l": s.get("l"), "ty": sel.get("ty"), "val": int(val)}
                cond = {"k": "BinaryOperator", "id": _fresh_id(), "l": s.get("l"), "op": "==", "ty": "bool", "ch": [sel, lit], "switch_test": True}
                if s.get("f"):
                    cond["f"] = s["f"]
                chain = {"k": "IfStmt", "id": _fresh_id(), "l": s.get("l"), "ch": [cond, _block(arm, s), chain]}
            return out + [chain]
        if s["k"] in ("IfStmt", "CompoundStmt", "WhileStmt", "ForStmt", "DoStmt") and any(x["k"] == "SwitchStmt" for x in ir.walk(s)):
            new = dict(s)
            new["id"] = _fresh_id()
            if s["k"] == "CompoundStmt":
                new["ch"] = lower_switches(fn, kids(s))
            elif s["k"] != "IfStmt":
                at = {"WhileStmt": 1, "ForStmt": 3, "DoStmt": 0}[s["k"]]          # the loop's body; a switch never sits in its head
                new["ch"] = [(_block(lower_switches(fn, _as_list(c)), s) if i_ == at and c is not None else c) for i_, c in enumerate(kids(s))]
            else:
                c, t, e = (list(kids(s)) + [None, None])[:3]
                new["ch"] = [c, _block(lower_switches(fn, _as_list(t)), s) if t is not None else None,
                             _block(lower_switches(fn, _as_list(e)), s) if e is not None else None]
            s = new
        out.append(s)
    return out


# ----------------------------------------------------------------------------
# std::tie packs: a tuple of references is the list of objects it names
# ----------------------------------------------------------------------------

def _clone(n):
    """deep copy of an expression with fresh node ids"""
    if n is None:
        return None
    out = dict(n)
    out["id"] = _fresh_id()
    if "ch" in n:
        out["ch"] = [_clone(c) for c in n["ch"]]
    return out


def _through_temporaries(e):
    e = strip_casts(e)
    while e is not None and e["k"] in ("MaterializeTemporaryExpr", "ExprWithCleanups", "CXXBindTemporaryExpr", "ParenExpr") and kids(e):
        e = strip_casts(kids(e)[0])
    return e


def _map_statements(s, f, drop=()):
    """a copy of the statement s in which every expression statement x is replaced by f(x) and the declarations of the
    locals in `drop` are removed; conditions, initialisers and other operands are left alone"""
    if s is None:
        return None
    k = s["k"]
    if k == "DeclStmt":
        keep = [v for v in kids(s) if not (v["k"] == "VarDecl" and v.get("did") in drop)]
        if len(keep) == len(kids(s)):
            return s
        if not keep:
            return {"k": "NullStmt", "id": _fresh_id(), "l": s.get("l")}
        new = dict(s)
        new["ch"] = keep
        return new
    if k in ("CompoundStmt", "IfStmt", "WhileStmt", "ForStmt", "DoStmt", "SwitchStmt", "CaseStmt", "DefaultStmt", "AttributedStmt", "LabelStmt"):
        new = dict(s)
        ch = []
        for i, c in enumerate(kids(s)):
            is_stmt = k in ("CompoundStmt", "CaseStmt", "DefaultStmt", "AttributedStmt", "LabelStmt") or \
                (k == "IfStmt" and i >= 1) or (k == "WhileStmt" and i == 1) or (k == "DoStmt" and i == 0) or \
                (k == "ForStmt" and i in (0, 3)) or (k == "SwitchStmt" and i == 1)
            ch.append(_map_statements(c, f, drop) if is_stmt else c)
        new["ch"] = ch
        return new
    if k in ("NullStmt", "BreakStmt", "ContinueStmt", "ReturnStmt", "GotoStmt", "CXXTryStmt", "CXXForRangeStmt"):
        return s
    return f(s)


def _pure_designator(m):
    """the expression names an object without doing anything: no assignment, no call other than subscripts and the accessors
    of the tree"""
    for x in ir.walk(m):
        if x["k"] in ("CompoundAssignOperator", "LambdaExpr") or (x["k"] == "BinaryOperator" and (x.get("op") or "").endswith("=") and
                                                                 x.get("op") not in ("==", "!=", "<=", ">=")):
            return False
        if x["k"] == "UnaryOperator" and x.get("op") in ("++", "--"):
            return False
        if "callee" in x and not (match.index_parts(x) or tree_accessor(x, 1) is not None):
            return False
    return True


def _written_locals(root):
    out = set()
    for x in ir.walk(root):
        b = match.binop(x) if x["k"] in ("BinaryOperator", "CompoundAssignOperator", "CXXOperatorCallExpr") else None
        if b and b[0].endswith("=") and b[0] not in ("==", "!=", "<=", ">=") and ref_of(b[1]) is not None:
            out.add(ref_of(b[1]))
        u = match.unop(x, ("++", "--")) if x["k"] in ("UnaryOperator", "CXXOperatorCallExpr") else None
        if u and ref_of(u[1]) is not None:
            out.add(ref_of(u[1]))
    return out


def inline_local_lambdas(fn):
    """`auto play = [&](Loser& n) { ... };  play(losers_[pos]);`: a call of a local lambda that stands as a statement is
    replaced by the lambda's body (reference parameters name the argument, value parameters become locals, the body's own
    locals get fresh identities).  Captures must be by reference (or `this`): the body then sees the caller's locals as
    they are at the call, which is what the pasted text does.  The lambda's body must be straight code without `return`.
    A lambda all of whose uses are such calls disappears; one that is also used otherwise (as a condition: see
    lambda_condition) keeps its declaration.  Nothing is touched if a condition is not met."""
    body = fn.body
    if body is None or fn.tu is None or not any(x["k"] == "LambdaExpr" for x in ir.walk(body)):
        return False
    lambdas = {}
    for x in ir.walk(body):
        if x["k"] != "VarDecl" or not kids(x) or kids(x)[0] is None:
            continue
        init = kids(x)[0]
        while init is not None and init["k"] != "LambdaExpr" and len(kids(init)) == 1 and \
                init["k"] in ("ExprWithCleanups", "MaterializeTemporaryExpr", "CXXConstructExpr", "ImplicitCastExpr", "CXXBindTemporaryExpr"):
            init = kids(init)[0]
        if init is None or init["k"] != "LambdaExpr":
            continue
        lf = fn.tu.by_did.get(init.get("fn"))
        if lf is None or lf.body is None or "captures" not in init:
            continue
        if not all(c.get("name") == "this" or c.get("byref") for c in init["captures"]):
            continue
        if any(y["k"] in ("ReturnStmt", "LambdaExpr", "GotoStmt", "LabelStmt", "CXXTryStmt") for y in ir.walk(lf.body)):
            continue
        lambdas[x["did"]] = (x, lf)
    if not lambdas:
        return False
    done = [0]

    def paste(lf, args, at):
        subst, rename, pre = {}, {}, []
        writes = _written_locals(lf.body)
        for p_, a in zip(lf.params, args):
            ty = (p_.get("ty") or "").rstrip()
            if ty.endswith("&&"):
                return None
            if ty.endswith("&"):
                if not _pure_designator(a) or not strip_casts(a).get("lv"):
                    return None
                if any(y["k"] == "DeclRefExpr" and y["ref"]["id"] in writes for y in ir.walk(a)):
                    return None              # the body changes what the argument is spelled with
                subst[p_["did"]] = a
            else:
                nd = _fresh_id()
                rename[p_["did"]] = nd
                v = {"k": "VarDecl", "id": _fresh_id(), "did": nd, "name": p_.get("name"), "ty": p_.get("ty"), "l": at.get("l"), "ch": [_clone(a)]}
                pre.append({"k": "DeclStmt", "id": _fresh_id(), "l": at.get("l"), "ch": [v]})
        for y in ir.walk(lf.body):
            if y["k"] == "VarDecl" and y.get("did") is not None:
                rename[y["did"]] = _fresh_id()

        def cp(n):
            if n is None:
                return None
            if n["k"] == "DeclRefExpr":
                d = n["ref"]["id"]
                if d in subst:
                    return _clone(subst[d])
                out = dict(n)
                out["id"] = _fresh_id()
                if d in rename:
                    out["ref"] = dict(n["ref"], id=rename[d], kind="local")
                return out
            out = dict(n)
            out["id"] = _fresh_id()
            if n["k"] == "VarDecl" and n.get("did") in rename:
                out["did"] = rename[n["did"]]
            if "ch" in n:
                out["ch"] = [cp(c) for c in n["ch"]]
            for key in ("init", "condvar"):
                if isinstance(n.get(key), dict):
                    out[key] = cp(n[key])
            return out
        return _block(pre + [cp(c) for c in _as_list(lf.body)], at)

    def rw(s):
        e0 = _through_temporaries(s)
        fc = match.functor_call(e0) if e0 is not None and e0["k"] == "CXXOperatorCallExpr" else None
        if fc and ref_of(fc[0]) in lambdas:
            lf = lambdas[ref_of(fc[0])][1]
            args = [a for a in fc[1] if a is not None]
            if len(args) == len(lf.params) and not any(a["k"] == "DefaultArg" for a in args):
                blk = paste(lf, args, e0)
                if blk is not None:
                    done[0] += 1
                    return blk
        return s

    new_body = _map_statements(body, rw)
    if not done[0]:
        return False
    gone = {d for d in lambdas if not any(y["k"] == "DeclRefExpr" and y["ref"]["id"] == d for y in ir.walk(new_body))}
    if gone:
        new_body = _map_statements(new_body, lambda s_: s_, gone)
    fn.body = new_body
    fn._byid = None
    return True


def lower_exchange(fn):
    """`x = std::exchange(a, b);` written out as  { T old = a;  a = b;  x = old; }  (what std::exchange does, in its order);
    `std::exchange(a, b);` alone as  a = b;.  `a` must name its object without side effects."""
    body = fn.body
    if body is None or not any("callee" in x and x["callee"].get("qname") == "std::exchange" for x in ir.walk(body)):
        return False
    done = [0]

    def exchange_call(e):
        e = _through_temporaries(match.strip_conv(e))
        if e is not None and "callee" in e and e["callee"].get("qname") == "std::exchange" and e["k"] == "CallExpr" and \
                len([a for a in kids(e) if a is not None]) == 2:
            return kids(e)[0], kids(e)[1]
        return None

    def assign(l, r, at):
        n = {"k": "BinaryOperator", "id": _fresh_id(), "l": at.get("l"), "ty": l.get("ty"), "lv": True, "op": "=", "ch": [l, r], "synthetic": True}
        if at.get("f"):
            n["f"] = at["f"]
        return n

    def rw(s):
        e0 = _through_temporaries(s)
        if e0 is None:
            return s
        x = exchange_call(e0)
        if x and _pure_designator(x[0]):
            done[0] += 1
            return _block([assign(_clone(x[0]), _clone(x[1]), e0)], s)
        b = match.binop(e0, ("=",)) if e0["k"] in ("BinaryOperator", "CXXOperatorCallExpr") else None
        x = exchange_call(b[2]) if b else None
        if x and _pure_designator(x[0]) and _pure_designator(b[1]):
            nd = _fresh_id()
            ty = _bare_type(strip_casts(x[0]).get("ty"))
            v = {"k": "VarDecl", "id": _fresh_id(), "did": nd, "name": "exchanged", "ty": ty, "l": e0.get("l"), "ch": [_clone(x[0])]}
            old = {"k": "DeclRefExpr", "id": _fresh_id(), "l": e0.get("l"), "lv": True, "ty": ty, "ref": {"id": nd, "kind": "local", "name": "exchanged", "vty": ty}}
            done[0] += 1
            return _block([{"k": "DeclStmt", "id": _fresh_id(), "l": e0.get("l"), "ch": [v]}, assign(_clone(x[0]), _clone(x[1]), e0),
                           assign(_clone(b[1]), old, e0)], s)
        return s

    new_body = _map_statements(body, rw)
    if not done[0]:
        return False
    fn.body = new_body
    fn._byid = None
    return True


def expand_reference_packs(fn):
    """`auto cand = std::tie(sup, source, key);  auto node = std::tie(n.sup, n.source, n.key);  cand.swap(node);
    std::tie(losers_[0].sup, ...) = cand;` written out member by member: swap(sup, n.sup); swap(source, n.source); ...
    A tuple made by std::tie holds references only: it IS the list of the objects named, and swap / assignment of two such
    tuples is the same operation on every pair of members, in order.  The function body is replaced by the expanded one
    (fn.body; the extracted tree itself is not changed) only if every use of every pack is one of these forms, every
    member names its object without side effects, and no index used in a member changes between the std::tie and a use;
    otherwise nothing is touched (the closed-world scan then finds the tuple and no absence is concluded)."""
    body = fn.body
    if body is None or not any("callee" in x and x["callee"].get("qname") == "std::tie" for x in ir.walk(body)):
        return False
    order = {x["id"]: i for i, x in enumerate(ir.walk(body))}
    packs = {}           # declaration id -> (VarDecl, members)
    for x in ir.walk(body):
        if x["k"] == "VarDecl" and kids(x) and kids(x)[0] is not None:
            i0 = _through_temporaries(kids(x)[0])
            if i0 is not None and "callee" in i0 and i0["callee"].get("qname") == "std::tie" and i0["k"] == "CallExpr":
                packs[x["did"]] = (x, [a for a in kids(i0)])

    def members(e):
        e = _through_temporaries(e)
        if e is None:
            return None
        if e["k"] == "DeclRefExpr" and e["ref"]["id"] in packs:
            return packs[e["ref"]["id"]][1], e["ref"]["id"]
        if "callee" in e and e["callee"].get("qname") == "std::tie" and e["k"] == "CallExpr":
            return list(kids(e)), None
        return None

    def values(e):
        """std::make_tuple(a, b, c) / std::make_pair(a, b): the values, taken before anything is assigned"""
        e = _through_temporaries(match.strip_conv(e))
        if e is not None and "callee" in e and e["callee"].get("qname") in ("std::make_tuple", "std::make_pair") and e["k"] == "CallExpr":
            return [a for a in kids(e) if a is not None]
        return None

    def independent(targets, vals):
        """assigning vals[i] to targets[i] one after the other is the same as assigning them all at once: no value reads
        what an earlier assignment writes"""
        for m in vals:
            if not pure(m):
                return False
        for i, t in enumerate(targets):
            for v in vals[i + 1:]:
                for x in ir.walk(v):
                    if x.get("lv") and (match.same_expr(x, t) or (ref_of(x) is not None and ref_of(x) == ref_of(t))):
                        return False
                    if x["k"] == "DeclRefExpr" and x["ref"].get("kind") not in ("local", "param", "global", None) :
                        return False
                    if x["k"] in ("MemberExpr", "UnaryOperator") and x.get("lv") and ref_of(t) is None and not match.this_field(x):
                        return False          # a field / *p next to a target that is a field: they may be the same object
        return True

    pure = _pure_designator

    uses = {d: [] for d in packs}      # pack -> text positions of the statements that use it
    failed = []

    def expand(e):
        """the statements that the expression statement e stands for, or None if e is not an operation on packs"""
        e0 = _through_temporaries(e)
        if e0 is None or "callee" not in e0:
            return None
        a = [x for x in kids(e0) if x is not None]
        name = e0["callee"]["name"]
        kind = None
        if name == "swap" and len(a) == 2 and e0["k"] in ("CXXMemberCallExpr", "CallExpr"):
            kind = "swap"
        elif e0["k"] == "CXXOperatorCallExpr" and e0.get("op") == "=" and len(a) == 2:
            kind = "="
        if kind is None:
            return None
        l, r = members(a[0]), members(a[1])
        if l is not None and r is None and kind == "=" and values(a[1]) is not None and len(values(a[1])) == len(l[0]) and \
                independent(l[0], values(a[1])):
            r = (values(a[1]), None)
        if l is None and r is None:
            return None
        if l is None or r is None or len(l[0]) != len(r[0]):
            failed.append(e0)
            return None
        for d in (l[1], r[1]):
            if d is not None:
                uses[d].append(order.get(e0["id"], 0))
        out = []
        for x, y in zip(l[0], r[0]):
            if kind == "swap":
                n = {"k": "CallExpr", "id": _fresh_id(), "l": e0.get("l"), "ty": "void", "callee": {"name": "swap", "qname": "std::swap", "did": None},
                     "ch": [_clone(x), _clone(y)], "synthetic": True}
            else:
                n = {"k": "BinaryOperator", "id": _fresh_id(), "l": e0.get("l"), "ty": x.get("ty"), "lv": True, "op": "=", "ch": [_clone(x), _clone(y)],
                     "synthetic": True}
            if e0.get("f"):
                n["f"] = e0["f"]
            out.append(n)
        return out

    def rw(s):
        ex = expand(s)
        return _block(ex, s) if ex is not None else s

    new_body = _map_statements(body, rw, set(packs))
    if failed:
        return False
    for x in list(ir.walk(new_body)) + [y for i_ in fn.inits if i_.get("e") for y in ir.walk(i_["e"])]:
        if (x["k"] == "DeclRefExpr" and x["ref"]["id"] in packs) or ("callee" in x and x["callee"].get("qname") == "std::tie"):
            return False                 # a use that is not one of the forms above
    loops = [{y["id"] for y in ir.walk(x)} for x in ir.walk(body) if x["k"] in ("WhileStmt", "ForStmt", "DoStmt")]
    writes = []          # (variable, text position, node id)
    for x in ir.walk(body):
        b = match.binop(x) if x["k"] in ("BinaryOperator", "CompoundAssignOperator", "CXXOperatorCallExpr") else None
        if b and b[0].endswith("=") and b[0] not in ("==", "!=", "<=", ">=") and ref_of(b[1]) is not None:
            writes.append((ref_of(b[1]), order[x["id"]], x["id"]))
        u = match.unop(x, ("++", "--")) if x["k"] in ("UnaryOperator", "CXXOperatorCallExpr") else None
        if u and ref_of(u[1]) is not None:
            writes.append((ref_of(u[1]), order[x["id"]], x["id"]))
    for d, (decl, mem) in packs.items():
        if not all(pure(m) for m in mem):
            return False
        index_vars = set()
        for m in mem:
            if ref_of(m) is not None:
                continue                 # a plain local / parameter: the reference names the variable itself
            for y in ir.walk(m):
                if y["k"] == "DeclRefExpr":
                    index_vars.add(y["ref"]["id"])
        at = order[decl["id"]]
        last = max(uses[d]) if uses[d] else at
        for v, w, wid in writes:
            if v not in index_vars:
                continue
            if at < w < last:
                return False             # the member would name another node at the use than at the std::tie
            for lp in loops:
                if wid in lp and decl["id"] not in lp and any(order_id in lp for order_id in _ids_at(body, uses[d], order)):
                    return False         # bound before a loop that changes the index and uses the pack
    fn.body = new_body
    fn._byid = None
    return True


def _ids_at(body, positions, order):
    pos = set(positions)
    return [i for i, o in order.items() if o in pos]


def code_value(e, run):
    """value of an integer code assembled from conditions ((keyp ? 2 : 0) | (node.keyp ? 1 : 0), 2 * a + b, (int)a << 1),
    the conditions decided by the decision-table run; None if e is something else"""
    if e is None:
        return None
    if (e.get("ty") or "").replace("const ", "") == "bool":
        return int(run.truth(e))
    c = const_int(e)
    if c is not None:
        return c
    k = e["k"]
    if k in _CASTS:
        return code_value(kids(e)[0], run) if kids(e) else None
    if k == "ConditionalOperator":
        c0, a, b = kids(e)
        return code_value(a if run.truth(c0) else b, run)
    if k == "BinaryOperator" and e.get("op") in ("|", "&", "^", "+", "-", "*", "<<", ">>"):
        a, b = code_value(kids(e)[0], run), code_value(kids(e)[1], run)
        if a is None or b is None or (e["op"] in ("<<", ">>") and not 0 <= b < 32):
            return None
        return {"|": a | b, "&": a & b, "^": a ^ b, "+": a + b, "-": a - b, "*": a * b, "<<": a << b, ">>": a >> b}[e["op"]]
    return None


def _copy_renamed(n, rename, subst=None):
    """deep copy of a statement / expression with fresh node ids; the declarations in `rename` (id -> new id) become locals
    of the new identity, a reference to a declaration in `subst` is replaced by a copy of the expression given there"""
    if n is None:
        return None
    if n["k"] == "DeclRefExpr":
        d = n["ref"]["id"]
        if subst and d in subst:
            return _clone(subst[d])
        out = dict(n)
        out["id"] = _fresh_id()
        if d in rename:
            out["ref"] = dict(n["ref"], id=rename[d], kind="local")
        return out
    out = dict(n)
    out["id"] = _fresh_id()
    if n["k"] == "VarDecl" and n.get("did") in rename:
        out["did"] = rename[n["did"]]
    if "ch" in n:
        out["ch"] = [_copy_renamed(c, rename, subst) for c in n["ch"]]
    for key in ("init", "condvar"):
        if isinstance(n.get(key), dict):
            out[key] = _copy_renamed(n[key], rename, subst)
    return out


def _self_call(callee, e):
    """the arguments if the expression e is this->callee(args...) with one argument per parameter"""
    e = _through_temporaries(e)
    if e is None or e["k"] != "CXXMemberCallExpr" or not e.get("member_call") or "callee" not in e or e["callee"].get("did") != callee.did:
        return None
    args = [a for a in kids(e) if a is not None]
    if not args or strip_casts(args[0]) is None or strip_casts(args[0])["k"] != "This":
        return None
    args = args[1:]
    if len(args) != len(callee.params) or any(a["k"] == "DefaultArg" for a in args):
        return None
    return args


def lower_tail_recursion(fn):
    """`replay(start, Loser{ source, keyp });` standing as a statement of the function, where the private member
         void replay(Source pos, Loser c) { if (pos == 0) { A; return; }  B;  replay(pos / 2, c); }
    calls itself exactly once, as its last statement, and returns nowhere but in the base case it begins with, is written
    out as the loop it stands for:
         Source pos = start;  Loser c = Loser{ source, keyp };  while (!(pos == 0)) { B;  pos = pos / 2; }  A;
    Parameters are taken by value (each call works on its own copies; the loop's locals are the copies of the innermost
    call, the only ones still read).  A parameter the recursive call passes on unchanged keeps its value; the others are
    assigned at the end of the body, which is right one after the other only if no new value reads a parameter assigned
    before it.  The base-case test must be free of side effects.  Nothing is touched if a condition is not met."""
    body = fn.body
    if body is None or fn.tu is None or body["k"] != "CompoundStmt":
        return False
    out, done = [], 0
    for s in kids(body):
        blk = None
        e0 = _through_temporaries(s) if s is not None else None
        callee = fn.tu.by_did.get(e0["callee"].get("did")) if e0 is not None and e0["k"] == "CXXMemberCallExpr" and "callee" in e0 else None
        if callee is not None and callee.body is not None and callee.did != fn.did and callee.kind == "method" and callee.record == fn.record:
            args = _self_call(callee, e0)
            if args is not None:
                blk = _tail_loop(fn, callee, args, e0)
        if blk is None:
            out.append(s)
        else:
            out.extend(blk)
            done += 1
    if not done:
        return False
    fn.body = dict(body, ch=out)
    fn._byid = None
    return True


def _tail_loop(fn, callee, args, at):
    stmts = [s for s in kids(callee.body) if s is not None and s["k"] != "NullStmt"] if callee.body["k"] == "CompoundStmt" else []
    if len(stmts) < 2:
        return None
    first, last = stmts[0], stmts[-1]
    rec = _self_call(callee, last)
    if rec is None:
        return None
    if first["k"] != "IfStmt" or "init" in first or "condvar" in first:
        return None
    c, t, e = (list(kids(first)) + [None, None])[:3]
    if e is not None or c is None or t is None or not _pure_designator(c):
        return None
    base = [x for x in _as_list(t) if x is not None and x["k"] != "NullStmt"]
    if not base or base[-1]["k"] != "ReturnStmt" or any(x is not None for x in kids(base[-1])):
        return None
    base = base[:-1]
    middle = stmts[1:-1]
    for x in ir.walk(callee.body):
        if x["k"] in ("LambdaExpr", "GotoStmt", "LabelStmt", "CXXTryStmt", "BreakStmt", "ContinueStmt"):
            return None
        if x["k"] == "ReturnStmt" and x is not (_as_list(t) or [None])[-1]:
            return None
        if "callee" in x and x["callee"].get("did") == callee.did and x is not _through_temporaries(last):
            return None
    for x in ir.walk(t):
        if x["k"] == "ReturnStmt" and x is not _as_list(t)[-1]:
            return None
    if any(x["k"] == "ReturnStmt" for s_ in middle for x in ir.walk(s_)):
        return None
    rename = {}
    for p_ in callee.params:
        ty = (p_.get("ty") or "").rstrip()
        if ty.endswith("&") or ty.endswith("]") or p_.get("did") is None:
            return None
        rename[p_["did"]] = _fresh_id()
    for y in ir.walk(callee.body):
        if y["k"] == "VarDecl" and y.get("did") is not None:
            rename[y["did"]] = _fresh_id()
    steps, assigned = [], []
    for p_, r in zip(callee.params, rec):
        r0 = _through_temporaries(match.strip_conv(r))
        if r0 is not None and r0["k"] == "DeclRefExpr" and r0["ref"]["id"] == p_["did"]:
            continue                                 # passed on as it is
        if any(y["k"] == "DeclRefExpr" and y["ref"]["id"] in assigned for y in ir.walk(r)) or not _pure_designator(r):
            return None
        assigned.append(p_["did"])
        ty = _bare_type(p_.get("ty"))
        lhs = {"k": "DeclRefExpr", "id": _fresh_id(), "l": last.get("l"), "lv": True, "ty": ty,
               "ref": {"id": rename[p_["did"]], "kind": "local", "name": p_.get("name"), "vty": ty}}
        n = {"k": "BinaryOperator", "id": _fresh_id(), "l": last.get("l"), "ty": ty, "lv": True, "op": "=",
             "ch": [lhs, _copy_renamed(r, rename)], "synthetic": True}
        if last.get("f"):
            n["f"] = last["f"]
            lhs["f"] = last["f"]
        steps.append(n)
    if not steps:
        return None
    pre = []
    for p_, a in zip(callee.params, args):
        v = {"k": "VarDecl", "id": _fresh_id(), "did": rename[p_["did"]], "name": p_.get("name"), "ty": _bare_type(p_.get("ty")), "l": at.get("l"),
             "ch": [_clone(a)]}
        d = {"k": "DeclStmt", "id": _fresh_id(), "l": at.get("l"), "ch": [v]}
        if at.get("f"):
            v["f"] = d["f"] = at["f"]
        pre.append(d)
    cond = {"k": "UnaryOperator", "id": _fresh_id(), "l": c.get("l"), "op": "!", "ty": "bool", "ch": [_copy_renamed(c, rename)]}
    loop = {"k": "WhileStmt", "id": _fresh_id(), "l": first.get("l"),
            "ch": [cond, _block([_copy_renamed(s_, rename) for s_ in middle] + steps, callee.body)]}
    for n in (cond, loop, loop["ch"][1]):
        if first.get("f"):
            n["f"] = first["f"]
    return pre + [loop] + [_copy_renamed(s_, rename) for s_ in base]


def lower_novel_forms(fn):
    """spellings that the rules do not read are replaced by the plain statements they stand for, in fn.body (the extracted
    tree is not changed): calls of local lambdas that stand as statements, std::tie packs, std::exchange, switch, a
    tail-recursive private helper that stands for the replay loop.  Each step leaves the function alone unless it can do
    the whole job safely; on the pristine tree nothing is touched."""
    lower_tail_recursion(fn)
    inline_local_lambdas(fn)
    expand_reference_packs(fn)
    lower_exchange(fn)
    if fn.body is not None and any(x["k"] == "SwitchStmt" for x in ir.walk(fn.body)):
        fn.body = dict(fn.body, ch=lower_switches(fn, kids(fn.body)))
        fn._byid = None


def replay_loop(ck, fn):
    loops = [s for s in kids(fn.body) if s is not None and s["k"] in ("WhileStmt", "ForStmt", "DoStmt")]
    ck.require(len(loops) == 1, "%s: expected one replay loop in delete_min_insert" % fn.loc)
    return loops[0]


def replay_path_eval(ck, fn, loop, fields):
    """REPLAY-PATH by evaluation: the integer skeleton of delete_min_insert is run for k_ in {1, 2, 4, 8} and every winner
    source s (the value read from losers_[0].source), once with every data-dependent branch taken and once with none taken.
    The nodes the replay loop touches must be (k_ + s) / 2, its parent, ..., 1 in this order and nothing else, and afterwards
    slot 0 must receive every field of a player.  Returns field -> place whose value slot 0 receives (a local, or
    (local, field) when the challenger travels as one Loser object: `cand = { losers_[0].source, keyp }; ...; losers_[0] =
    cand`; the evaluation keeps the fields of such an object), or None after a violation (a concrete (k_, s) and the nodes
    touched).  Undecidable if the skeleton cannot be evaluated."""
    from engine import skel
    stmts = kids(fn.body)
    li = stmts.index(loop)
    init, cond, inc, lbody = match.loop_parts(loop)
    loop_ids = set()
    for part in (cond, inc, lbody):
        if part is not None:
            loop_ids |= {x["id"] for x in ir.walk(part)}
    post_ids = {x["id"] for s_ in stmts[li + 1:] for x in ir.walk(s_)}
    decl_site = {x["did"]: x["id"] for x in fn.nodes() if x["k"] == "VarDecl"}
    loop_written = set()     # locals assigned / stepped inside the loop: a pointer among them is not a fixed node
    for x in fn.nodes():
        if x.get("id") in loop_ids:
            b_ = match.binop(x) if x["k"] in ("BinaryOperator", "CompoundAssignOperator", "CXXOperatorCallExpr") else None
            if b_ and b_[0].endswith("=") and b_[0] not in ("==", "!=", "<=", ">="):
                loop_written.add(ref_of(b_[1]))
            u_ = match.unop(x, ("++", "--")) if x["k"] in ("UnaryOperator", "CXXOperatorCallExpr") else None
            if u_:
                loop_written.add(ref_of(u_[1]))
    escape = field_escapes(fn) or unmodelled_tree_use(fn)
    for x in fn.nodes():
        if x["k"] == "ImplicitCastExpr" and x.get("cast") == "PointerToBoolean" and _bare_type(_bare_type(x.get("from")).rstrip("*")).endswith("::Loser"):
            # the evaluation puts the first node at address 0: `while (game)` would look like a test against the root
            raise dtable.Undecidable("%s: truth value of a pointer into the tree" % fn.nloc(x))
    owner = CLASSES_BASE(fn) + "::Loser"
    chal = None
    for K in (1, 2, 4, 8):
        for s in range(K):
            expected = []
            p = (K + s) // 2
            while p >= 1:
                expected.append(p)
                p //= 2
            touched = set()          # over both runs: a node counts as replayed if one of them consults or writes it
            opaque = escape
            for choice in (False, True):
                st = dict(phase="pre", j=-1, final={}, opaque=escape, whole=set())

                def phase(e, sk):
                    if sk.depth == 0:
                        i = e.get("id")
                        st["phase"] = "loop" if i in loop_ids else "post" if i in post_ids else "pre"
                    return st["phase"]

                def touch(slot, fixed, field, e, sk, store=None):
                    ph = phase(e, sk)
                    if ph == "pre":
                        return
                    if slot == 0 and (fixed or ph == "post"):
                        if store is not None:
                            st["final"][field] = store
                        return
                    if ph == "post":
                        return
                    if fixed:
                        raise dtable.Undecidable("%s: replay loop uses a node chosen outside the loop: %s" % (fn.nloc(e), dtable.describe(e)))
                    j = st["j"]
                    if slot in expected and expected.index(slot) >= j:
                        st["j"] = expected.index(slot)
                        touched.add(slot)
                        return
                    raise _PathWrong("path:k=%d,source=%d" % (K, s),
                                     "with k_ = %d and the winner (slot 0) at source %d the replay loop touches node %d after the nodes %s; the path from "
                                     "the winner's leaf to the root is %s" % (K, s, slot, [x_ for x_ in expected if x_ in touched], expected), e)

                def is_fixed(obj, ix):
                    """the node does not depend on the loop: literal slot, or an alias / pointer bound outside the loop"""
                    if ix is not None:
                        return const_int(ix) is not None
                    d = ref_of(obj)
                    return d is not None and d in decl_site and decl_site[d] not in loop_ids and d not in loop_written

                def node_source(slot):
                    """what the evaluation knows of the field `source` of a node"""
                    if slot == 0:
                        return s
                    if st["phase"] == "pre":
                        return (s + 1) % K           # before the replay another slot holds another player: not the winner's source
                    return None

                def set_local_field(sk, key, m, v):
                    cur = sk.env.get(key)
                    vals = dict(cur[1]) if isinstance(cur, tuple) and len(cur) == 2 and cur[0] == "loser" else {}
                    vals[m["member"]] = v
                    sk.env[key] = player(member_names(m, fields), vals)

                def event(e, sk):
                    k = e["k"]
                    phase(e, sk)         # every expression of the function itself says where the evaluation is
                    v = tree_accessor(e, 2 * K)
                    if v is not None:
                        return v
                    if k == "ConditionalOperator":
                        c = sk.ev(kids(e)[0])
                        if c is None:            # a data value chosen by data (keyp ? *keyp : ValueType()): both arms may consult nodes
                            sk.ev(kids(e)[1])
                            sk.ev(kids(e)[2])
                            return None
                        return sk.ev(kids(e)[1] if c else kids(e)[2])
                    if k == "UnaryOperator" and e.get("op") == "&" and kids(e) and is_loser_object(kids(e)[0]):
                        slot, _ix = object_slot(fn, kids(e)[0], False, sk)
                        return slot if slot is not None else NotImplemented       # &losers_[i] is address i (losers_.data() is address 0)
                    bq = match.binop(e, ("=",)) if k in ("BinaryOperator", "CXXOperatorCallExpr") else None
                    if bq:
                        lhs = strip_casts(bq[1])
                        if (is_loser_member(lhs) or is_record_member(lhs)) and not match.this_field(lhs):
                            slot, ix = (None, None) if is_record_member(lhs) else object_slot(fn, kids(lhs)[0], lhs.get("arrow"), sk)
                            if slot is None:
                                key = local_key(kids(lhs)[0], lhs.get("arrow"), sk)      # a field of a local player object
                                if key is None:
                                    return NotImplemented
                                v = sk.ev(bq[2])
                                set_local_field(sk, key, lhs, v)
                                return v
                            touch(slot, is_fixed(kids(lhs)[0], ix), lhs["member"], e, sk, store=bq[2])
                            return sk.ev(bq[2])
                        if is_loser_object(lhs):
                            slot, ix = object_slot(fn, lhs, False, sk)
                            if slot is None:
                                return NotImplemented              # a local player object: engine/skel.py stores the value
                            parts = field_values(bq[2], loser_fields(fn), owner)
                            if parts is None:
                                st["whole"].add(slot)
                                touch(slot, is_fixed(lhs, ix), None, e, sk)
                            else:
                                for f_ in fields:                  # losers_[0] = cand: every field of the node is stored
                                    touch(slot, is_fixed(lhs, ix), f_, e, sk, store=parts[f_])
                            sk.ev(bq[2])
                            return None
                    if (is_loser_member(e) or is_record_member(e)) and not match.this_field(e):
                        b0 = _through_temporaries(kids(e)[0])
                        if b0 is not None and b0["k"] == "InitListExpr":
                            return player_field(sk.ev(b0), e["member"])           # Loser{ a, b }.source
                        slot, ix = (None, None) if is_record_member(e) else object_slot(fn, kids(e)[0], e.get("arrow"), sk)
                        if slot is None:
                            key = local_key(kids(e)[0], e.get("arrow"), sk)
                            return player_field(sk.env.get(key), e["member"]) if key is not None else NotImplemented
                        touch(slot, is_fixed(kids(e)[0], ix), e["member"], e, sk)
                        return node_source(slot) if e["member"] == "source" else None
                    ip = match.index_parts(e)
                    if ip and match.this_field(ip[0]) == TREE:
                        slot, ix = object_slot(fn, e, False, sk)       # a whole node is read / passed on
                        touch(slot, is_fixed(e, ix), None, e, sk)
                        return player(fields, {"source": node_source(slot)})
                    if k == "InitListExpr" and is_loser_object(e) and len(kids(e)) == len(fields):
                        return player(fields, {f_: sk.ev(x_) for f_, x_ in zip(fields, kids(e))})     # Loser cand = { a, b };
                    if k == "InitListExpr" and is_record_object(e) and len(kids(e)) == len(_RECORDS[_bare_type(e.get("ty"))]):
                        names_ = _RECORDS[_bare_type(e.get("ty"))]
                        return player(names_, {f_: sk.ev(x_) for f_, x_ in zip(names_, kids(e))})     # Travelling t = { a, b, c };
                    if "callee" in e and e["callee"]["name"] == "swap" and not e.get("member_call") and len(kids(e)) == 2:
                        for a, o in ((kids(e)[0], kids(e)[1]), (kids(e)[1], kids(e)[0])):
                            am = strip_casts(a)
                            if is_loser_member(am) and not match.this_field(am):
                                slot, ix = object_slot(fn, kids(am)[0], am.get("arrow"), sk)
                                if slot is not None:       # swap(losers_[0].f, f) after the loop leaves f in slot 0
                                    touch(slot, is_fixed(kids(am)[0], ix), am["member"], am, sk, store=o)
                        for a in kids(e):
                            if is_loser_object(a) and object_slot(fn, a, False, sk)[0] is not None:
                                st["whole"].add(object_slot(fn, a, False, sk)[0])
                            sk.ev(a)
                        for a in kids(e):
                            if ref_of(a) is not None:
                                sk.store(sk.lvalue(strip_casts(a)), None)     # the local now holds data
                            am = strip_casts(a)
                            if (is_loser_member(am) or is_record_member(am)) and not match.this_field(am):
                                key = local_key(kids(am)[0], am.get("arrow"), sk) if (is_record_member(am) or
                                                                                      object_slot(fn, kids(am)[0], am.get("arrow"), sk)[0] is None) else None
                                if key is not None:
                                    set_local_field(sk, key, am, None)        # so does the field of a local player object
                        return None
                    if opaque_tree_call(e, sk) and st["opaque"] is None:
                        st["opaque"] = "%s: call not understood: %s" % (fn.nloc(e), dtable.describe(e)[:80])
                    return NotImplemented

                sk = skel.Skel(fn, {("field", "k_"): K}, None, event, max_iter=64)
                sk.unknown_cond = lambda c_, sk_, choice=choice: choice
                try:
                    try:
                        sk.run(stmts)
                    except skel.Return:
                        pass
                except _PathWrong as w:
                    ck.violation("REPLAY-PATH", fn.qname, w.sig, w.msg, fn.nloc(w.node))
                    return None
                except skel.Diverges:
                    raise dtable.Undecidable("%s: replay loop does not end in the evaluation with k_ = %d, source %d" % (fn.nloc(loop), K, s))
                opaque = opaque or st["opaque"]
                missing = [f for f in fields if f not in st["final"]]
                if missing:
                    if st["opaque"]:
                        raise dtable.Undecidable(st["opaque"])
                    if 0 in st["whole"]:
                        raise dtable.Undecidable("%s: slot 0 is written as a whole node" % fn.loc)
                    ck.violation("REPLAY-PATH", fn.qname, "final-store:" + ",".join(missing),
                                 "after the replay loop slot 0 does not receive the winner's field(s) %s" % missing, fn.loc)
                    return None
                got = {}
                for f in fields:
                    d = local_place(strip_move(st["final"][f]))
                    if d is None or place_decl(d) not in decl_site and not any(p_["did"] == place_decl(d) for p_ in fn.params):
                        raise dtable.Undecidable("%s: slot 0 receives %s from something that is not a local: %s"
                                                 % (fn.nloc(st["final"][f]), f, dtable.describe(st["final"][f])))
                    got[f] = d
                if chal is not None and got != chal:
                    raise dtable.Undecidable("%s: slot 0 receives its fields from different locals on different paths" % fn.loc)
                chal = got
            if touched != set(expected):
                if opaque:
                    raise dtable.Undecidable(opaque)
                ck.violation("REPLAY-PATH", fn.qname, "path-end:k=%d,source=%d" % (K, s),
                             "with k_ = %d and the winner at source %d the replay touches the nodes %s only: node(s) %s on the path to the "
                             "root are not replayed" % (K, s, [x_ for x_ in expected if x_ in touched], [x_ for x_ in expected if x_ not in touched]),
                             fn.nloc(loop))
                return None
    return chal


def replay_path_shape(fn, loop, fields, why):
    """REPLAY-PATH by shape, used when the skeleton cannot be evaluated (`why`): the idiom
         source = losers_[0].source;  pos = (k_ + source) / 2;  while (pos > 0) { ...; pos /= 2; }  losers_[0].f = f;
    is accepted as it stands; anything else is not understood (never a violation)."""
    body = fn.body
    init, cond, inc, lbody = match.loop_parts(loop)

    def giveup(what):
        raise dtable.Undecidable("%s; and the replay idiom is not recognised either: %s" % (why, what))
    after = kids(body)[kids(body).index(loop) + 1:]
    chal = {}
    for s in after:
        b = match.binop(s, ("=",))
        if b:
            nf = node_field(b[1])
            if nf and const_int(nf[0]) == 0 and ref_of(strip_move(b[2])) is not None:
                chal[nf[1]] = ref_of(strip_move(b[2]))
    missing = [f for f in fields if f not in chal]
    if missing:
        giveup("no plain store of %s to slot 0 after the loop" % missing)
    posv = None
    for x in ir.walk(cond):
        if x["k"] == "DeclRefExpr":
            posv = x["ref"]["id"]
    if not match.positive_test(cond, posv):
        giveup("loop condition %s" % dtable.describe(cond))
    start = None
    for x in ir.walk(body):
        if x["k"] == "VarDecl" and x["did"] == posv and kids(x):
            start = kids(x)[0]
    h = match.is_halved(start) if start else None
    okstart = False
    if h is not None:
        b = match.binop(h, ("+",))
        if b:
            ops = [b[1], b[2]]
            names = sorted([match.this_field(o) or ("var" if ref_of(o) == chal["source"] else "?") for o in ops])
            okstart = names == ["k_", "var"]
    src_init_ok = False
    for x in ir.walk(body):
        if x["k"] == "VarDecl" and x["did"] == chal["source"] and kids(x):
            nf = node_field(kids(x)[0])
            src_init_ok = bool(nf and const_int(nf[0]) == 0 and nf[1] == "source")
    if not (okstart and src_init_ok):
        giveup("start %s" % (dtable.describe(start) if start else "?"))
    halv = [inc] if inc is not None else []
    halv += [s for s in kids(lbody)]
    if not any(match.halving(s, posv) for s in halv if s is not None):
        giveup("no halving step")
    return chal


def _position_skel(fn, posv, p):
    """a skeleton in which the position (an index local, or a pointer that walks the tree: the storage starts at address 0)
    has the value p"""
    from engine import skel
    base = _position_base(posv)
    env = {posv: base + p}
    for d in _BASE_PTRS:
        env[d] = base

    def event(e, sk):
        v = tree_accessor(e, 64)
        if v is not None:
            return v if e["callee"]["name"] == "size" else base + v
        if e["k"] == "UnaryOperator" and e.get("op") == "&" and kids(e):
            ip = match.index_parts(kids(e)[0])
            if ip and match.this_field(ip[0]) == TREE:
                i = sk.ev(ip[1])
                return base + i if _is_int(i) else None      # &losers_[i]
        return NotImplemented
    return skel.Skel(fn, env, None, event)


def _position_base(posv):
    """address of the first node in _position_skel(): not 0 for a walking pointer, so that `game` / `!game` (never null) is
    not taken for a test against the root"""
    return 1000 if posv in _WALK_PTRS else 0


def steps_to_parent(fn, e, posv):
    """e moves the position to the parent node: pos /= 2, pos >>= 1, pos = pos / 2, game = base + (game - base) / 2, ...:
    whatever the spelling, evaluated for a few positions the new position is the old one halved"""
    if match.halving(e, posv):
        return True
    b = match.binop(e) if e["k"] in ("BinaryOperator", "CompoundAssignOperator") else None
    if not (b and b[0].endswith("=") and b[0] not in ("==", "!=", "<=", ">=") and ref_of(b[1]) == posv):
        return False
    for p in (1, 2, 3, 4, 5, 6, 7, 12, 13):
        sk = _position_skel(fn, posv, p)
        try:
            sk.ev(e)
        except ir.AnalysisBroken:
            return False
        v = sk.env.get(posv)
        if not _is_int(v) or v != _position_base(posv) + p // 2:
            return False
    return True


def position_polarity(fn, n, posv):
    """True if n holds exactly when the position is not the root's slot 0 (pos > 0, pos != 0, pos >= 1, game != base,
    game > base), False if it holds exactly when it is (pos == 0, game == base, !pos); None if n is something else"""
    if posv not in _WALK_PTRS and match.positive_test(n, posv):
        return True
    if not any(x["k"] == "DeclRefExpr" and x["ref"]["id"] == posv for x in ir.walk(n)):
        return None
    vals = []
    for p in (0, 1, 2, 3, 6, 13):
        try:
            v = _position_skel(fn, posv, p).ev(n)
        except ir.AnalysisBroken:
            return None
        if not isinstance(v, (bool, int)):
            return None
        vals.append(bool(v))
    if vals == [False, True, True, True, True, True]:
        return True
    if vals == [True, False, False, False, False, False]:
        return False
    return None


def position_variable(fn, lbody):
    """the local that names the current node of the replay: the index of the node accesses in the loop body that is
    declared outside the body (a copy `cur = pos` made inside the body is not it)"""
    inside = {x["did"]: x for x in ir.walk(lbody) if x["k"] == "VarDecl"}
    cands = set()
    for x in ir.walk(lbody):
        nf = node_field(x) if x["k"] in ("MemberExpr", "DeclRefExpr") else None
        d = ref_of(nf[0]) if nf else None
        if nf is None and match.index_parts(x) and node_index(x) is not None:
            d = ref_of(node_index(x))                # a whole node: swap(losers_[pos], cand)
        if d in inside and kids(inside[d]) and ref_of(kids(inside[d])[0]) is not None:
            d = ref_of(kids(inside[d])[0])           # const Source cur = pos;
        if d is not None and d not in inside:
            cands.add(d)
    if len(cands) != 1:
        raise dtable.Undecidable("%s: the replay loop does not address its nodes through one position variable (%d candidates)"
                                 % (fn.nloc(lbody), len(cands)))
    return cands.pop()


# ----------------------------------------------------------------------------
# REPLAY-TABLE / REPLAY-FIELDS
# ----------------------------------------------------------------------------

def check_replay(ck, fn, info, stable):
    lower_novel_forms(fn)
    bind_reference_locals(fn)
    loop = replay_loop(ck, fn)
    init, cond, inc, lbody = match.loop_parts(loop)
    fields = [f["name"] for f in loser_fields(fn)]
    try:
        chal = replay_path_eval(ck, fn, loop, fields)
        how = "evaluated for k_ in {1,2,4,8} and every source"
    except dtable.Undecidable as ex:
        chal = replay_path_shape(fn, loop, fields, str(ex))
        how = "idiom"
    if chal is None:
        return
    ck.ok("REPLAY-PATH", fn.full, "start (k_+source)/2 from slot 0, halving to the root, all %d fields stored to slot 0 (%s)" % (len(fields), how))

    # --- decision table of the loop body
    posv = position_variable(fn, lbody)
    keyvar = chal.get("key", chal.get("keyp"))
    supvar = chal.get("sup")
    pointer = info["pointer"]
    chal_vars = {d: f for f, d in chal.items()}
    lfields = loser_fields(fn)
    owner = CLASSES_BASE(fn) + "::Loser"

    # a copy of the node index taken at the top of the iteration (`const Source cur = pos; pos /= 2; ... losers_[cur]`)
    pos_copies = set()
    body_stmts = [s_ for s_ in kids(lbody) if s_ is not None] if lbody is not None and lbody["k"] == "CompoundStmt" else []
    halved = False
    for s_ in body_stmts:
        if s_["k"] == "DeclStmt" and not halved:
            for v_ in kids(s_):
                if v_["k"] == "VarDecl" and kids(v_) and ref_of(kids(v_)[0]) == posv:
                    if not any(match.binop(z, ("=", "+=", "-=", "/=", ">>=")) and ref_of(match.binop(z, ("=", "+=", "-=", "/=", ">>="))[1]) == v_["did"]
                               for z in ir.walk(lbody) if z["k"] in ("BinaryOperator", "CompoundAssignOperator")):
                        pos_copies.add(v_["did"])
        if any((match.binop(z, ("=", "/=", ">>=")) and ref_of(match.binop(z, ("=", "/=", ">>="))[1]) == posv) for z in ir.walk(s_)
               if z["k"] in ("BinaryOperator", "CompoundAssignOperator")):
            halved = True

    # which node an access designates: the position as it is at the top of the iteration ('before' the step to the parent; a
    # copy of the position taken at the top always means that one) or the position 'after' the step (do { pos /= 2; ... })
    track = dict(moved=False, seen=None)

    def is_pos(i):
        if i is None:
            return False
        if ref_of(i) == posv:
            if track["seen"] is not None:
                track["seen"].add("after" if track["moved"] else "before")
            return True
        if ref_of(i) in pos_copies:
            if track["seen"] is not None:
                track["seen"].add("before")
            return True
        return False

    def follow(run, moved):
        track["moved"] = moved
        track["seen"] = run.__dict__.setdefault("node_seen", set())

    def is_node(e):
        return is_pos(node_index(e))

    def key_role(e):
        e = strip_casts(e)
        if pointer:
            d = match.deref_of(e)
            if d is None:
                return None
            if local_place(d) == keyvar:
                return "chal"
            f = match.field_of(d)
            if f and f[1] == "keyp" and is_node(f[0]):
                return "node"
            return None
        if local_place(e) == keyvar:
            return "chal"
        f = match.field_of(e)
        if f and f[1] == "key" and is_node(f[0]):
            return "node"
        return None

    def moves_pos(e):
        b = match.binop(e) if e["k"] in ("BinaryOperator", "CompoundAssignOperator") else None
        if b and b[0].endswith("=") and b[0] not in ("==", "!=", "<=", ">=") and ref_of(b[1]) == posv:
            return True
        u = match.unop(e, ("++", "--")) if e["k"] == "UnaryOperator" else None
        return bool(u and ref_of(u[1]) == posv)

    def pos_test(n, run):
        """a test of the position against 0 inside the body.  Before the position moves: at a node of the path pos >= 1.
        After the step to the parent the outcome is open: atom X (the position is 0, the loop is left without a game:
        do { pos /= 2; if (pos == 0) break; game }) if no node was consulted yet, atom T (the game just played was the
        topmost one) if the game of this iteration is over."""
        pol = position_polarity(fn, n, posv)
        if pol is None or not track["moved"]:
            return pol
        played = "before" in track["seen"]
        for ev in run.events:
            if ev[0] == "expr" and moves_pos(ev[1]):
                break
            for x in ir.walk(ev[1]) if ev[0] in ("expr", "decl") else ():
                i = node_index(x) if x["k"] not in ("VarDecl", "DeclStmt") and not (x["k"] == "DeclRefExpr" and ref_of(x) in _WALK_PTRS) else None
                if i is not None and (ref_of(i) == posv or ref_of(i) in pos_copies):
                    played = True           # an effect (swap(losers_[pos], cand)) on the node before the step
        return ("T" if played else "X", pol)

    def atomize(n, run):
        follow(run, any(ev[0] == "expr" and moves_pos(ev[1]) for ev in run.events))
        lam = lambda_condition(fn, n)
        if lam is not None:
            return run.truth(lam)        # the decision moved into a local lambda that sees the challenger by reference
        pt = match.ptr_truth(n)
        neg = True
        if pt is None and pointer:
            bn = match.binop(n, ("!=", "=="))
            if bn:
                for x_, y_ in ((bn[1], bn[2]), (bn[2], bn[1])):
                    if strip_casts(y_)["k"] in NULLS:
                        pt = x_
                        neg = bn[0] == "!="          # p != nullptr  <=>  not exhausted
        if pt is not None:
            if local_place(pt) == keyvar and pointer:
                return ("S", neg)
            f = match.field_of(pt)
            if f and f[1] == "keyp" and is_node(f[0]):
                return ("L", neg)
            return None
        if supvar is not None and n["k"] in ("DeclRefExpr", "MemberExpr") and local_place(n) == supvar:
            return ("S", False)
        f = match.field_of(n)
        if f and f[1] == "sup" and is_node(f[0]) and n["k"] == "MemberExpr":
            return ("L", False)
        fc = match.functor_call(n)
        if fc and match.this_field(fc[0]) == "cmp_" and len(fc[1]) == 2:
            r = (key_role(fc[1][0]), key_role(fc[1][1]))
            if r == ("node", "chal"):
                return ("A", False)
            if r == ("chal", "node"):
                return ("B", False)
            raise dtable.Undecidable("%s: comparator applied to unexpected operands: %s" % (fn.nloc(n), dtable.describe(n)))
        b = match.binop(n, ("<", ">", "<=", ">="))
        if b and n["k"] == "BinaryOperator":
            def srole(e):
                if local_place(e) == chal["source"]:
                    return "chal"
                ff = match.field_of(e)
                if ff and ff[1] == "source" and is_node(ff[0]):
                    return "node"
                return None
            rl, rr = srole(b[1]), srole(b[2])
            if rl and rr and rl != rr:
                op = b[0]
                if rl == "chal":     # normalise to node OP chal
                    op = {"<": ">", ">": "<", "<=": ">=", ">=": "<="}[op]
                return {"<": ("C", False), ">": ("D", False), "<=": ("D", True), ">=": ("C", True)}[op]
        bc = match.binop(n, ("==", "!=")) if n["k"] == "BinaryOperator" else None
        if bc:
            for x_, y_ in ((bc[1], bc[2]), (bc[2], bc[1])):
                if const_int(y_) is not None and const_int(x_) is None and strip_casts(x_) is not None and \
                        strip_casts(x_)["k"] in ("ConditionalOperator", "BinaryOperator", "ParenExpr"):
                    cv = code_value(x_, run)          # switch ((keyp ? 2 : 0) | (node.keyp ? 1 : 0)): the case tests
                    if cv is not None:
                        return (cv == const_int(y_)) == (bc[0] == "==")
        return pos_test(n, run)

    frag = lbody
    leaves = dtable.explore(frag, atomize, fn)
    spec_atoms = ["A", "B"] + (["S", "L"] if info["guarded"] else []) + (["C", "D"] if stable else [])
    atoms = list(dict.fromkeys(spec_atoms + dtable.atoms_of(leaves)))

    def consistent(v):
        if v.get("A") and v.get("B"):
            return False
        if v.get("C") and v.get("D"):
            return False
        if not info["guarded"] and (v.get("S") or v.get("L")):
            return False
        return True

    text_order = {x["id"]: i_ for i_, x in enumerate(ir.walk(lbody))}
    sup_assigned = [text_order[x["id"]] for x in ir.walk(lbody)
                    if x["k"] == "BinaryOperator" and x.get("op") == "=" and supvar is not None and ref_of(kids(x)[0]) == supvar]

    def row_effect(lf):
        """what the events of one row do to the node at pos and to the challenger, as symbols: the cells are the fields of the
        node and the locals; a cell holds ('node', f) / ('chal', f) (the value the node's / the challenger's field f had at
        the top of the iteration), ('const', c), or None (not known).  Every event is a move between cells (assignment,
        swap, declaration of a temporary) or the step to the parent; anything else is not understood.  An operation on
        whole players (swap(losers_[pos], cand), node = cand, Loser tmp = node) is the same operation on every field."""
        cells = {}
        used = {}            # local -> position (in the order of the text) of the last event that reads / writes it as a cell
        now = [0]
        follow(lf["run"], False)

        def cell(e):
            e = strip_casts(e)
            nf_ = node_field(e)
            if nf_:
                if is_pos(nf_[0]):
                    return ("node", nf_[1])
                raise dtable.Undecidable("%s: replay loop body touches a node other than the current one: %s" % (fn.nloc(e), dtable.describe(e)))
            d_ = local_place(e)
            if d_ is not None:
                used[d_] = max(used.get(d_, -1), now[0])
            return ("var", d_) if d_ is not None else None

        def initial(c_):
            if c_[0] == "node":
                return c_
            return ("chal", chal_vars[c_[1]]) if c_[1] in chal_vars else None

        def relevant(c_):
            return c_[0] == "node" or c_[1] in chal_vars

        def rd(e):
            e = strip_move(e)
            if e is None:
                return None
            ci = const_int(e)
            if ci is not None:
                return ("const", ci)
            if e["k"] in NULLS:
                return ("const", 0)
            c_ = cell(e)
            if c_ is None:
                return None
            if c_ not in cells and c_[0] == "var" and e["k"] == "DeclRefExpr" and (e.get("ty") or "") == "const bool" and \
                    isinstance(lf["run"].env.get(c_[1]), bool):
                return ("const", int(lf["run"].env[c_[1]]))          # const bool flag = ...; decided by the row
            return cells[c_] if c_ in cells else initial(c_)

        def assign(lhs, rhs):
            c_ = cell(lhs)
            val = rd(rhs)
            if c_ is not None and (val is not None or not relevant(c_)) and c_ != ("var", posv):
                cells[c_] = val
                return True
            return False

        def exchange(a, b):
            ca, cb = cell(a), cell(b)
            va, vb = rd(a), rd(b)
            if ca is not None and cb is not None and ("var", posv) not in (ca, cb) and \
                    ((va is not None and vb is not None) or not (relevant(ca) or relevant(cb))):
                cells[ca], cells[cb] = vb, va
                return True
            return False

        def whole(e):
            """field name -> expression, if e designates a whole player (a node, a local Loser object, Loser{...}) or a whole
            object of a local plain struct (Travelling t; Travelling{...})"""
            if e is not None and is_record_object(match.strip_conv(strip_move(e))):
                return record_values(e)
            return field_values(e, lfields, owner) if e is not None and (is_loser_object(e) or strip_casts(e)["k"] == "InitListExpr") else None

        def is_whole(e):
            return is_loser_object(e) or is_record_object(e)

        for ev in lf["events"]:
            if ev[0] == "decl":
                v_ = ev[1]
                if v_.get("isref"):
                    continue                                     # an alias: resolved where it is used
                init_ = kids(v_)[0] if kids(v_) else None
                if (v_.get("ty") or "").replace("const ", "").rstrip().endswith("::Loser") or _bare_type(v_.get("ty")) in _RECORDS:
                    parts = whole(init_)                         # Loser tmp = losers_[pos];  a copy of every field
                    for f_ in _RECORDS.get(_bare_type(v_.get("ty")), fields):
                        cells[("var", (v_["did"], f_))] = rd(parts[f_]) if parts and f_ in parts else None
                    continue
                cells[("var", v_["did"])] = rd(init_) if init_ is not None else None
                continue
            if ev[0] != "expr":
                raise dtable.Undecidable("%s: unexpected %s in replay loop body" % (fn.loc, ev[0]))
            e = ev[1]
            now[0] = text_order.get(e.get("id"), 1 << 30)
            if steps_to_parent(fn, e, posv):
                track["moved"] = True
                continue
            asg = match.binop(e, ("=",)) if e["k"] in ("BinaryOperator", "CXXOperatorCallExpr") else None
            if asg:
                pl, pr = (whole(asg[1]), whole(asg[2])) if is_whole(asg[1]) else (None, None)
                if pl and pr and set(pl) == set(pr):             # node = cand: field by field (the fields are independent cells)
                    vals_ = {f_: rd(pr[f_]) for f_ in pl}
                    cs_ = {f_: cell(pl[f_]) for f_ in pl}
                    if all(cs_[f_] is not None and (vals_[f_] is not None or not relevant(cs_[f_])) for f_ in pl):
                        for f_ in pl:
                            cells[cs_[f_]] = vals_[f_]
                        continue
                elif not is_whole(asg[1]) and assign(asg[1], asg[2]):
                    continue
            c = match.call_named(e, ("swap",))
            if c and len(kids(c)) == 2 and not c.get("member_call"):
                pa, pb = (whole(kids(c)[0]), whole(kids(c)[1])) if is_whole(kids(c)[0]) and is_whole(kids(c)[1]) else (None, None)
                if pa and pb and set(pa) == set(pb):             # swap(losers_[pos], cand): every field is exchanged
                    if all(exchange(pa[f_], pb[f_]) for f_ in pa):
                        continue
                elif not is_whole(kids(c)[0]) and not is_whole(kids(c)[1]) and exchange(kids(c)[0], kids(c)[1]):
                    continue
            raise dtable.Undecidable("%s: effect not understood in replay loop body: %s" % (fn.nloc(e), dtable.describe(e)))
        # engine/dtable.py keeps assignments to bool locals to itself (no event): `sup = losers_[pos].sup;` shows up as the
        # value of the flag at the end of the run only.  That value is the challenger's flag after the step if every such
        # assignment in the body comes, in the (loop-free) text, after the last event that reads or writes the flag as a
        # cell; otherwise the order of the two is not known.
        run = lf["run"]
        if supvar is not None and supvar in run.env and isinstance(run.env[supvar], bool):
            if (supvar in used and any(a_ <= used[supvar] for a_ in sup_assigned)) or supvar in run.clobbered:
                raise dtable.Undecidable("%s: the challenger's sup flag is assigned and exchanged in one step (%s)" % (fn.nloc(loop), dtable.fmt_val(lf["val"])))
            cells[("var", supvar)] = ("const", int(run.env[supvar]))
        out = {}
        for f in fields:
            n_ = cells.get(("node", f), ("node", f))
            c_ = cells.get(("var", chal[f]), ("chal", f))
            out[f] = (n_, c_)
        return out

    def show(sym):
        return "%s %s" % (("the node's" if sym[0] == "node" else "the challenger's" if sym[0] == "chal" else "constant"), sym[1])

    rows = 0
    viol = False
    for v, lf in dtable.table(leaves, consistent, atoms):
        rows += 1
        S, L = v.get("S", False), v.get("L", False)
        A, B, C, D = v["A"], v["B"], v.get("C", False), v.get("D", False)
        status = {}
        effect = row_effect(lf)
        if len(lf["run"].node_seen) > 1:
            raise dtable.Undecidable("%s: one step of the replay addresses nodes both before and after the position moves to the parent (%s)"
                                     % (fn.nloc(loop), dtable.fmt_val(v)))
        if lf["stop"][0] in ("break", "return", "goto", "throw") and not (v.get("T") or v.get("X")):
            # the row leaves the loop although the position is not known to be the root's: a decision on data, not on the position
            ck.violation("REPLAY-PATH", fn.qname, "leaves:" + dtable.fmt_val(v),
                         "the replay loop is left (%s) after this step wherever the position is: the games on the rest of the path to the "
                         "root are not played (%s)" % (lf["stop"][0], dtable.fmt_val(v)), fn.nloc(loop))
            viol = True
            continue
        if v.get("X"):
            # the loop is left before a game is played: nothing may have happened to a node or to the challenger
            if any((n_, c_) != (("node", f), ("chal", f)) for f, (n_, c_) in effect.items()):
                raise dtable.Undecidable("%s: the replay loop is left at position 0 after changing a node or the challenger (%s)"
                                         % (fn.nloc(loop), dtable.fmt_val(v)))
            continue
        for f, (n_, c_) in effect.items():
            if f == "sup" and "S" in v and "L" in v:
                # a flag: what counts is its value in this row (node.sup = true; sup = false is a swap when S and not L)
                val = {("node", "sup"): L, ("chal", "sup"): S, ("const", 0): False, ("const", 1): True}
                if n_ not in val or c_ not in val:
                    raise dtable.Undecidable("%s: value of the sup flags not understood in row %s" % (fn.nloc(loop), dtable.fmt_val(v)))
                kept, swp = (val[n_] == L and val[c_] == S), (val[n_] == S and val[c_] == L)
                status[f] = "both" if kept and swp else "kept" if kept else "swapped" if swp else "mixed"
            elif (n_, c_) == (("node", f), ("chal", f)):
                status[f] = "kept"
            elif (n_, c_) == (("chal", f), ("node", f)):
                status[f] = "swapped"
            else:
                status[f] = "mixed"
            if status[f] == "mixed":
                ck.violation("REPLAY-FIELDS", fn.qname, "mixed:" + f + "@" + dtable.fmt_val(v),
                             "after this step the node's %s holds %s and the challenger's %s holds %s: a player is lost or duplicated (%s)"
                             % (f, show(n_), f, show(c_), dtable.fmt_val(v)), fn.nloc(loop))
                viol = True
        if "mixed" in status.values():
            continue
        swapped = {f for f in fields if status[f] == "swapped"}
        live = (not S) and (not L)
        if stable:
            node_lt = (not L and S) or (live and (A or (not A and not B and C)))
            chal_lt = (not S and L) or (live and (B or (not A and not B and D)))
        else:
            node_lt = (not L and S) or (live and A)
            chal_lt = (not S and L) or (live and B)
        did = bool(swapped)
        sig = "row:" + dtable.fmt_val(v)
        if node_lt and not did:
            ck.violation("REPLAY-TABLE", fn.qname, sig,
                         "stored loser is strictly smaller than the challenger but does not advance (%s)" % dtable.fmt_val(v), fn.nloc(loop))
            viol = True
        if chal_lt and did:
            ck.violation("REPLAY-TABLE", fn.qname, sig,
                         "challenger is strictly smaller than the stored loser but is left behind (%s)" % dtable.fmt_val(v), fn.nloc(loop))
            viol = True
        if not info["guarded"] and not stable and not A and not B and did:
            # unguarded trees pad the leaves with copies of the sentinel, which may equal a live key; without a `sup` flag or a
            # source tie-break the only thing that keeps a padding entry from winning is that ties never displace the challenger
            ck.violation("REPLAY-TABLE", fn.qname, sig + ":padding-tie",
                         "on equal keys the stored entry displaces the challenger (%s): in an unguarded tree the stored entry can be a padding "
                         "leaf holding a copy of the sentinel, and the sentinel may equal a live key - the padding entry then reaches the root and "
                         "min_source() reports a non-existent player" % dtable.fmt_val(v), fn.nloc(loop))
            viol = True
        if did:
            need = set(fields)
            if "sup" in need and S == L:
                need.discard("sup")
            done = {f for f in fields if status[f] in ("swapped", "both")}
            if not need <= done:
                ck.violation("REPLAY-FIELDS", fn.qname, "fields:" + ",".join(sorted(need - done)) + "@" + dtable.fmt_val(v),
                             "swap exchanges %s but not %s: a mixed player results" % (sorted(swapped), sorted(need - done)), fn.nloc(loop))
                viol = True
    ck.states += rows
    if not viol:
        ck.ok("REPLAY-TABLE", fn.full, "%d consistent rows over atoms %s (%s)" % (rows, ",".join(atoms), "stable" if stable else "unstable"),
              sample=dict(rule="REPLAY-TABLE", fn=fn.full, atoms=atoms, rows=rows, leaves=len(leaves)))
        ck.ok("REPLAY-FIELDS", fn.full, "every swapping row exchanges all fields that can differ")


def loser_fields(fn):
    tu = fn.tu
    # the Loser struct of the base class of this instantiation
    cands = [r for r in tu.records if r["qname"] == CLASSES_BASE(fn) + "::Loser"]
    if not cands:
        raise ir.AnalysisBroken("Loser record of %s not found" % fn.full)
    return cands[0]["fields"]


def CLASSES_BASE(fn):
    rec = fn.record
    if rec in CLASSES:
        return CLASSES[rec]["base"]
    return rec


# ----------------------------------------------------------------------------
# INIT-TABLE
# ----------------------------------------------------------------------------

def check_init(ck, fn, guarded, pointer):
    lower_novel_forms(fn)
    bind_reference_locals(fn)
    root = fn.params[0]["did"]
    # children: locals initialised by recursive calls with 2*root (+1)
    child = {}
    for x in ir.walk(fn.body):
        if x["k"] == "VarDecl" and kids(x):
            c = match.call_named(kids(x)[0], ("init_winner",))
            if c:
                arg = kids(c)[-1]
                # the child index, whatever its spelling (2 * root + 1, (root << 1) | 1, ...): evaluated on a few roots
                from engine import skel
                vals = [skel.Skel(fn, {root: r_}, None, None).ev(arg) for r_ in (1, 2, 3, 5, 8)]
                role = None
                if vals == [2 * r_ for r_ in (1, 2, 3, 5, 8)]:
                    role = "left"
                elif vals == [2 * r_ + 1 for r_ in (1, 2, 3, 5, 8)]:
                    role = "right"
                if role:
                    child[x["did"]] = role
    ck.require(sorted(child.values()) == ["left", "right"],
               "%s: could not identify the two recursive sub-tournaments" % fn.loc)

    cur_run = [None]      # the decision-table run that is being explored / evaluated
    cur_roles = [None]    # during the evaluation of a row: the roles of the index locals at the current event

    def roles_of(run, events):
        """role (left / right / root / None) of every index local after these events of a run: a declaration and a plain
        assignment give the local the role of the right-hand side at that point (Source w = left; if (...) w = right;)"""
        cur = {}
        for ev in events:
            if ev[0] == "decl":
                v_ = ev[1]
                if v_["did"] not in child and not v_.get("isref"):
                    cur[v_["did"]] = idx_role(kids(v_)[0], cur=cur) if kids(v_) and kids(v_)[0] is not None else None
            elif ev[0] == "expr":
                e = ev[1]
                b_ = match.binop(e, ("=",)) if e["k"] == "BinaryOperator" else None
                if b_ and ref_of(b_[1]) is not None and ref_of(b_[1]) not in _REF_INITS:
                    cur[ref_of(b_[1])] = idx_role(b_[2], cur=cur)
                sw = index_swap(e)
                if sw:
                    cur[sw[0]], cur[sw[1]] = idx_role(kids(e)[1], cur=cur), idx_role(kids(e)[0], cur=cur)
        return cur

    def index_swap(e):
        """(a, b) if e is swap(a, b) of two plain locals"""
        c = match.call_named(e, ("swap",))
        if c is not None and not c.get("member_call") and len(kids(c)) == 2:
            a_, b_ = ref_of(kids(c)[0]), ref_of(kids(c)[1])
            if a_ is not None and b_ is not None and a_ not in _REF_INITS and b_ not in _REF_INITS:
                return a_, b_
        return None

    def idx_role(i, depth=0, cur=None):
        run = cur_run[0]
        if cur is None:
            cur = cur_roles[0] if cur_roles[0] is not None else (roles_of(run, run.events) if run is not None else {})
        d = ref_of(i)
        if d is not None and d in cur:
            return cur[d]
        if d in child:
            return child[d]
        if d == root:
            return "root"
        i0 = strip_casts(i)
        if run is not None and i0 is not None and i0["k"] == "ConditionalOperator" and depth < 6:
            c, a, b = kids(i0)
            return idx_role(a if run.truth(c) else b, depth + 1, cur)
        return None

    def node_role(e):
        i = node_index(e)
        if i is None:
            return None
        return idx_role(i)

    def key_role(e):
        if pointer:
            d = match.deref_of(e)
            if d is None:
                return None
            f = match.field_of(d)
            return node_role(f[0]) if f and f[1] == "keyp" else None
        f = match.field_of(e)
        return node_role(f[0]) if f and f[1] == "key" else None

    def atomize(n, run):
        cur_run[0] = run
        cur_roles[0] = None
        b = match.binop(n, (">=", "<", ">", "<="))
        if b and n["k"] == "BinaryOperator":
            # leaf test: root >= k_ in any spelling
            if ref_of(b[1]) == root and match.this_field(b[2]) == "k_" and b[0] in (">=", "<"):
                return ("leaf", b[0] == "<")
            if match.this_field(b[1]) == "k_" and ref_of(b[2]) == root and b[0] in ("<=", ">"):
                return ("leaf", b[0] == ">")
        be = match.binop(n, ("==", "!=")) if n["k"] == "BinaryOperator" else None
        if be and idx_role(be[1]) in ("left", "right") and idx_role(be[2]) in ("left", "right"):
            return (idx_role(be[1]) == idx_role(be[2])) == (be[0] == "==")        # w == left: which player an index local names
        pt = match.ptr_truth(n)
        neg = True
        if pt is None and pointer:
            bn = match.binop(n, ("!=", "=="))
            if bn:
                for x_, y_ in ((bn[1], bn[2]), (bn[2], bn[1])):
                    if strip_casts(y_)["k"] in NULLS:
                        pt = x_
                        neg = bn[0] == "!="          # p != nullptr  <=>  not exhausted
        if pt is not None:
            f = match.field_of(pt)
            if f and f[1] == "keyp" and node_role(f[0]) in ("left", "right"):
                return ("sup_" + node_role(f[0]), neg)
        f = match.field_of(n)
        if f and n["k"] == "MemberExpr" and f[1] == "sup" and node_role(f[0]) in ("left", "right"):
            return ("sup_" + node_role(f[0]), False)
        fc = match.functor_call(n)
        if fc and match.this_field(fc[0]) == "cmp_" and len(fc[1]) == 2:
            r = (key_role(fc[1][0]), key_role(fc[1][1]))
            if r == ("right", "left"):
                return ("cmp(right,left)", False)
            if r == ("left", "right"):
                return ("cmp(left,right)", False)
            raise dtable.Undecidable("%s: comparator on unexpected operands %s" % (fn.nloc(n), dtable.describe(n)))
        return None

    leaves = dtable.explore(fn.body, atomize, fn)
    atoms = ["leaf", "cmp(right,left)", "cmp(left,right)"] + (["sup_left", "sup_right"] if guarded else [])
    atoms = list(dict.fromkeys(atoms + dtable.atoms_of(leaves)))

    def consistent(v):
        if v["leaf"]:
            return False
        if v["cmp(right,left)"] and v["cmp(left,right)"]:
            return False
        if not guarded and (v.get("sup_left") or v.get("sup_right")):
            return False
        return True
    rows = 0
    viol = False
    for v, lf in dtable.table(leaves, consistent, atoms):
        rows += 1
        stored = None
        cur_run[0] = lf["run"]
        cur_roles[0] = None
        lf["run"].val = dict(v)          # the row fixes every atom: a ternary that selects the winner is decided by it
        by_field = {}
        try:
            done = []
            for ev in lf["events"]:
                cur_roles[0] = roles_of(lf["run"], done)
                done.append(ev)
                if ev[0] == "decl":
                    continue
                if ev[0] == "expr":
                    b = match.binop(ev[1], ("=",))
                    if b and node_role(b[1]) == "root" and node_role(b[2]) in ("left", "right"):
                        stored = node_role(b[2])
                        continue
                    fl, fr = (node_field(b[1]), node_field(strip_move(b[2]))) if b else (None, None)
                    if fl and fr and fl[1] == fr[1] and idx_role(fl[0]) == "root" and idx_role(fr[0]) in ("left", "right"):
                        by_field[fl[1]] = idx_role(fr[0])      # losers_[root].f = losers_[right].f: the player is stored field by field
                        continue
                    if b and ev[1]["k"] == "BinaryOperator" and ref_of(b[1]) is not None and ref_of(b[1]) not in _REF_INITS \
                            and node_index(b[1]) is None and strip_casts(b[1])["ref"].get("kind") in ("local", "param"):
                        continue             # an index local changes: roles_of() follows it (a structured binding is not one)
                    if index_swap(ev[1]):
                        continue
                    if match.call_named(ev[1], ("init_winner",)):
                        continue
                raise dtable.Undecidable("%s: effect not understood in init_winner" % fn.loc)
            cur_roles[0] = roles_of(lf["run"], done)
            if by_field:
                names_ = [f_["name"] for f_ in loser_fields(fn)]
                if stored is not None or set(by_field) != set(names_) or len(set(by_field.values())) != 1:
                    raise dtable.Undecidable("%s: the game node is stored field by field, not as one player (%s)" % (fn.loc, dtable.fmt_val(v)))
                stored = by_field[names_[0]]
            ck.require(lf["stop"][0] == "return", "%s: init_winner path without return" % fn.loc)
            rv = lf["stop"][1][0]
            winner = idx_role(rv) if rv is not None else None
        except dtable._Need as nd:
            raise dtable.Undecidable("%s: init_winner consults %s, which the decision table does not know" % (fn.loc, nd.key))
        sig = "row:" + dtable.fmt_val(v)
        if winner not in ("left", "right"):
            raise dtable.Undecidable("%s: value returned by init_winner not understood: %s (%s)" % (fn.loc, dtable.describe(rv), dtable.fmt_val(v)))
        if stored is None or winner == stored:
            # every effect of this row was understood (closed world): no store of the other player to losers_[root], or the
            # promoted player is the one that was stored
            ck.violation("INIT-TABLE", fn.qname, sig, "game node does not store the loser and promote the other player (stored %s, promoted %s)"
                         % (stored, winner), fn.loc)
            viol = True
            continue
        Ls, Rs = v.get("sup_left", False), v.get("sup_right", False)
        P, Q = v["cmp(right,left)"], v["cmp(left,right)"]
        right_lt = (not Rs and Ls) or (not Rs and not Ls and P)
        both_sup = Ls and Rs
        if right_lt and winner != "right":
            ck.violation("INIT-TABLE", fn.qname, sig, "right player strictly smaller but left is promoted (%s)" % dtable.fmt_val(v), fn.loc)
            viol = True
        if not right_lt and not both_sup and winner != "left":
            ck.violation("INIT-TABLE", fn.qname, sig, "left player is smaller or tied (ties go to the lower index) but right is promoted (%s)"
                         % dtable.fmt_val(v), fn.loc)
            viol = True
    ck.states += rows
    if not viol:
        ck.ok("INIT-TABLE", fn.full, "%d consistent rows: left promoted unless right strictly smaller; other player stored" % rows)


# ----------------------------------------------------------------------------
# MIN-SOURCE, PADDING, SWITCH-AGREE
# ----------------------------------------------------------------------------

def check_min_source(ck, fn, pointer_guarded):
    """MIN-SOURCE: every path of min_source is followed (early returns, ternaries, locals, references); the value it returns
    must be losers_[0].source, except - in the guarded pointer tree - when losers_[0].keyp is null, where it must not be"""
    lower_novel_forms(fn)
    bind_reference_locals(fn)

    def atomize(n, run):
        pt = match.ptr_truth(n)
        neg = False
        if pt is None:
            bn = match.binop(n, ("!=", "=="))
            if bn:
                for x_, y_ in ((bn[1], bn[2]), (bn[2], bn[1])):
                    if strip_casts(y_)["k"] in NULLS:
                        pt = x_
                        neg = bn[0] == "=="
        if pt is not None:
            nf = node_field(pt)
            if nf and nf[1] == "keyp" and const_int(nf[0]) == 0:
                return ("live", neg)
        return None

    def value(e, run, cur, depth=0):
        """what an expression of type Source evaluates to on this path: ('node', slot, field) | ('const', c) | None"""
        e = strip_casts(e)
        if e is None or depth > 8:
            return None
        if e["k"] == "ConditionalOperator":
            c, a, b = kids(e)
            return value(a if run.truth(c) else b, run, cur, depth + 1)
        nf = node_field(e)
        if nf:
            return ("node", const_int(nf[0]), nf[1])
        d = ref_of(e)
        if d is not None and d in cur:
            return cur[d]
        if const_int(e) is not None:
            return ("const", const_int(e))
        if e["k"] in ("DeclRefExpr", "MemberExpr") and (e["k"] == "MemberExpr" or e["ref"].get("kind") == "global"):
            if not is_loser_member(e):
                return ("const", dtable.describe(e))          # invalid_ and the like: not a field of a node
        return None

    def locals_of(lf, run):
        """the locals of this path, in the order of its events: declaration and plain assignment give a local the value of
        the right-hand side at that point; any other change of a local makes it unknown"""
        cur = {}
        for ev in lf["events"]:
            if ev[0] == "decl":
                v_ = ev[1]
                if v_.get("isref"):
                    continue                      # an alias: node_field() resolves it
                cur[v_["did"]] = value(kids(v_)[0], run, cur) if kids(v_) and kids(v_)[0] is not None else None
            elif ev[0] == "expr":
                e = ev[1]
                b = match.binop(e) if e["k"] in ("BinaryOperator", "CompoundAssignOperator", "CXXOperatorCallExpr") else None
                if b and b[0].endswith("=") and b[0] not in ("==", "!=", "<=", ">=") and ref_of(b[1]) is not None:
                    cur[ref_of(b[1])] = value(b[2], run, cur) if b[0] == "=" else None
                u = match.unop(e, ("++", "--")) if e["k"] in ("UnaryOperator", "CXXOperatorCallExpr") else None
                if u and ref_of(u[1]) is not None:
                    cur[ref_of(u[1])] = None
            else:
                raise dtable.Undecidable("%s: %s in min_source" % (fn.loc, ev[0]))
        return cur

    leaves = dtable.explore(fn.body, atomize, fn)
    extra = [a for a in dtable.atoms_of(leaves) if a != "live"]
    if extra:
        raise dtable.Undecidable("%s: min_source depends on %s" % (fn.loc, extra))
    seen = 0
    for lf in leaves:
        for live in ((True, False) if pointer_guarded else (True,)):
            if lf["val"].get("live", live) != live:
                continue
            if lf["stop"][0] != "return" or lf["stop"][1][0] is None:
                raise dtable.Undecidable("%s: min_source path without a returned value" % fn.loc)
            run = lf["run"]
            run.val = dict(lf["val"], live=live)
            rv = lf["stop"][1][0]
            try:
                got = value(rv, run, locals_of(lf, run))
            except dtable._Need as nd:
                raise dtable.Undecidable("%s: min_source consults %s" % (fn.loc, nd.key))
            if got is None or (got[0] == "node" and got[1] is None):
                raise dtable.Undecidable("%s: value returned by min_source not understood: %s" % (fn.nloc(rv), dtable.describe(rv)))
            seen += 1
            is_src = got == ("node", 0, "source")
            if pointer_guarded and not live:
                if is_src:
                    ck.violation("MIN-SOURCE", fn.qname, "exhausted", "pointer tree reports a source for an exhausted winner (no keyp test)", fn.loc)
                    return
                if got[0] == "node":
                    ck.violation("MIN-SOURCE", fn.qname, "slot0", "min_source does not report the source stored in slot 0: %s" % dtable.describe(rv), fn.loc)
                    return
                continue
            if not is_src:
                ck.violation("MIN-SOURCE", fn.qname, "slot0", "min_source does not report the source stored in slot 0: %s%s"
                             % (dtable.describe(rv), " (live winner)" if pointer_guarded else ""), fn.loc)
                return
    ck.require(seen > 0, "%s: min_source has no path" % fn.loc)
    if pointer_guarded:
        ck.ok("MIN-SOURCE", fn.full, "returns losers_[0].source, invalid when the winner is exhausted")
    else:
        ck.ok("MIN-SOURCE", fn.full, "returns losers_[0].source")


def check_padding(ck, fn, guarded, pointer):
    """PADDING: the constructor is evaluated on its skeleton for (ik_, k_) = (3, 4), (5, 8), (4, 4), (1, 1), (6, 8): every padding
    leaf k_ + ik_ .. 2 k_ - 1 receives the 'exhausted' / sentinel value, whatever the form of the loop (index or pointer)"""
    from engine import skel
    lower_novel_forms(fn)
    bind_reference_locals(fn)
    fld = "sup" if (guarded and not pointer) else "keyp" if pointer else "key"
    what = "sup = true" if fld == "sup" else "keyp = nullptr" if guarded else "keyp = &sentinel" if pointer else "key = sentinel"
    ck.require(len(fn.params) >= (1 if guarded else 2), "%s: constructor parameters changed" % fn.loc)
    sentinel = None if guarded else fn.params[1]["did"]
    escape = field_escapes(fn) or unmodelled_tree_use(fn, ("fill", "fill_n"))
    unseen = [escape]       # an operation on the tree that the evaluation does not model, met in the text or in one of the runs
    names = [f["name"] for f in loser_fields(fn)]
    # the parameter that initialises ik_ stands for it
    ik_params = [ref_of(i["e"]) for i in fn.inits if i.get("field") == "ik_" and i.get("e") is not None and ref_of(i["e"]) is not None]
    bad = None
    for ik, k in ((3, 4), (5, 8), (4, 4), (1, 1), (6, 8)):
        stores = {}          # slot -> 'ok' | 'bad' | None (value not understood), of the field that marks a leaf as exhausted
        shown = {}
        locals_ = {}         # (local Loser object, field) -> (class, expression) of the last value assigned to it
        st = dict(opaque=escape, whole=set())

        def classify(rhs, sk):
            r = strip_move(rhs)
            if fld == "sup":
                v = sk.ev(rhs)
                return None if v is None or isinstance(v, tuple) else ("ok" if v else "bad")
            if fld == "keyp":
                if r is not None and (r["k"] in NULLS or const_int(r) == 0):
                    return "ok" if guarded else "bad"
                ao = match.call_named(r, ("addressof", "__addressof")) if r is not None else None
                if ao is not None and ao["k"] == "CallExpr" and not ao.get("member_call") and len(kids(ao)) == 1 and kids(ao)[0] is not None:
                    key = sk.lvalue(strip_casts(kids(ao)[0]))          # std::addressof(x) is &x
                    v = ("ptr", key) if key is not None else None
                else:
                    v = sk.ev(rhs)
                if isinstance(v, tuple) and len(v) == 2 and v[0] == "ptr":
                    return "bad" if guarded else ("ok" if v[1] == sentinel else "bad")
                return None
            r = match.strip_conv(r)
            if r is not None and sk.lvalue(r) == sentinel:
                return "ok"
            if r is not None and (const_int(r) is not None or r["k"] in ("CXXScalarValueInitExpr", "ImplicitValueInitExpr") or
                                  (r["k"] in ("CXXTemporaryObjectExpr", "CXXConstructExpr") and not kids(r))):
                return "bad"             # a literal / value-initialised key is not the sentinel
            return None

        def player_value(rhs, sk):
            """(class, expression) of the marking field of a whole player value: a local Loser object whose fields were
            assigned before, or Loser{...} with the fields in declaration order; None if it is something else"""
            r = match.strip_conv(rhs)
            if r is None:
                return None
            d = sk.lvalue(r) if ref_of(r) is not None else None      # the object itself or a reference bound to it
            if _is_int(d) and (d, fld) in locals_:
                return locals_[(d, fld)]
            if r["k"] == "InitListExpr" and len(kids(r)) == len(names) and fld in names:
                x = kids(r)[names.index(fld)]
                return classify(x, sk), x
            return None

        def assign_whole(slots, rhs, sk):
            pv = player_value(rhs, sk)
            for slot in slots:
                if pv is None:
                    st["whole"].add(slot)
                    stores.pop(slot, None)
                else:
                    stores[slot], shown[slot] = pv

        def event(e, sk):
            v = tree_accessor(e, 2 * k)
            if v is not None:
                return v
            bq = match.binop(e, ("=",)) if e["k"] in ("BinaryOperator", "CXXOperatorCallExpr") else None
            if bq:
                lhs = strip_casts(bq[1])
                if is_loser_member(lhs) and not match.this_field(lhs):
                    slot, _ix = object_slot(fn, kids(lhs)[0], lhs.get("arrow"), sk)
                    if slot is None:
                        d = local_key(kids(lhs)[0], lhs.get("arrow"), sk)
                        if d is None:
                            raise dtable.Undecidable("%s: store to a player object not understood: %s" % (fn.nloc(e), dtable.describe(e)))
                        locals_[(d, lhs["member"])] = (classify(bq[2], sk), bq[2]) if lhs["member"] == fld else (None, bq[2])
                        return None
                    if lhs["member"] == fld:
                        stores[slot] = classify(bq[2], sk)
                        shown[slot] = bq[2]
                    return None
                if is_loser_object(lhs):
                    slot = object_slot(fn, lhs, False, sk)[0]
                    if slot is None:
                        return NotImplemented
                    assign_whole([slot], bq[2], sk)
                    return None
            if "callee" in e and e["callee"]["name"] in ("fill", "fill_n") and not e.get("member_call") and len(kids(e)) == 3:
                a, b = sk.ev(kids(e)[0]), sk.ev(kids(e)[1])
                if _is_int(a) and _is_int(b):
                    assign_whole(range(a, b if e["callee"]["name"] == "fill" else a + b), kids(e)[2], sk)
                    return None
            if opaque_tree_call(e, sk) and st["opaque"] is None:
                st["opaque"] = "%s: call not understood: %s" % (fn.nloc(e), dtable.describe(e)[:80])
            return NotImplemented
        env = {("field", "ik_"): ik, ("field", "k_"): k, ("field", TREE): 0}
        for d in ik_params:
            env[d] = ik
        sk = skel.Skel(fn, env, None, event, max_iter=64)
        try:
            sk.run(kids(fn.body))
        except skel.Return:
            pass
        except skel.Diverges:
            raise dtable.Undecidable("%s: constructor loop does not end in the evaluation with ik_ = %d, k_ = %d" % (fn.loc, ik, k))
        unseen[0] = unseen[0] or st["opaque"]
        padding = list(range(k + ik, 2 * k))
        miss = [p for p in padding if p not in stores]
        if miss:
            # closed world: every statement of the constructor was evaluated; a store the evaluation cannot see makes it undecidable
            if st["opaque"]:
                raise dtable.Undecidable(st["opaque"])
            if st["whole"] & set(miss):
                raise dtable.Undecidable("%s: padding leaves are written as whole nodes" % fn.loc)
            if bad is None:
                bad = ("range", ik, k, miss, None)
            continue
        unk = [p for p in padding if stores[p] is None]
        if unk:
            raise dtable.Undecidable("%s: value stored to the padding leaves not understood: %s" % (fn.nloc(shown[unk[0]]), dtable.describe(shown[unk[0]])))
        wrong = [p for p in padding if stores[p] == "bad"]
        if wrong and bad is None:
            bad = ("value", ik, k, wrong, shown[wrong[0]])
    if bad and unseen[0]:
        raise dtable.Undecidable(unseen[0])     # a store the evaluation does not see may follow the ones it saw
    if bad and bad[0] == "range":
        _, ik, k, miss, _ = bad
        ck.violation("PADDING", fn.qname, "range", "constructor loop does not cover all padding leaves [k_+ik_, 2k_): with ik_ = %d, k_ = %d the leaves %s get no %s"
                     % (ik, k, miss, fld), fn.loc)
        return
    if bad:
        _, ik, k, wrong, rhs = bad
        ck.violation("PADDING", fn.qname, "value", "padding leaves are not initialised as exhausted/sentinel (%s expected): with ik_ = %d, k_ = %d the leaves %s get %s = %s"
                     % (what, ik, k, wrong, fld, dtable.describe(rhs)), fn.loc)
        return
    ck.ok("PADDING", fn.full, "every padding leaf [k_+ik_, 2k_) initialised for (ik_, k_) in {(3,4), (5,8), (4,4), (1,1), (6,8)}: %s" % what)


# ----------------------------------------------------------------------------
# PADDING (lifetime): the object that a key pointer stored in a node designates outlives the call that stores it
# ----------------------------------------------------------------------------
# The pointer trees do not copy keys: a node holds the address of a key (the sentinel of the padding leaves, the key handed
# to insert_start / delete_min_insert) and every later comparison reads through it.  The address of an object that dies
# with the storing call - a parameter passed by value, a local, a temporary - must therefore never reach a pointer field
# of a node.  Every store of a pointer into a pointer field of a Loser object is looked up (assignment to the field, swap
# with the field, Loser{.., p}, the argument of a project function that keeps its parameter - the base-class constructor
# call of a derived constructor among them) and the stored expression is resolved to the object it designates:
#   null, a value read from a node, the value of a pointer parameter, the address of (a part of) the object behind a
#   reference parameter, of *this, of a global                                   -> lives on (the caller's business)
#   the address of (a part of) a by-value parameter, a local, a temporary        -> violation (positive: the store is there)
#   anything else                                                                -> Undecidable
# The analysis does not order statements: a pointer local with several possible values of which one is short-lived, and
# a short-lived address in a Loser object that is not seen to reach the tree, are Undecidable, not violations.

_REFCASTS = ("ImplicitCastExpr", "CStyleCastExpr", "CXXStaticCastExpr", "CXXReinterpretCastExpr", "CXXConstCastExpr", "ParenExpr")
_TEMP_KINDS = ("CXXConstructExpr", "CXXTemporaryObjectExpr", "CXXFunctionalCastExpr", "ImplicitCastExpr", "InitListExpr", "CXXScalarValueInitExpr",
               "IntegerLiteral", "FloatingLiteral", "CharacterLiteral", "CXXBoolLiteralExpr", "StringLiteral", "CStyleCastExpr", "CXXStaticCastExpr")


def _is_ptr_type(t):
    return _bare_type(t).endswith("*")


def _strip_ptr(e):
    """looks through casts from pointer to pointer"""
    while e is not None and e["k"] in _REFCASTS + ("CXXFunctionalCastExpr",) and kids(e) and kids(e)[0] is not None and \
            _is_ptr_type(e.get("ty")) and (_is_ptr_type(kids(e)[0].get("ty")) or _bare_type(kids(e)[0].get("ty")).endswith("]")):
        e = kids(e)[0]
    return e


def _strip_lv(e):
    """looks through casts that name the same object (an lvalue of an lvalue)"""
    while e is not None and e["k"] in _REFCASTS and kids(e) and kids(e)[0] is not None and e.get("lv") and kids(e)[0].get("lv"):
        e = kids(e)[0]
    return e


def _may_write(root, d):
    """the code under root may change the variable d: it assigns to it, steps it, takes its address, or hands it to a call"""
    for y in ir.walk(root):
        if y["k"] in ("BinaryOperator", "CompoundAssignOperator", "CXXOperatorCallExpr"):
            b = match.binop(y)
            if b and b[0].endswith("=") and b[0] not in ("==", "!=", "<=", ">=") and ref_of(b[1]) == d:
                return True
        if y["k"] == "UnaryOperator" and y.get("op") in ("++", "--", "&") and kids(y) and ref_of(kids(y)[0]) == d:
            return True
        if y["k"] == "LambdaExpr" and any(c.get("id") == d for c in y.get("captures") or ()):
            return True
        if "callee" in y and not match.index_parts(y) and y["callee"]["name"] not in ("unused",) and \
                any(a is not None and ref_of(a) == d for a in kids(y)):
            return True
    return False


class _LifeFn:
    """one function: where pointers are stored into pointer fields of Loser objects and what they designate"""

    def __init__(self, life, fn):
        self.life, self.fn = life, fn
        self.decl = {x["did"]: x for x in fn.nodes() if x["k"] == "VarDecl" and x.get("did") is not None}
        self.param = {p["did"]: (i, p) for i, p in enumerate(fn.params)}
        self.assigned, self.swapped, self.escaped = {}, {}, {}
        self.order = {}
        for i, x in enumerate(fn.nodes()):
            self.order.setdefault(id(x), i)
        self.sites = {}          # variable -> [(position in the text, node, value written there)]: initialiser, assignments, swaps
        self.at = None           # position of the store whose value is being resolved
        self.jumps = any(x["k"] in ("GotoStmt", "LabelStmt", "IndirectGotoStmt") for x in fn.nodes())
        for x in fn.nodes():
            if x["k"] == "VarDecl" and x.get("did") is not None and kids(x) and kids(x)[0] is not None and not x.get("isref"):
                self.sites.setdefault(x["did"], []).append((self.order[id(x)], x, kids(x)[0]))
            if x["k"] == "LambdaExpr":
                lf = fn.tu.by_did.get(x.get("fn")) if fn.tu is not None else None
                for c in x.get("captures") or ():
                    if c.get("byref") and c.get("id") is not None and (lf is None or lf.body is None or _may_write(lf.body, c["id"])):
                        self.escaped.setdefault(c["id"], x)       # the lambda's body may write it
            if x["k"] in ("BinaryOperator", "CXXOperatorCallExpr"):
                b = match.binop(x, ("=",))
                d = self.variable(b[1]) if b else None
                if d is not None:
                    self.assigned.setdefault(d, []).append(b[2])
                    self.sites.setdefault(d, []).append((self.order[id(x)], x, b[2]))
            if x["k"] == "UnaryOperator" and x.get("op") == "&" and kids(x):
                d = self.variable(kids(x)[0])
                if d is not None and self.is_pointer_variable(d):
                    self.escaped.setdefault(d, x)
            if "callee" not in x or x["k"] in ("CXXConstructExpr", "CXXTemporaryObjectExpr") or match.index_parts(x):
                continue
            if self.swap_call(x):
                a, b_ = kids(x)
                for s, o in ((a, b_), (b_, a)):
                    d = self.variable(s)
                    if d is not None:
                        self.swapped.setdefault(d, []).append(o)
                        self.sites.setdefault(d, []).append((self.order[id(x)], x, o))
                continue
            if x["callee"]["name"] in ("move", "forward", "unused", "addressof", "min", "max") or x["k"] == "CXXOperatorCallExpr" and x.get("op") != "()":
                continue
            callee = self.life.callee(x)
            pairs = self.life.arguments(x, callee)
            if callee is None and x["k"] == "CXXOperatorCallExpr" and x.get("op") == "()":
                # a call of a lambda (node_wins(node, keyp, source)): its declared parameters say whether it can change the
                # caller's variable; a parameter taken by value or by reference to const cannot
                lf = fn.tu.by_did.get(x["callee"].get("did")) if fn.tu is not None else None
                if lf is not None and lf.kind == "lambda" and len(kids(x)) == len(lf.params) + 1 and \
                        not any(a is None or a["k"] == "DefaultArg" for a in kids(x)):
                    callee = lf
                    pairs = list(enumerate(kids(x)[1:]))
            for i, a in pairs:
                d = self.variable(a) if a is not None else None
                if d is None or not self.is_pointer_variable(d):
                    continue
                ty = (callee.params[i].get("ty") or "").rstrip() if callee is not None and i is not None and i < len(callee.params) else None
                inner = ty.rstrip("&").rstrip() if ty is not None and ty.endswith("&") else None
                if ty is None or (inner is not None and not inner.endswith("const") and (inner.endswith("*") or not inner.startswith("const "))):
                    self.escaped.setdefault(d, x)       # the callee may change the pointer (it binds it to a reference that is not const)

    # -- variables ---------------------------------------------------------
    def swap_call(self, x):
        return "callee" in x and x["callee"]["name"] == "swap" and not x.get("member_call") and x["k"] == "CallExpr" and \
            len(kids(x)) == 2 and all(a is not None for a in kids(x))

    def variable(self, e, depth=0):
        """declaration id of the local / parameter that the lvalue e names (through reference locals bound to one)"""
        e = _strip_lv(e)
        if e is None or e["k"] != "DeclRefExpr" or depth > 6 or e["ref"].get("kind") not in ("local", "param", "staticlocal"):
            return None
        d = e["ref"]["id"]
        v = self.decl.get(d)
        if v is not None and v.get("isref"):
            return self.variable(kids(v)[0], depth + 1) if kids(v) and kids(v)[0] is not None else None
        return d

    def is_pointer_variable(self, d):
        v = self.decl.get(d) or (self.param.get(d) or (None, None))[1]
        return v is not None and _is_ptr_type(v.get("ty"))

    def pointer_field(self, e, depth=0):
        """the Loser object whose pointer field the lvalue e names, as (object expression, arrow); None if e is something else"""
        e = _strip_lv(e)
        if e is None or depth > 6:
            return None
        if e["k"] == "MemberExpr" and (e.get("owner") or "").endswith("::Loser") and kids(e) and _is_ptr_type(e.get("ty")):
            return kids(e)[0], bool(e.get("arrow"))
        if e["k"] == "DeclRefExpr":
            v = self.decl.get(e["ref"]["id"])
            if v is not None and v.get("isref") and kids(v) and kids(v)[0] is not None:
                return self.pointer_field(kids(v)[0], depth + 1)
        return None

    def undecided(self, e, what):
        return dtable.Undecidable("%s: %s: %s" % (self.fn.nloc(e), what, dtable.describe(e)[:80]))

    # -- what a pointer value / an lvalue designates -------------------------
    def pointer_roots(self, e, seen=()):
        """the objects that the pointer value e may designate: a list of (kind, detail, node), kind 'ok' | 'caller' | 'bad' | 'bad?'"""
        e = _strip_ptr(e)
        if e is None or len(seen) > 12:
            raise dtable.Undecidable("%s: a stored key pointer is not resolved" % self.fn.loc)
        k = e["k"]
        if k in NULLS or const_int(e) == 0:
            return [("ok", "null", e)]
        if k == "This":
            return [("ok", "this", e)]
        if k == "UnaryOperator" and e.get("op") == "&" and kids(e):
            return self.object_roots(kids(e)[0], seen)
        if k == "UnaryOperator" and e.get("op") in ("++", "--") and kids(e):
            return self.pointer_roots(kids(e)[0], seen)
        if self.pointer_field(e) is not None:
            return [("ok", "node", e)]                       # read from a Loser object: what was stored there was judged at its store
        if k == "DeclRefExpr":
            if _bare_type(e.get("ty")).endswith("]"):
                return self.object_roots(e, seen)             # an array decays to the address of its first element
            d = self.variable(e)
            if d is None or not self.is_pointer_variable(d):
                raise self.undecided(e, "pointer stored as a key pointer is not resolved to the object it designates")
            return self.variable_roots(d, e, seen)
        if k in ("BinaryOperator", "CompoundAssignOperator") and len(kids(e)) == 2:
            a, b = kids(e)
            if e.get("op") == ",":
                return self.pointer_roots(b, seen)
            if e.get("op") in ("+", "-", "+=", "-="):
                ptrs = [x for x in (a, b) if x is not None and (_is_ptr_type(x.get("ty")) or _bare_type(x.get("ty")).endswith("]"))]
                if len(ptrs) == 1:
                    return self.pointer_roots(ptrs[0], seen)
        if k == "ConditionalOperator" and len(kids(e)) == 3:
            return self.pointer_roots(kids(e)[1], seen) + self.pointer_roots(kids(e)[2], seen)
        if "callee" in e and k == "CallExpr":
            name = e["callee"]["name"]
            args = [a for a in kids(e) if a is not None]
            if not e.get("member_call"):
                if name in ("addressof", "__addressof") and len(args) == 1:
                    return self.object_roots(args[0], seen)
                if name in ("move", "forward", "launder") and len(args) == 1:
                    return self.pointer_roots(args[0], seen)
            r = self.returned(e, seen)
            if r is not None:
                return r
        raise self.undecided(e, "pointer stored as a key pointer is not resolved to the object it designates")

    def variable_roots(self, d, e, seen):
        if d in seen:
            return []
        if d in self.escaped:
            raise self.undecided(self.escaped[d], "a pointer that is stored as a key pointer can be changed through this")
        sources = []
        if d in self.param:
            sources.append(None)
        else:
            v = self.decl.get(d)
            if v is None:
                raise self.undecided(e, "pointer stored as a key pointer is not a local of this function")
            if kids(v) and kids(v)[0] is not None:
                sources.append(kids(v)[0])
        sources += self.assigned.get(d, []) + self.swapped.get(d, [])
        out = []
        for s in sources:
            out += [("caller", (self.param[d][0], "value"), e)] if s is None else self.pointer_roots(s, seen + (d,))
        if len(sources) > 1:
            out = [(("bad?" if r[0] == "bad" else r[0]),) + r[1:] for r in out]      # which value it holds at the store is not followed ...
            first = self.value_on_first_arrival(d)
            if first is not None:                            # ... except the one it holds when the store is reached for the first time
                at, self.at = self.at, first[0]
                try:
                    sure = [("caller", (self.param[d][0], "value"), e)] if first[1] is None else self.pointer_roots(first[1], seen + (d,))
                finally:
                    self.at = at
                out += [r for r in sure if r[0] == "bad"]
        return out

    def value_on_first_arrival(self, d):
        """(position, expression) of the write that gives the variable d the value it holds when the store under examination
        (self.at) is reached for the first time: the last write before it in the text, provided that write is a statement of
        the function's outermost block (it is executed once, and what lies before it in the text cannot run after it; what
        lies between it and the store does not write d).  (-1, None): the value the parameter has on entry.  None: not known."""
        if self.at is None or self.jumps:
            return None
        before = [w for w in self.sites.get(d, []) if w[0] < self.at]
        if not before:
            return (-1, None) if d in self.param else None
        pos, node, value = max(before, key=lambda w: w[0])
        fn = self.fn
        p = fn.parent(node)
        while p is not None and p is not fn.body and (p["k"] in _CASTS or p["k"] == "DeclStmt"):
            p = fn.parent(p)
        if p is None or p is not fn.body or fn.body is None or fn.body["k"] != "CompoundStmt":
            return None
        return pos, value

    def object_roots(self, lv, seen=()):
        """the objects that the lvalue lv (the operand of &, the argument bound to a reference whose address is kept) may be (part of)"""
        e = _strip_lv(lv)
        if e is None or len(seen) > 12:
            raise dtable.Undecidable("%s: a stored key pointer is not resolved" % self.fn.loc)
        k = e["k"]
        if k == "DeclRefExpr":
            kind, d, name = e["ref"].get("kind"), e["ref"]["id"], e["ref"].get("name")
            if kind in ("global", "staticlocal"):
                return [("ok", "static", e)]
            if kind == "param" and d in self.param:
                i, p = self.param[d]
                if (p.get("ty") or "").rstrip().endswith("&"):
                    return [("caller", (i, "address"), e)]
                return [("bad", ("parameter", name, "passed by value (%s)" % p.get("ty")), e)]
            v = self.decl.get(d) if kind == "local" else None
            if v is None:
                raise self.undecided(e, "object whose address is stored as a key pointer is not known")
            if v.get("static"):
                return [("ok", "static", e)]
            if v.get("isref"):
                if not kids(v) or kids(v)[0] is None or d in seen:
                    raise self.undecided(e, "reference whose referent's address is stored as a key pointer is not resolved")
                return self.object_roots(kids(v)[0], seen + (d,))
            return [("bad", ("local", name, "of type %s" % v.get("ty")), e)]
        if k == "MemberExpr" and kids(e):
            if e.get("arrow"):
                return self.pointer_roots(kids(e)[0], seen)
            return self.object_roots(kids(e)[0], seen)
        ip = match.index_parts(e)
        if ip:
            base = _strip_lv(ip[0])
            if _is_ptr_type(base.get("ty")):
                return self.pointer_roots(base, seen)
            if match.this_field(base):
                return [("ok", "this", e)]
            r = self.object_roots(base, seen)
            if e["k"] != "ArraySubscriptExpr" and any(x[0] in ("bad", "bad?") for x in r):
                raise self.undecided(e, "element of a local container: whether it dies with the container is not known")
            return r
        q = match.deref_of(e)
        if q is not None:
            if _is_ptr_type(_strip_ptr(q).get("ty")):
                return self.pointer_roots(q, seen)
            raise self.undecided(e, "object whose address is stored as a key pointer is reached through an iterator")
        if k == "ConditionalOperator" and len(kids(e)) == 3 and e.get("lv"):
            return self.object_roots(kids(e)[1], seen) + self.object_roots(kids(e)[2], seen)
        if "callee" in e and k == "CallExpr":
            name = e["callee"]["name"]
            args = [a for a in kids(e) if a is not None]
            if not e.get("member_call") and name in ("as_const", "move", "forward") and len(args) == 1:
                return self.object_roots(args[0], seen)
            if not e.get("member_call") and name in ("min", "max") and len(args) == 2 and e["callee"].get("qname", "").startswith("std::"):
                return self.object_roots(args[0], seen) + self.object_roots(args[1], seen)
            if e.get("lv"):
                r = self.returned(e, seen)
                if r is not None:
                    return r
                raise self.undecided(e, "object whose address is stored as a key pointer is the result of a call that is not known")
        if not e.get("lv") and (k in _TEMP_KINDS or ("callee" in e and k == "CallExpr")):
            return [("bad", ("temporary", dtable.describe(e)[:60], "(a value of type %s made here, which lives until the end of the full expression)" % e.get("ty")), e)]
        raise self.undecided(e, "object whose address is stored as a key pointer is not resolved")

    def returned(self, call, seen):
        """roots of the pointer / reference that a project function returns, its parameters replaced by the arguments of the call"""
        callee = self.life.callee(call)
        if callee is None or callee.body is None or callee.did == self.fn.did:
            return None
        rets = self.life.returns(callee, call["callee"].get("ret") or "")
        if rets is None:
            return None
        out = []
        args = dict(self.life.arguments(call, callee))
        for r in rets:
            if r[0] != "caller":
                out.append((r[0], r[1], call))
                continue
            i, mode = r[1]
            a = args.get(i)
            if a is None or a["k"] == "DefaultArg":
                raise self.undecided(call, "argument of this call not found")
            out += self.pointer_roots(a, seen) if mode == "value" else self.object_roots(a, seen)
        return out

    # -- where a store goes ------------------------------------------------------
    def object_kind(self, o, arrow=False, depth=0):
        """'tree' if the Loser object o is a node of the tree, ('local', id) for a local object of the function, 'unknown' otherwise"""
        if o is None or depth > 8:
            return "unknown"
        if arrow:
            return self.pointee_kind(o, depth + 1)
        o = _strip_lv(o)
        ip = match.index_parts(o)
        if ip:
            if match.this_field(ip[0]) == TREE:
                return "tree"
            return self.pointee_kind(ip[0], depth + 1) if _is_ptr_type(_strip_ptr(ip[0]).get("ty")) else "unknown"
        q = match.deref_of(o)
        if q is not None:
            return self.pointee_kind(q, depth + 1)
        if o["k"] == "DeclRefExpr" and o["ref"].get("kind") == "local":
            v = self.decl.get(o["ref"]["id"])
            if v is None:
                return "unknown"
            if v.get("isref"):
                return self.object_kind(kids(v)[0], False, depth + 1) if kids(v) else "unknown"
            return ("local", o["ref"]["id"])
        return "unknown"

    def pointee_kind(self, p, depth=0, seen=()):
        p = _strip_ptr(p)
        if p is None or depth > 8:
            return "unknown"
        if "callee" in p and tree_accessor(p, 1) is not None and p["callee"]["name"] != "size":
            return "tree"
        if p["k"] == "UnaryOperator" and p.get("op") == "&" and kids(p):
            return self.object_kind(kids(p)[0], False, depth + 1)
        if p["k"] in ("BinaryOperator",) and p.get("op") in ("+", "-") and len(kids(p)) == 2:
            ptrs = [x for x in kids(p) if x is not None and _is_ptr_type(x.get("ty"))]
            return self.pointee_kind(ptrs[0], depth + 1, seen) if len(ptrs) == 1 else "unknown"
        if p["k"] == "DeclRefExpr":
            d = self.variable(p)
            if d is None or d in self.param or d in self.escaped or d not in self.decl:
                return "unknown"
            v = self.decl[d]
            srcs = ([kids(v)[0]] if kids(v) and kids(v)[0] is not None else []) + self.assigned.get(d, [])
            kinds = set()
            for s in srcs:
                if any(y["k"] == "DeclRefExpr" and y["ref"]["id"] == d for y in ir.walk(s)):
                    continue                                  # game = base + (game - base) / 2: stays where it is
                kinds.add(self.pointee_kind(s, depth + 1, seen + (d,)))
            return kinds.pop() if len(kinds) == 1 and d not in self.swapped else "unknown"
        return "unknown"

    def reaches_tree(self, d):
        """the local Loser object d is copied / swapped as a whole into a node of the tree somewhere in the function"""
        def is_d(e):
            e = _strip_lv(match.strip_conv(strip_move(e)))
            return e is not None and self.object_kind(e) == ("local", d)
        for x in self.fn.nodes():
            if x["k"] in ("BinaryOperator", "CXXOperatorCallExpr"):
                b = match.binop(x, ("=",))
                if b and is_d(b[2]) and self.object_kind(b[1]) == "tree":
                    return True
            if self.swap_call(x):
                a, b_ = kids(x)
                if (is_d(a) and self.object_kind(b_) == "tree") or (is_d(b_) and self.object_kind(a) == "tree"):
                    return True
            if "callee" in x and x["callee"]["name"] in ("fill", "fill_n") and not x.get("member_call") and len(kids(x)) == 3 and \
                    is_d(kids(x)[2]) and self.pointee_kind(kids(x)[0]) == "tree":
                return True
        return False

    # -- the stores -----------------------------------------------------------------
    def stores(self):
        """(value roots, target kind, node, text) for every pointer that the function puts into a pointer field of a Loser object
        or hands to a function that does"""
        fn = self.fn
        out = []
        fields = None
        for x in fn.nodes():
            if x["k"] in ("BinaryOperator", "CXXOperatorCallExpr"):
                b = match.binop(x, ("=",))
                pf = self.pointer_field(b[1]) if b else None
                if pf:
                    self.at = self.order.get(id(x))
                    out.append((self.pointer_roots(b[2]), self.object_kind(*pf), x, "%s = %s" % (dtable.describe(b[1]), dtable.describe(b[2]))))
            if self.swap_call(x):
                a, b_ = kids(x)
                for s, o in ((a, b_), (b_, a)):
                    pf = self.pointer_field(s)
                    if pf and self.pointer_field(o) is None and _is_ptr_type(_strip_lv(o).get("ty")):
                        self.at = self.order.get(id(x))
                        out.append((self.pointer_roots(o), self.object_kind(*pf), x, "swap(%s, %s)" % (dtable.describe(s), dtable.describe(o))))
            if x["k"] == "InitListExpr" and _bare_type(x.get("ty")).endswith("::Loser"):
                if fields is None:
                    recs = [r for r in fn.tu.records if r["qname"].endswith("::Loser") and (r.get("full") or r["qname"]) == _bare_type(x.get("ty"))]
                    recs = recs or [r for r in fn.tu.records if r["qname"] == (CLASSES_BASE(fn) or "") + "::Loser"]
                    fields = recs[0]["fields"] if recs else []
                if len(fields) == len(kids(x)):
                    for f, v in zip(fields, kids(x)):
                        if _is_ptr_type(f.get("ty")) and v is not None:
                            self.at = self.order.get(id(x))
                            out.append((self.pointer_roots(v), self.init_list_target(x), x, "Loser{.. %s ..}" % dtable.describe(v)))
                elif any(_is_ptr_type(v.get("ty")) for v in kids(x) if v is not None):
                    raise self.undecided(x, "fields of this player value not understood")
        for c in fn.nodes():             # the initialisers of a constructor (the call of the base-class constructor) are among them
            if "callee" not in c or match.index_parts(c) or self.swap_call(c):
                continue
            callee = self.life.callee(c)
            if callee is None or callee.body is None:
                continue
            kept = self.life.kept(callee)
            if not kept:
                continue
            args = dict(self.life.arguments(c, callee))
            for (i, mode), sure in sorted(kept.items()):
                a = args.get(i)
                if a is None or a["k"] == "DefaultArg":
                    continue
                self.at = self.order.get(id(c))
                roots = self.pointer_roots(a) if mode == "value" else self.object_roots(a)
                out.append((roots, "tree" if sure else "unknown", c, "%s(.. %s ..), which keeps %s parameter %s in a node" % (
                    callee.name, dtable.describe(a), "its pointer" if mode == "value" else "the address of its reference",
                    callee.params[i].get("name"))))
        return out

    def init_list_target(self, x):
        """where a Loser{...} value goes"""
        fn = self.fn
        p, c = fn.parent(x), x
        while p is not None and (p["k"] in _CASTS or p["k"] in ("CXXConstructExpr", "CXXTemporaryObjectExpr", "CXXFunctionalCastExpr")) and len(kids(p)) == 1:
            p, c = fn.parent(p), p
        if p is None:
            return "unknown"
        if p["k"] == "VarDecl" and not p.get("isref") and p.get("did") is not None:
            return ("local", p["did"])
        b = match.binop(p, ("=",)) if p["k"] in ("BinaryOperator", "CXXOperatorCallExpr") else None
        if b and b[2] is c:
            return self.object_kind(b[1])
        if "callee" in p and p["callee"]["name"] in ("fill", "fill_n") and not p.get("member_call") and len(kids(p)) == 3 and kids(p)[2] is c:
            return self.pointee_kind(kids(p)[0])
        return "unknown"


class _Life:
    """one translation unit: summaries of the project functions (which parameters end up in a node, what is returned)"""

    def __init__(self, tu):
        self.tu = tu
        self.ctx = {}
        self.keeps = {}         # function id -> {(parameter index, 'value' | 'address'): True if it surely reaches the tree}
        self.rets = {}
        self.active = set()
        self.done = {}

    def context(self, fn):
        c = self.ctx.get(fn.did)
        if c is None:
            if fn.record in CLASSES or any(fn.record == i["base"] for i in CLASSES.values()):
                lower_novel_forms(fn)
            c = self.ctx[fn.did] = _LifeFn(self, fn)
        return c

    def callee(self, call):
        f = self.tu.by_did.get(call["callee"].get("did")) if "callee" in call else None
        return f if f is not None and f.kind != "lambda" else None

    def arguments(self, call, callee):
        """(parameter index, argument) pairs of a call; index None if the callee's parameters are not known"""
        args = list(kids(call))
        if call.get("member_call") or (call["k"] == "CXXOperatorCallExpr" and callee is not None and callee.record and len(args) == len(callee.params) + 1) \
                or (callee is None and call["k"] == "CXXOperatorCallExpr"):
            args = args[1:]
        return [((i if callee is not None else None), a) for i, a in enumerate(args)]

    def analyse(self, fn):
        """(stores, problems) of fn; its summary goes to self.keeps"""
        if fn.did in self.done:
            return self.done[fn.did]
        if fn.did in self.active or len(self.active) > 8:
            return None
        self.active.add(fn.did)
        try:
            cx = self.context(fn)
            stores = cx.stores()
            keep = dict(self.keeps.get(fn.did, {}))
            for roots, target, node, text in stores:
                if isinstance(target, tuple):
                    target = "tree" if cx.reaches_tree(target[1]) else "unknown"
                for r in roots:
                    if r[0] == "caller":
                        keep[r[1]] = keep.get(r[1], False) or target == "tree"
            self.keeps[fn.did] = keep
            self.done[fn.did] = stores
            return stores
        finally:
            self.active.discard(fn.did)

    def kept(self, callee):
        if callee.did not in self.done and callee.did not in self.active:
            if not any(x["k"] == "MemberExpr" and (x.get("owner") or "").endswith("::Loser") or
                       x["k"] == "InitListExpr" and _bare_type(x.get("ty")).endswith("::Loser") or
                       ("callee" in x and x["callee"].get("did") in self.tu.by_did and not match.index_parts(x)) for x in callee.nodes()):
                self.done[callee.did] = []                  # touches no player and calls nothing that could
                self.keeps[callee.did] = {}
            else:
                self.analyse(callee)
        return self.keeps.get(callee.did, {})

    def returns(self, callee, ret):
        """roots of what the project function returns (a pointer, or the object behind a returned reference); None if it returns neither"""
        ret = ret.rstrip()
        byref = ret.endswith("&")
        if not byref and not _is_ptr_type(ret):
            return None
        key = (callee.did, byref)
        if key in self.rets:
            return self.rets[key]
        if key in self.active:
            return []
        self.active.add(key)
        try:
            cx = self.context(callee)
            out = []
            for x in callee.nodes():
                if x["k"] == "ReturnStmt" and kids(x) and kids(x)[0] is not None:
                    cx.at = cx.order.get(id(x))
                    out += cx.object_roots(kids(x)[0]) if byref else cx.pointer_roots(kids(x)[0])
            self.rets[key] = out
            return out
        finally:
            self.active.discard(key)


def key_lifetime_functions(tu):
    """the member functions of the trees whose nodes hold pointers"""
    out = []
    for rec, info in CLASSES.items():
        if not info["pointer"]:
            continue
        for f in tu.find(record=rec):
            if f.body is not None and f.rtargs[1:2] not in (["S16"], ["S24"]):
                out.append(f)
        for f in tu.find(record=info["base"]):
            if f.body is not None and f.rtargs[:1] not in (["S16"], ["S24"]):
                out.append(f)
    return out


def check_key_lifetime(ck, tu):
    """PADDING (lifetime): no node of a pointer tree is given the address of an object that dies with the storing call"""
    fns = key_lifetime_functions(tu)
    life = _Life(tu)
    for _round in range(6):             # summaries of functions that call each other: until nothing changes
        before = {d: dict(k) for d, k in life.keeps.items()}
        life.done.clear()
        for fn in fns:
            try:
                life.analyse(fn)
            except ir.AnalysisBroken:
                pass                    # said again below, where it is recorded
        if before == life.keeps:
            break

    def report(fn):
        stores = life.analyse(fn)
        cx = life.context(fn)
        undecided = None
        reported = set()
        for roots, target, node, text in stores or ():
            if isinstance(target, tuple):
                target = "tree" if cx.reaches_tree(target[1]) else "unknown"
            for kind, detail, at in roots:
                if kind not in ("bad", "bad?"):
                    continue
                what, name, more = detail
                if kind == "bad?" or target != "tree":
                    undecided = undecided or "%s: the address of %s %s may be stored in a node (%s): %s" % (
                        fn.nloc(node), what, name, "the pointer has several values in this function" if kind == "bad?" else
                        "the player object written here is not seen to be a node", text)
                    continue
                if (what, name) in reported:
                    continue
                reported.add((what, name))
                ck.violation("PADDING", fn.qname, "lifetime:%s" % name,
                             "a node keeps the address of %s %s %s, which is gone when %s returns: %s (line %s); every later comparison "
                             "against that node reads a dead object"
                             % (what, name, more, fn.name, text, node.get("l", "?")), fn.nloc(node))
        if reported:
            return
        if undecided:
            raise dtable.Undecidable(undecided)
        if stores:
            ck.ok("PADDING", fn.full, "%d key pointer(s) put into nodes: each is null, read from a node, a pointer of the caller or the address of "
                  "an object of the caller (reference parameter)" % len(stores))
    found = [0]

    def counted(fn):
        found[0] += len(life.analyse(fn) or ())
        report(fn)
    for fn in fns:
        ck.guarded(lambda fn=fn: counted(fn))
    if not ck.deferred:
        # insert_start and delete_min_insert hand a key pointer to a node, however they are written
        ck.require(found[0] > 0, "no store of a key pointer into a node found in the pointer trees (anchor vanished)")


def check_switch(ck, tu):
    fn = tu.one(qname="witness_c09_switch") if tu.find(qname="witness_c09_switch") else None
    ck.require(fn is not None, "switch witness missing")
    got = {}
    for x in ir.walk(fn.body):
        if x["k"] == "VarDecl" and x.get("ty", "").startswith("tlx::LoserTree"):
            got[x["name"]] = x["ty"]
    exp = {"a": ("tlx::LoserTreeCopy<", "16-byte value, guarded"), "b": ("tlx::LoserTreePointer<", "24-byte value, guarded"),
           "c": ("tlx::LoserTreeCopyUnguarded<", "16-byte value, unguarded"), "d": ("tlx::LoserTreePointerUnguarded<", "24-byte value, unguarded")}
    for name, (prefix, what) in exp.items():
        # the witness (verif's own file) declares a..d; the type clang resolved for each is a fact, not a shape
        ck.require(name in got, "switch witness: local %s of a tlx::LoserTree type not found" % name)
        ty = got[name]
        if ty.startswith(prefix):
            ck.ok("SWITCH-AGREE", "LoserTree%s switch: %s" % ("Unguarded" if name in "cd" else "", what), "-> " + ty.split("<")[0], nontrivial=False)
        else:
            ck.violation("SWITCH-AGREE", "tlx::LoserTree%sSwitch" % ("Unguarded" if name in "cd" else ""), "size:" + what.split(",")[0].replace(" ", ""),
                         "%s selects %s, expected %s...>" % (what, ty, prefix), "tlx/container/loser_tree.hpp")


def check_trees_in(ck, tu):
    """the replay and initialisation decision tables for whatever loser-tree classes a translation unit
    instantiates; used by C05/C06/C07, whose k >= 5 merges stand on these trees"""
    n = 0
    raw_box = []

    def as_written(fn):
        """the function as it is written, if the normaliser of engine/normalize.py rewrote it and left no loop at its top
        level (it unrolls a recursive helper that stands for the replay loop): the same instantiation (same full name, same
        class) in the translation unit extracted again without the normaliser.  With which macro definitions the caller
        extracted `tu` is not known here: the file is extracted without any, and only a function of exactly this
        instantiation is taken from it (the same template, the same arguments: the same code)."""
        if not getattr(fn, "normalized", False) or fn.body is None or \
                any(s_ is not None and s_["k"] in ("WhileStmt", "ForStmt", "DoStmt") for s_ in kids(fn.body)):
            return fn
        if not raw_box:
            import os
            had = os.environ.get("VERIF_NO_NORMALIZE")
            os.environ["VERIF_NO_NORMALIZE"] = "1"
            try:
                raw_box.append(ir.extract(tu.src))
            except ir.AnalysisBroken:
                raw_box.append(None)
            finally:
                if had is None:
                    del os.environ["VERIF_NO_NORMALIZE"]
                else:
                    os.environ["VERIF_NO_NORMALIZE"] = had
        if raw_box[0] is None:
            return fn
        same = [f for f in raw_box[0].find(name=fn.name, record=fn.record) if f.full == fn.full and f.file == fn.file]
        return same[0] if len(same) == 1 and same[0].body is not None else fn
    for rec, info in CLASSES.items():
        for fn in tu.find(name="delete_min_insert", record=rec):
            ck.guarded(lambda fn=fn, info=info: check_replay(ck, as_written(fn), info, fn.rtargs[0] == "true"))
            n += 1
        for fn in tu.find(record=info["base"]):
            if fn.name == "init_winner":
                ck.guarded(lambda fn=fn, info=info: check_init(ck, fn, info["guarded"], info["pointer"]))
    return n


def run(ck):
    ck.explanation = (
        "Decision tables (engine A2) extracted from the instantiated replay loops and init_winner of all eight loser-tree "
        "classes, enumerated over every strict-weak-order-consistent valuation of the atoms S (challenger exhausted), L (node "
        "exhausted), A=cmp(node,chal), B=cmp(chal,node), C/D (source order) and compared with the required/forbidden/free "
        "specification of a (stable) tournament; the replay path and the padding range are decided by evaluating the integer "
        "skeleton of the function on small trees, slot-0 reporting by following every path of min_source, the sizeof switch by "
        "the types clang selects. The history-level tournament invariant itself is argued, not machine-checked.")
    types = ["int"] if ck.tier == "quick" else ["int", "std::string"]
    n_replay = 0
    for t in types:
        tu = ir.extract("witness/C09_loser_tree.cpp", defines=["WITNESS_T=" + t], extra_flags=["-include", "string"],
                        roots=[ir.REPO + "/tlx/", ir.VERIF + "/witness/"])
        # which object an address designates is not preserved by the normaliser of engine/normalize.py (a const copy of a value
        # is replaced by what it was copied from; a helper's value parameter by the argument; a recursive helper is unrolled a
        # few levels): the key-lifetime rule reads the tree as written, and so does the replay rule for a function in which the
        # normaliser left no replay loop
        raw_box = []

        def raw_tu(tu=tu, t=t, raw_box=raw_box):
            if not raw_box:
                raw = tu
                if getattr(tu, "normalized", 0):
                    import os
                    had = os.environ.get("VERIF_NO_NORMALIZE")
                    os.environ["VERIF_NO_NORMALIZE"] = "1"
                    try:
                        raw = ir.extract("witness/C09_loser_tree.cpp", defines=["WITNESS_T=" + t], extra_flags=["-include", "string"],
                                         roots=[ir.REPO + "/tlx/", ir.VERIF + "/witness/"])
                    finally:
                        if had is None:
                            del os.environ["VERIF_NO_NORMALIZE"]
                        else:
                            os.environ["VERIF_NO_NORMALIZE"] = had
                raw_box.append(raw)
            return raw_box[0]

        def as_written(fn):
            """the function as it is written, if the normaliser rewrote it and left no loop at its top level (a recursive
            helper that stands for the replay loop is unrolled by it, not understood)"""
            if not getattr(fn, "normalized", False) or fn.body is None or \
                    any(s_ is not None and s_["k"] in ("WhileStmt", "ForStmt", "DoStmt") for s_ in kids(fn.body)):
                return fn
            same = [f for f in raw_tu().find(name=fn.name, record=fn.record) if f.full == fn.full]
            return same[0] if len(same) == 1 else fn
        for rec, info in CLASSES.items():
            fns = [f for f in tu.find(name="delete_min_insert", record=rec) if f.rtargs[1:2] != ["S16"] and f.rtargs[1:2] != ["S24"]]
            ck.require(len(fns) == 2, "%s: expected stable and unstable delete_min_insert, found %d" % (rec, len(fns)))
            for fn in fns:
                stable = fn.rtargs[0] == "true"
                # a function that is not understood (exit 2) does not hide a violation found in another one
                ck.guarded(lambda fn=fn, info=info, stable=stable: check_replay(ck, as_written(fn), info, stable))
                n_replay += 1
            bases = [f for f in tu.find(record=info["base"]) if f.rtargs[:1] not in (["S16"], ["S24"])]
            for fn in bases:
                if fn.name == "init_winner":
                    ck.guarded(lambda fn=fn, info=info: check_init(ck, fn, info["guarded"], info["pointer"]))
                elif fn.name == "min_source":
                    ck.guarded(lambda fn=fn, info=info: check_min_source(ck, fn, info["guarded"] and info["pointer"]))
                elif fn.kind == "ctor":
                    ck.guarded(lambda fn=fn, info=info: check_padding(ck, fn, info["guarded"], info["pointer"]))
        check_key_lifetime(ck, raw_tu())
        check_switch(ck, tu)
    m = len(types)
    ck.floor("REPLAY-TABLE", 8 * m)
    ck.floor("REPLAY-FIELDS", 8 * m)
    ck.floor("REPLAY-PATH", 8 * m)
    ck.floor("INIT-TABLE", 4 * m)
    ck.floor("MIN-SOURCE", 4 * m)
    ck.floor("PADDING", 4 * m)
    ck.floor("SWITCH-AGREE", 4 * m)
