"""C09 — loser trees: replay / initial-tournament decision tables (engine A2),
replay path idiom, slot-0 reporting, padding range, size switch."""
from engine import ir, dtable, match
from engine.ir import kids, strip_casts, const_int, ref_of

CLASSES = {
    "tlx::LoserTreeCopy": dict(guarded=True, base="tlx::LoserTreeCopyBase", pointer=False),
    "tlx::LoserTreePointer": dict(guarded=True, base="tlx::LoserTreePointerBase", pointer=True),
    "tlx::LoserTreeCopyUnguarded": dict(guarded=False, base="tlx::LoserTreeCopyUnguardedBase", pointer=False),
    "tlx::LoserTreePointerUnguarded": dict(guarded=False, base="tlx::LoserTreePointerUnguardedBase", pointer=True),
}
TREE = "losers_"


_REF_INITS = {}     # decl id of a local reference (auto& node = losers_[pos]) -> its initialiser, per function run


def node_index(n):
    """index expression i if n is this->losers_[i] (also through a local reference bound to it)"""
    p = match.index_parts(n)
    if p and match.this_field(p[0]) == TREE:
        return p[1]
    d = ref_of(n)
    if d is not None and d in _REF_INITS:
        return node_index(_REF_INITS[d])
    return None


def bind_reference_locals(fn):
    _REF_INITS.clear()
    for x in fn.nodes():
        if x["k"] == "VarDecl" and x.get("isref") and kids(x) and kids(x)[0] is not None:
            _REF_INITS[x["did"]] = kids(x)[0]


def node_field(n):
    """(index_expr, field) if n is this->losers_[i].field"""
    f = match.field_of(n)
    if f:
        i = node_index(f[0])
        if i is not None:
            return i, f[1]
    return None


# ----------------------------------------------------------------------------
# REPLAY-TABLE / REPLAY-FIELDS / REPLAY-PATH
# ----------------------------------------------------------------------------

def check_replay(ck, fn, info, stable):
    bind_reference_locals(fn)
    body = fn.body
    loops = [s for s in kids(body) if s["k"] in ("WhileStmt", "ForStmt")]
    ck.require(len(loops) == 1, "%s: expected one replay loop in delete_min_insert" % fn.loc)
    loop = loops[0]
    init, cond, inc, lbody = match.loop_parts(loop)
    # --- final stores: field -> challenger variable
    after = kids(body)[kids(body).index(loop) + 1:]
    chal = {}
    for s in after:
        b = match.binop(s, ("=",))
        if b:
            nf = node_field(b[1])
            if nf and const_int(nf[0]) == 0 and ref_of(b[2]) is not None:
                chal[nf[1]] = ref_of(b[2])
    fields = [f["name"] for f in loser_fields(fn)]
    missing = [f for f in fields if f not in chal]
    if missing:
        ck.violation("REPLAY-PATH", fn.qname, "final-store:" + ",".join(missing),
                     "after the replay loop slot 0 does not receive the winner's field(s) %s" % missing, fn.loc)
        return
    # --- loop variable, start, halving
    posv = None
    for x in ir.walk(cond):
        if x["k"] == "DeclRefExpr":
            posv = x["ref"]["id"]
    if not match.positive_test(cond, posv):
        ck.violation("REPLAY-PATH", fn.qname, "loop-cond", "replay loop does not run until the root (cond %s)"
                     % dtable.describe(cond), fn.nloc(cond))
        return
    # start value
    start = None
    for x in ir.walk(body):
        if x["k"] == "VarDecl" and x["did"] == posv and kids(x):
            start = kids(x)[0]
    h = match.is_halved(start) if start else None
    okstart = False
    if h is not None:
        b = match.binop(h, ("+",))
        if b:
            ops = [b[1], b[2]]
            names = sorted([match.this_field(o) or ("var" if ref_of(o) == chal["source"] else "?") for o in ops])
            okstart = names == ["k_", "var"]
    # the source variable must be initialised from slot 0
    src_init_ok = False
    for x in ir.walk(body):
        if x["k"] == "VarDecl" and x["did"] == chal["source"] and kids(x):
            nf = node_field(kids(x)[0])
            src_init_ok = bool(nf and const_int(nf[0]) == 0 and nf[1] == "source")
    if not (okstart and src_init_ok):
        ck.violation("REPLAY-PATH", fn.qname, "start",
                     "replay does not start at (k_ + winner source)/2 with the winner taken from slot 0 (start %s)"
                     % (dtable.describe(start) if start else "?"), fn.loc)
        return
    halv = []
    if inc is not None:
        halv.append(inc)
    for s in kids(lbody):
        halv.append(s)
    if not any(match.halving(s, posv) for s in halv if s is not None):
        ck.violation("REPLAY-PATH", fn.qname, "halving", "replay loop does not move to the parent node (pos/2)", fn.nloc(loop))
        return
    ck.ok("REPLAY-PATH", fn.full, "start (k_+source)/2 from slot 0, halving to the root, all %d fields stored to slot 0" % len(fields))

    # --- decision table of the loop body
    keyvar = chal.get("key", chal.get("keyp"))
    supvar = chal.get("sup")
    pointer = info["pointer"]

    # a copy of the node index taken at the top of the iteration (`const Source cur = pos; pos /= 2; ... losers_[cur]`)
    pos_copies = set()
    body_stmts = [s_ for s_ in kids(lbody) if s_ is not None] if lbody is not None and lbody["k"] == "CompoundStmt" else []
    halved = False
    for s_ in body_stmts:
        if s_["k"] == "DeclStmt" and not halved:
            for v_ in kids(s_):
                if v_["k"] == "VarDecl" and kids(v_) and ref_of(kids(v_)[0]) == posv:
                    if not any(match.binop(z, ("=", "+=", "-=", "/=", ">>=")) and ref_of(match.binop(z, ("=", "+=", "-=", "/=", ">>="))[1]) == v_["did"]
                               for z in ir.walk(lbody) if z["k"] in ("BinaryOperator", "CompoundAssignOperator")):
                        pos_copies.add(v_["did"])
        if any((match.binop(z, ("=", "/=", ">>=")) and ref_of(match.binop(z, ("=", "/=", ">>="))[1]) == posv) for z in ir.walk(s_)
               if z["k"] in ("BinaryOperator", "CompoundAssignOperator")):
            halved = True

    def is_pos(i):
        return i is not None and (ref_of(i) == posv or ref_of(i) in pos_copies)

    def is_node(e):
        return is_pos(node_index(e))

    def key_role(e):
        e = strip_casts(e)
        if pointer:
            d = match.deref_of(e)
            if d is None:
                return None
            if ref_of(d) == keyvar:
                return "chal"
            f = match.field_of(d)
            if f and f[1] == "keyp" and is_node(f[0]):
                return "node"
            return None
        if ref_of(e) == keyvar:
            return "chal"
        f = match.field_of(e)
        if f and f[1] == "key" and is_node(f[0]):
            return "node"
        return None

    def atomize(n, run):
        pt = match.ptr_truth(n)
        neg = True
        if pt is None and pointer:
            bn = match.binop(n, ("!=", "=="))
            if bn:
                for x_, y_ in ((bn[1], bn[2]), (bn[2], bn[1])):
                    if strip_casts(y_)["k"] in ("NullPtr", "CXXNullPtrLiteralExpr", "GNUNullExpr"):
                        pt = x_
                        neg = bn[0] == "!="          # p != nullptr  <=>  not exhausted
        if pt is not None:
            if ref_of(pt) == keyvar and pointer:
                return ("S", neg)
            f = match.field_of(pt)
            if f and f[1] == "keyp" and is_node(f[0]):
                return ("L", neg)
            return None
        if supvar is not None and n["k"] == "DeclRefExpr" and n["ref"]["id"] == supvar:
            return ("S", False)
        f = match.field_of(n)
        if f and f[1] == "sup" and is_node(f[0]) and n["k"] == "MemberExpr":
            return ("L", False)
        fc = match.functor_call(n)
        if fc and match.this_field(fc[0]) == "cmp_" and len(fc[1]) == 2:
            r = (key_role(fc[1][0]), key_role(fc[1][1]))
            if r == ("node", "chal"):
                return ("A", False)
            if r == ("chal", "node"):
                return ("B", False)
            raise dtable.Undecidable("%s: comparator applied to unexpected operands: %s" % (fn.nloc(n), dtable.describe(n)))
        b = match.binop(n, ("<", ">", "<=", ">="))
        if b and n["k"] == "BinaryOperator":
            def srole(e):
                if ref_of(e) == chal["source"]:
                    return "chal"
                ff = match.field_of(e)
                if ff and ff[1] == "source" and is_node(ff[0]):
                    return "node"
                return None
            rl, rr = srole(b[1]), srole(b[2])
            if rl and rr and rl != rr:
                op = b[0]
                if rl == "chal":     # normalise to node OP chal
                    op = {"<": ">", ">": "<", "<=": ">=", ">=": "<="}[op]
                return {"<": ("C", False), ">": ("D", False), "<=": ("D", True), ">=": ("C", True)}[op]
        return None

    frag = lbody
    leaves = dtable.explore(frag, atomize, fn)
    spec_atoms = ["A", "B"] + (["S", "L"] if info["guarded"] else []) + (["C", "D"] if stable else [])
    atoms = list(dict.fromkeys(spec_atoms + dtable.atoms_of(leaves)))

    def consistent(v):
        if v.get("A") and v.get("B"):
            return False
        if v.get("C") and v.get("D"):
            return False
        if not info["guarded"] and (v.get("S") or v.get("L")):
            return False
        return True

    rows = 0
    viol = False
    for v, lf in dtable.table(leaves, consistent, atoms):
        rows += 1
        swapped = set()
        saved = {}          # temporary -> (node field) of a three-step exchange in progress
        half = {}           # node field written from the challenger while a temporary holds the old node value
        for ev in lf["events"]:
            if ev[0] == "decl":
                v_ = ev[1]
                if kids(v_) and kids(v_)[0] is not None:
                    nf_ = node_field(kids(v_)[0])
                    if nf_ and is_pos(nf_[0]):
                        saved[v_["did"]] = nf_[1]            # T tmp = losers_[pos].f;
                continue
            if ev[0] != "expr":
                raise dtable.Undecidable("%s: unexpected %s in replay loop body" % (fn.loc, ev[0]))
            e = ev[1]
            if match.halving(e, posv):
                continue
            asg = match.binop(e, ("=",))
            if asg:
                nf_ = node_field(asg[1])
                # losers_[pos].f = challenger_f;   (second step)
                if nf_ and is_pos(nf_[0]) and chal.get(nf_[1]) == ref_of(asg[2]) and nf_[1] in saved.values():
                    half[nf_[1]] = True
                    continue
                # challenger_f = tmp;              (third step)
                if ref_of(asg[1]) in chal.values() and ref_of(asg[2]) in saved:
                    fld = saved[ref_of(asg[2])]
                    if chal.get(fld) == ref_of(asg[1]) and half.get(fld):
                        swapped.add(fld)
                        continue
            c = match.call_named(e, ("swap",))
            if c and len(kids(c)) == 2:
                a0, a1 = kids(c)
                nf = node_field(a0) or node_field(a1)
                var = ref_of(a1) if node_field(a0) else ref_of(a0)
                if nf and is_pos(nf[0]) and chal.get(nf[1]) == var:
                    swapped.add(nf[1])
                    continue
                ck.violation("REPLAY-FIELDS", fn.qname, "swap-pair:" + dtable.describe(c),
                             "swap does not pair a node field with the challenger variable of the same field", fn.nloc(c))
                viol = True
                continue
            raise dtable.Undecidable("%s: effect not understood in replay loop body: %s" % (fn.nloc(e), dtable.describe(e)))
        S, L = v.get("S", False), v.get("L", False)
        A, B, C, D = v["A"], v["B"], v.get("C", False), v.get("D", False)
        live = (not S) and (not L)
        if stable:
            node_lt = (not L and S) or (live and (A or (not A and not B and C)))
            chal_lt = (not S and L) or (live and (B or (not A and not B and D)))
        else:
            node_lt = (not L and S) or (live and A)
            chal_lt = (not S and L) or (live and B)
        did = bool(swapped)
        sig = "row:" + dtable.fmt_val(v)
        if node_lt and not did:
            ck.violation("REPLAY-TABLE", fn.qname, sig,
                         "stored loser is strictly smaller than the challenger but does not advance (%s)" % dtable.fmt_val(v), fn.nloc(loop))
            viol = True
        if chal_lt and did:
            ck.violation("REPLAY-TABLE", fn.qname, sig,
                         "challenger is strictly smaller than the stored loser but is left behind (%s)" % dtable.fmt_val(v), fn.nloc(loop))
            viol = True
        if not info["guarded"] and not stable and not A and not B and did:
            # unguarded trees pad the leaves with copies of the sentinel, which may equal a live key; without a `sup` flag or a
            # source tie-break the only thing that keeps a padding entry from winning is that ties never displace the challenger
            ck.violation("REPLAY-TABLE", fn.qname, sig + ":padding-tie",
                         "on equal keys the stored entry displaces the challenger (%s): in an unguarded tree the stored entry can be a padding "
                         "leaf holding a copy of the sentinel, and the sentinel may equal a live key - the padding entry then reaches the root and "
                         "min_source() reports a non-existent player" % dtable.fmt_val(v), fn.nloc(loop))
            viol = True
        if did:
            need = set(fields)
            if "sup" in need and S == L:
                need.discard("sup")
            if not need <= swapped:
                ck.violation("REPLAY-FIELDS", fn.qname, "fields:" + ",".join(sorted(need - swapped)) + "@" + dtable.fmt_val(v),
                             "swap exchanges %s but not %s: a mixed player results" % (sorted(swapped), sorted(need - swapped)), fn.nloc(loop))
                viol = True
    ck.states += rows
    if not viol:
        ck.ok("REPLAY-TABLE", fn.full, "%d consistent rows over atoms %s (%s)" % (rows, ",".join(atoms), "stable" if stable else "unstable"),
              sample=dict(rule="REPLAY-TABLE", fn=fn.full, atoms=atoms, rows=rows, leaves=len(leaves)))
        ck.ok("REPLAY-FIELDS", fn.full, "every swapping row exchanges all fields that can differ")


def loser_fields(fn):
    tu = fn.tu
    # the Loser struct of the base class of this instantiation
    for r in tu.records:
        if r["qname"].endswith("::Loser") and any(r["full"].startswith(b.split("<")[0]) for b in [fn.full]):
            pass
    # choose by template arguments of the enclosing tree
    cands = [r for r in tu.records if r["qname"] == CLASSES_BASE(fn) + "::Loser"]
    if not cands:
        raise ir.AnalysisBroken("Loser record of %s not found" % fn.full)
    return cands[0]["fields"]


def CLASSES_BASE(fn):
    rec = fn.record
    if rec in CLASSES:
        return CLASSES[rec]["base"]
    return rec


# ----------------------------------------------------------------------------
# INIT-TABLE
# ----------------------------------------------------------------------------

def check_init(ck, fn, guarded, pointer):
    root = fn.params[0]["did"]
    # children: locals initialised by recursive calls with 2*root (+1)
    child = {}
    for x in ir.walk(fn.body):
        if x["k"] == "VarDecl" and kids(x):
            c = match.call_named(kids(x)[0], ("init_winner",))
            if c:
                arg = kids(c)[-1]
                # the child index, whatever its spelling (2 * root + 1, (root << 1) | 1, ...): evaluated on a few roots
                from engine import skel
                vals = [skel.Skel(fn, {root: r_}, None, None).ev(arg) for r_ in (1, 2, 3, 5, 8)]
                role = None
                if vals == [2 * r_ for r_ in (1, 2, 3, 5, 8)]:
                    role = "left"
                elif vals == [2 * r_ + 1 for r_ in (1, 2, 3, 5, 8)]:
                    role = "right"
                if role:
                    child[x["did"]] = role
    ck.require(sorted(child.values()) == ["left", "right"],
               "%s: could not identify the two recursive sub-tournaments" % fn.loc)

    cur_run = [None]      # the decision-table run whose locals may select the winner / loser index by a ternary

    def idx_role(i, depth=0):
        d = ref_of(i)
        if d in child:
            return child[d]
        if d == root:
            return "root"
        run = cur_run[0]
        if run is not None and d is not None and isinstance(run.env.get(d), dict) and depth < 4:
            init = strip_casts(run.env[d])
            if init["k"] == "ConditionalOperator":
                c, a, b = kids(init)
                try:
                    return idx_role(a if run.truth(c) else b, depth + 1)
                except Exception:
                    return None
            return idx_role(init, depth + 1)
        return None

    def node_role(e):
        i = node_index(e)
        if i is None:
            return None
        return idx_role(i)

    def key_role(e):
        if pointer:
            d = match.deref_of(e)
            if d is None:
                return None
            f = match.field_of(d)
            return node_role(f[0]) if f and f[1] == "keyp" else None
        f = match.field_of(e)
        return node_role(f[0]) if f and f[1] == "key" else None

    def atomize(n, run):
        b = match.binop(n, (">=", "<", ">", "<="))
        if b and n["k"] == "BinaryOperator" and {ref_of(b[1]), ref_of(b[2])} & {root} and \
                (match.this_field(b[1]) == "k_" or match.this_field(b[2]) == "k_"):
            return ("leaf", False) if b[0] in (">=",) and ref_of(b[1]) == root else None
        pt = match.ptr_truth(n)
        if pt is not None:
            f = match.field_of(pt)
            if f and f[1] == "keyp" and node_role(f[0]) in ("left", "right"):
                return ("sup_" + node_role(f[0]), True)
        f = match.field_of(n)
        if f and n["k"] == "MemberExpr" and f[1] == "sup" and node_role(f[0]) in ("left", "right"):
            return ("sup_" + node_role(f[0]), False)
        fc = match.functor_call(n)
        if fc and match.this_field(fc[0]) == "cmp_" and len(fc[1]) == 2:
            r = (key_role(fc[1][0]), key_role(fc[1][1]))
            if r == ("right", "left"):
                return ("cmp(right,left)", False)
            if r == ("left", "right"):
                return ("cmp(left,right)", False)
            raise dtable.Undecidable("%s: comparator on unexpected operands %s" % (fn.nloc(n), dtable.describe(n)))
        return None

    leaves = dtable.explore(fn.body, atomize, fn)
    atoms = ["leaf", "cmp(right,left)", "cmp(left,right)"] + (["sup_left", "sup_right"] if guarded else [])
    atoms = list(dict.fromkeys(atoms + dtable.atoms_of(leaves)))

    def consistent(v):
        if v["leaf"]:
            return False
        if v["cmp(right,left)"] and v["cmp(left,right)"]:
            return False
        if not guarded and (v.get("sup_left") or v.get("sup_right")):
            return False
        return True
    rows = 0
    viol = False
    for v, lf in dtable.table(leaves, consistent, atoms):
        rows += 1
        stored = None
        cur_run[0] = lf["run"]
        for ev in lf["events"]:
            if ev[0] == "decl":
                continue
            if ev[0] == "expr":
                b = match.binop(ev[1], ("=",))
                if b and node_role(b[1]) == "root" and node_role(b[2]) in ("left", "right"):
                    stored = node_role(b[2])
                    continue
                if match.call_named(ev[1], ("init_winner",)):
                    continue
            raise dtable.Undecidable("%s: effect not understood in init_winner" % fn.loc)
        ck.require(lf["stop"][0] == "return", "%s: init_winner path without return" % fn.loc)
        rv = lf["stop"][1][0]
        winner = idx_role(rv) if idx_role(rv) in ("left", "right") else None
        sig = "row:" + dtable.fmt_val(v)
        if winner is None or stored is None or winner == stored:
            ck.violation("INIT-TABLE", fn.qname, sig, "game node does not store the loser and promote the other player (stored %s, promoted %s)"
                         % (stored, winner), fn.loc)
            viol = True
            continue
        Ls, Rs = v.get("sup_left", False), v.get("sup_right", False)
        P, Q = v["cmp(right,left)"], v["cmp(left,right)"]
        right_lt = (not Rs and Ls) or (not Rs and not Ls and P)
        both_sup = Ls and Rs
        if right_lt and winner != "right":
            ck.violation("INIT-TABLE", fn.qname, sig, "right player strictly smaller but left is promoted (%s)" % dtable.fmt_val(v), fn.loc)
            viol = True
        if not right_lt and not both_sup and winner != "left":
            ck.violation("INIT-TABLE", fn.qname, sig, "left player is smaller or tied (ties go to the lower index) but right is promoted (%s)"
                         % dtable.fmt_val(v), fn.loc)
            viol = True
    ck.states += rows
    if not viol:
        ck.ok("INIT-TABLE", fn.full, "%d consistent rows: left promoted unless right strictly smaller; other player stored" % rows)


def is_double(e, root):
    b = match.binop(e, ("*", "<<"))
    if not b:
        return False
    if b[0] == "*":
        return (const_int(b[1]) == 2 and ref_of(b[2]) == root) or (const_int(b[2]) == 2 and ref_of(b[1]) == root)
    return const_int(b[2]) == 1 and ref_of(b[1]) == root


# ----------------------------------------------------------------------------
# MIN-SOURCE, PADDING, SWITCH-AGREE
# ----------------------------------------------------------------------------

def check_min_source(ck, fn, pointer_guarded):
    rets = [x for x in ir.walk(fn.body) if x["k"] == "ReturnStmt"]
    ck.require(len(rets) == 1, "%s: expected a single return in min_source" % fn.loc)
    e = kids(rets[0])[0]
    e = strip_casts(e)

    def is_slot0_source(x):
        nf = node_field(x)
        return bool(nf and const_int(nf[0]) == 0 and nf[1] == "source")
    if is_slot0_source(e):
        if pointer_guarded:
            ck.violation("MIN-SOURCE", fn.qname, "exhausted", "pointer tree reports a source for an exhausted winner (no keyp test)", fn.loc)
        else:
            ck.ok("MIN-SOURCE", fn.full, "returns losers_[0].source")
        return
    if e["k"] == "ConditionalOperator":
        c, a, b = kids(e)
        pt = match.ptr_truth(c)
        nf = node_field(pt) if pt is not None else None
        if nf and const_int(nf[0]) == 0 and nf[1] == "keyp" and is_slot0_source(a):
            bb = strip_casts(b)
            if const_int(b) is not None or (bb["k"] in ("DeclRefExpr", "MemberExpr")):
                ck.ok("MIN-SOURCE", fn.full, "returns losers_[0].source, invalid when the winner is exhausted")
                return
    ck.violation("MIN-SOURCE", fn.qname, "slot0", "min_source does not report the source stored in slot 0: %s" % dtable.describe(e), fn.loc)


def check_padding(ck, fn, guarded, pointer):
    """PADDING: the constructor is evaluated on its skeleton for (ik_, k_) = (3, 4), (5, 8), (4, 4), (1, 1): every padding leaf
    k_ + ik_ .. 2 k_ - 1 receives the 'exhausted' / sentinel value, whatever the form of the loop (index or pointer)"""
    from engine import skel
    bad = None
    written_exprs = {}
    for ik, k in ((3, 4), (5, 8), (4, 4), (1, 1), (6, 8)):
        stores = {}

        def elem_index(e, sk):
            """index of the tree node an lvalue designates: losers_[i] or *(pointer into losers_)"""
            e0 = strip_casts(e)
            ip = match.index_parts(e0)
            if ip and match.this_field(ip[0]) == TREE:
                return sk.ev(ip[1])
            if e0["k"] == "UnaryOperator" and e0.get("op") == "*":
                return sk.ev(kids(e0)[0])
            d = ref_of(e0)
            if d is not None and d in sk.alias and isinstance(sk.alias[d], tuple) and sk.alias[d][0] in ("mem", "elem"):
                return sk.alias[d][-1]
            return None

        def event(e, sk):
            if "callee" in e and e.get("member_call") and kids(e) and match.this_field(kids(e)[0]) == TREE:
                nm = e["callee"]["name"]
                if nm in ("begin", "data", "cbegin"):
                    return 0
                if nm in ("end", "cend"):
                    return 2 * k
                if nm == "size":
                    return 2 * k
            bq = match.binop(e, ("=",)) if e["k"] in ("BinaryOperator", "CXXOperatorCallExpr") else None
            if bq:
                lhs = strip_casts(bq[1])
                if lhs["k"] == "MemberExpr" and kids(lhs) and not match.this_field(lhs):
                    base = kids(lhs)[0]
                    idx = sk.ev(base) if lhs.get("arrow") else elem_index(base, sk)
                    if isinstance(idx, int):
                        stores.setdefault(lhs["member"], set()).add(idx)
                        written_exprs[lhs["member"]] = bq[2]
                        return None
                    raise dtable.Undecidable("%s: padding store not understood: %s" % (fn.nloc(e), dtable.describe(e)))
            return NotImplemented
        env = {("field", "ik_"): ik, ("field", "k_"): k, ("field", TREE): 0}
        sk = skel.Skel(fn, env, None, event, max_iter=64)
        try:
            sk.run(kids(fn.body))
        except skel.Return:
            pass
        padding = set(range(k + ik, 2 * k))
        fld = "sup" if (guarded and not pointer) else "keyp" if pointer else "key"
        got = stores.get(fld, set())
        if not padding <= got and bad is None:
            bad = (ik, k, sorted(padding - got), fld)
    if bad:
        ik, k, miss, fld = bad
        ck.violation("PADDING", fn.qname, "range", "constructor loop does not cover all padding leaves [k_+ik_, 2k_): with ik_ = %d, k_ = %d the leaves %s get no %s"
                     % (ik, k, miss, fld), fn.loc)
        return
    written = written_exprs
    # the padding value must be 'exhausted' / the sentinel
    okv = False
    if guarded and not pointer:
        okv = "sup" in written and const_int(written["sup"]) == 1
        what = "sup = true"
    elif guarded and pointer:
        v = strip_casts(written.get("keyp")) if "keyp" in written else None
        okv = v is not None and (v["k"] == "NullPtr" or const_int(v) == 0)
        what = "keyp = nullptr"
    elif pointer:
        v = strip_casts(written.get("keyp")) if "keyp" in written else None
        okv = v is not None and v["k"] == "UnaryOperator" and v["op"] == "&" and ref_of(kids(v)[0]) == fn.params[1]["did"]
        what = "keyp = &sentinel"
    else:
        v = written.get("key")
        okv = v is not None and ref_of(v) == fn.params[1]["did"]
        what = "key = sentinel"
    if not okv:
        ck.violation("PADDING", fn.qname, "value", "padding leaves are not initialised as exhausted/sentinel (%s expected)" % what, fn.loc)
        return
    ck.ok("PADDING", fn.full, "every padding leaf [k_+ik_, 2k_) initialised for (ik_, k_) in {(3,4), (5,8), (4,4), (1,1), (6,8)}: %s" % what)


def check_switch(ck, tu):
    fn = tu.one(qname="witness_c09_switch") if tu.find(qname="witness_c09_switch") else None
    ck.require(fn is not None, "switch witness missing")
    got = {}
    for x in ir.walk(fn.body):
        if x["k"] == "VarDecl" and x.get("ty", "").startswith("tlx::LoserTree"):
            got[x["name"]] = x["ty"]
    exp = {"a": ("tlx::LoserTreeCopy<", "16-byte value, guarded"), "b": ("tlx::LoserTreePointer<", "24-byte value, guarded"),
           "c": ("tlx::LoserTreeCopyUnguarded<", "16-byte value, unguarded"), "d": ("tlx::LoserTreePointerUnguarded<", "24-byte value, unguarded")}
    for name, (prefix, what) in exp.items():
        ty = got.get(name, "")
        if ty.startswith(prefix):
            ck.ok("SWITCH-AGREE", "LoserTree%s switch: %s" % ("Unguarded" if name in "cd" else "", what), "-> " + ty.split("<")[0], nontrivial=False)
        else:
            ck.violation("SWITCH-AGREE", "tlx::LoserTree%sSwitch" % ("Unguarded" if name in "cd" else ""), "size:" + what.split(",")[0].replace(" ", ""),
                         "%s selects %s, expected %s...>" % (what, ty, prefix), "tlx/container/loser_tree.hpp")


def check_trees_in(ck, tu):
    """the replay and initialisation decision tables for whatever loser-tree classes a translation unit
    instantiates; used by C05/C06/C07, whose k >= 5 merges stand on these trees"""
    n = 0
    for rec, info in CLASSES.items():
        for fn in tu.find(name="delete_min_insert", record=rec):
            check_replay(ck, fn, info, fn.rtargs[0] == "true")
            n += 1
        for fn in tu.find(record=info["base"]):
            if fn.name == "init_winner":
                check_init(ck, fn, info["guarded"], info["pointer"])
    return n


def run(ck):
    ck.explanation = (
        "Decision tables (engine A2) extracted from the instantiated replay loops and init_winner of all eight loser-tree "
        "classes, enumerated over every strict-weak-order-consistent valuation of the atoms S (challenger exhausted), L (node "
        "exhausted), A=cmp(node,chal), B=cmp(chal,node), C/D (source order) and compared with the required/forbidden/free "
        "specification of a (stable) tournament; plus idiom rules for the replay path, slot-0 reporting, padding range and "
        "the sizeof switch. The history-level tournament invariant itself is argued, not machine-checked.")
    types = ["int"] if ck.tier == "quick" else ["int", "std::string"]
    n_replay = 0
    for t in types:
        tu = ir.extract("witness/C09_loser_tree.cpp", defines=["WITNESS_T=" + t], extra_flags=["-include", "string"],
                        roots=[ir.REPO + "/tlx/", ir.VERIF + "/witness/"])
        for rec, info in CLASSES.items():
            fns = [f for f in tu.find(name="delete_min_insert", record=rec) if f.rtargs[1:2] != ["S16"] and f.rtargs[1:2] != ["S24"]]
            ck.require(len(fns) == 2, "%s: expected stable and unstable delete_min_insert, found %d" % (rec, len(fns)))
            for fn in fns:
                stable = fn.rtargs[0] == "true"
                check_replay(ck, fn, info, stable)
                n_replay += 1
            bases = [f for f in tu.find(record=info["base"]) if f.rtargs[:1] not in (["S16"], ["S24"])]
            for fn in bases:
                if fn.name == "init_winner":
                    check_init(ck, fn, info["guarded"], info["pointer"])
                elif fn.name == "min_source":
                    check_min_source(ck, fn, info["guarded"] and info["pointer"])
                elif fn.kind == "ctor":
                    check_padding(ck, fn, info["guarded"], info["pointer"])
        check_switch(ck, tu)
    m = len(types)
    ck.floor("REPLAY-TABLE", 8 * m)
    ck.floor("REPLAY-FIELDS", 8 * m)
    ck.floor("REPLAY-PATH", 8 * m)
    ck.floor("INIT-TABLE", 4 * m)
    ck.floor("MIN-SOURCE", 4 * m)
    ck.floor("PADDING", 4 * m)
    ck.floor("SWITCH-AGREE", 4 * m)
