"""C17 — LRU caches (list/map coupling, end roles, throw guards, stored value) and
SplayTree (owner not dangling, null contradiction, root write-back, link overwrite,
allocation pairing, search orientation, key-equality decision after a splay).

Verdict policy of this file: a violation is reported only with positive evidence - a path (valuation of the atoms) on which the
recognised effects contradict the rule, in a closed world where every operation on the guarded state (list_/map_, root_, size_,
the child links) has been recognised and classified.  A shape that is merely not recognised raises dtable.Undecidable."""
import collections
import copy
import os

from engine import ir, dtable, match, cfg as cfgm, normalize
from engine.ir import kids, strip_casts, const_int, ref_of

LS = "tlx::LruCacheSet"
LM = "tlx::LruCacheMap"
ST = "tlx::SplayTree"

CASTS = ("ImplicitCastExpr", "CStyleCastExpr", "CXXStaticCastExpr", "CXXFunctionalCastExpr", "CXXReinterpretCastExpr", "CXXConstCastExpr")
WRAP = ("ParenExpr", "MaterializeTemporaryExpr", "CXXBindTemporaryExpr", "ExprWithCleanups")
ASSIGN_OPS = ("=", "+=", "-=", "*=", "/=", "%=", "|=", "&=", "^=", ">>=", "<<=")


def peel(e):
    """through casts, single-argument converting constructions and value wrappers"""
    e = match.strip_conv(e)
    while e is not None and kids(e) and e["k"] in WRAP:
        e = match.strip_conv(kids(e)[0])
    return e


def is_null(e):
    e = strip_casts(e)
    return e is not None and (e["k"] in ("NullPtr", "CXXNullPtrLiteralExpr", "GNUNullExpr") or const_int(e) == 0)


def post_order(e):
    """nodes of an expression, operands before the operation (evaluation order of nested calls); lambdas are not entered"""
    out = []

    def rec(n):
        if n is None:
            return
        if n["k"] != "LambdaExpr":
            for c in kids(n):
                rec(c)
        out.append(n)
    rec(e)
    return out


def tie_assign(n):
    """([target, ...], [value, ...]) for `std::tie(a, b, ...) = std::make_tuple(x, y, ...)` (std::make_pair for two): a
    simultaneous assignment - make_tuple stores copies of all values and tie binds all targets before the first target is
    written, the targets are then written from left to right.  None for every other node (std::forward_as_tuple keeps
    references and reads its operands late: that is not this form)"""
    if n is None or n["k"] != "CXXOperatorCallExpr" or n.get("op") != "=" or len(kids(n)) != 2:
        return None
    l, r = peel(kids(n)[0]), peel(kids(n)[1])
    if l is None or r is None or l["k"] != "CallExpr" or r["k"] != "CallExpr" or "callee" not in l or "callee" not in r:
        return None
    if l["callee"].get("qname") != "std::tie" or r["callee"].get("qname") not in ("std::make_tuple", "std::make_pair"):
        return None
    if not kids(l) or len(kids(l)) != len(kids(r)) or any(a is None or a["k"] == "DefaultArg" for a in kids(l) + kids(r)):
        return None
    return list(kids(l)), list(kids(r))


def tie_calls(root):
    """ids of the std::tie(...) / std::make_tuple(...) call nodes of the recognised simultaneous assignments below root"""
    out = set()
    for y in ir.walk(root):
        if tie_assign(y):
            out.add(id(peel(kids(y)[0])))
            out.add(id(peel(kids(y)[1])))
    return out


def written_lvalues(y):
    """the lvalue expressions the node y itself writes: ++ / --, the assignment operators, std::tie(...) = std::make_tuple(...)"""
    ta = tie_assign(y)
    if ta:
        return ta[0]
    w = match.unop(y, ("++", "--")) or (match.binop(y, ASSIGN_OPS) if y["k"] in ("BinaryOperator", "CompoundAssignOperator", "CXXOperatorCallExpr") else None)
    return [w[1]] if w else []


def simple_assigns(root):
    """(lhs, rhs, node) of every plain assignment below root, the pairs of a std::tie(...) = std::make_tuple(...) included"""
    for y in ir.walk(root):
        ta = tie_assign(y)
        if ta:
            for l, r in zip(*ta):
                yield l, r, y
            continue
        b = match.binop(y, ("=",)) if y["k"] in ("BinaryOperator", "CXXOperatorCallExpr") else None
        if b:
            yield b[1], b[2], y


def path_roots(lf):
    """the expressions evaluated for their effect on one path, in order: initialisers, expression statements, returned value
    (conditions are evaluated by the decision table itself)"""
    for ev in lf["events"]:
        if ev[0] == "decl":
            if kids(ev[1]) and kids(ev[1])[0] is not None:
                yield ("decl", kids(ev[1])[0], ev[1])
        elif ev[0] == "expr":
            yield ("expr", ev[1], None)
        elif ev[0] == "loop":
            yield ("loop", ev[1], None)
    st = lf["stop"]
    if st[0] == "return" and st[1] and st[1][0] is not None:
        yield ("ret", st[1][0], None)


def opaque_atomize(special=None):
    """atomize for decision tables over code whose conditions need not be understood: `special` recognises the atoms the rule
    cares about, connectives / constants / bool locals are left to the table, every other condition is an opaque atom named
    by its printed form (the same condition tested twice has one value)"""
    def atomize(n, run):
        if special is not None:
            r = special(n, run)
            if r is not None:
                return r
        k = n["k"]
        if match.binop(n, ("==", "!=")) is None and k == "UnaryOperator" and n.get("op") == "!":
            return None
        if k == "BinaryOperator" and n.get("op") in ("&&", "||", ","):
            return None
        if k in ("ConditionalOperator", "CXXBoolLiteralExpr") or const_int(n) is not None:
            return None
        if k in CASTS and kids(n) and n.get("cast") in ("IntegralToBoolean", "PointerToBoolean", "NoOp", "IntegralCast", "LValueToRValue"):
            return None
        if k == "DeclRefExpr" and (n["ref"]["id"] in run.env or ((n.get("ty") or "").replace("const ", "") == "bool"
                                                                 and n["ref"].get("kind") in ("local", "param"))):
            return None
        return ("c:" + dtable.describe(strip_casts(n)), False)
    return atomize


def ret_as_if(s, only=None):
    """statement tree in which `return <bool expr>;` reads `if (<expr>) return; else return;` so that the decision table
    evaluates the short-circuit structure of the returned condition (expression nodes are shared, not copied);
    `only`: predicate selecting the returned expressions to treat like this"""
    if s is None:
        return None
    k = s["k"]
    if k == "ReturnStmt" and kids(s) and kids(s)[0] is not None and (kids(s)[0].get("ty") or "").replace("const ", "") == "bool" \
            and const_int(kids(s)[0]) is None and (only is None or only(kids(s)[0])):
        r = {"k": "ReturnStmt", "id": s["id"], "l": s.get("l"), "ch": []}
        return {"k": "IfStmt", "id": -s["id"] - 1, "l": s.get("l"), "ch": [kids(s)[0], r, dict(r)]}
    if k == "CompoundStmt":
        out = dict(s)
        out["ch"] = [ret_as_if(c, only) for c in kids(s)]
        return out
    if k == "IfStmt":
        out = dict(s)
        out["ch"] = [kids(s)[0]] + [ret_as_if(c, only) for c in kids(s)[1:]]
        if isinstance(s.get("condvar"), dict):
            # if (T v = init) ...  ->  { T v = init; if (v) ... }
            del out["condvar"]
            decl = {"k": "DeclStmt", "id": -s["id"] - 2, "l": s.get("l"), "ch": [s["condvar"]]}
            return {"k": "CompoundStmt", "id": -s["id"] - 3, "l": s.get("l"), "ch": [decl, out]}
        return out
    if k == "LabelStmt":
        out = dict(s)
        out["ch"] = [ret_as_if(c, only) for c in kids(s)]
        return out
    return s


# ------------------------------------------------------------------ LRU
LIST_PURE = ("begin", "end", "cbegin", "cend", "rbegin", "rend", "crbegin", "crend", "size", "empty", "front", "back", "max_size", "get_allocator")
MAP_PURE = ("end", "begin", "cend", "cbegin", "size", "empty", "count", "contains", "max_size", "bucket_count", "load_factor", "bucket", "hash_function",
            "key_eq", "get_allocator")
LIST_MUT = ("list.push_front", "list.push_back", "list.splice", "list.erase", "list.pop_back", "list.pop_front", "list.clear")
LIST_ITER_ROLES = ("begin", "end", "last", "front-node", "found-node", "stale-begin")

# functions that only read the arguments they take by (forwarding) reference
VALUE_CALLS = ("make_pair", "make_tuple", "forward_as_tuple", "tie", "prev", "next", "distance", "move", "forward", "addressof", "as_const", "min", "max")

Ev = collections.namedtuple("Ev", "kind detail src")


def obj_call(e):
    """(field, name, call) if e is a member function / member operator call on this->list_ or this->map_"""
    if e is None or "callee" not in e or not kids(e):
        return None
    if not (e.get("member_call") or e["k"] == "CXXOperatorCallExpr"):
        return None
    f = match.this_field(kids(e)[0])
    if f not in ("list_", "map_"):
        return None
    return f, e["callee"]["name"], e


def is_sibling_call(n):
    """a call of a member function on this object (implicit or explicit this)"""
    return n is not None and "callee" in n and n.get("member_call") and n["k"] != "CXXOperatorCallExpr" and kids(n) \
        and strip_casts(kids(n)[0]) is not None and strip_casts(kids(n)[0])["k"] == "This"


def touches_state(fn, root):
    """does the subtree mention list_ / map_, call a non-const member of this object or hand out this?"""
    for z in ir.walk(root):
        if z["k"] == "MemberExpr" and z.get("member") in ("list_", "map_"):
            return True
        if is_sibling_call(z) and not z["callee"].get("const"):
            return True
        if z["k"] == "LambdaExpr":
            lam = fn.tu.by_did.get(z.get("fn"))
            if lam is None or lam.body is None or touches_state(fn, lam.body) or any(y["k"] == "This" for y in ir.walk(lam.body)):
                return True
    return False


def conditional_state_use(fn, e):
    """an operand of ?: / && / || that is not always evaluated works on the list / the map"""
    for z in ir.walk(e):
        if z["k"] == "ConditionalOperator" or (z["k"] == "BinaryOperator" and z.get("op") in ("&&", "||")):
            if any(touches_state(fn, c) for c in kids(z)[1:]):
                return z
    return None


class _Siblings(normalize.Rewriter):
    """inlines calls of the other non-const member functions of the same object, so that a mutator written in terms of its
    siblings (get_touch = touch + get) is judged by the effects it has"""

    def novel_callee(self, c):
        if not is_sibling_call(c):
            return None
        cal = self.tu.by_did.get(c["callee"].get("did"))
        if cal is None or cal.body is None or cal.did == self.fn.did or cal.record != self.fn.record or cal.d.get("const") \
                or cal.kind in ("ctor", "dtor", "lambda"):
            return None
        if any(y["k"] in ("CXXTryStmt", "GotoStmt", "LabelStmt") for y in ir.walk(cal.body)):
            return None
        return cal

    def as_flag(self, call, cal, did, name):
        """the statements of the bool-returning sibling `cal` called by `call`, every return turned into an assignment to the
        bool local `did` -> (statements, constructor of a reference to the local)"""
        pro, subst, rename = self.bind(cal, call)
        line = call.get("l")

        def flag():
            return {"k": "DeclRefExpr", "id": self.fresh(), "ty": "bool", "lv": True, "l": line, "ref": {"id": did, "name": name, "kind": "local"}}

        def on_return(e):
            if e is None:
                raise normalize.Fail("return without a value")
            return [{"k": "BinaryOperator", "op": "=", "id": self.fresh(), "ty": "bool", "lv": True, "l": e.get("l"), "ch": [flag(), e]}]
        body = [self.simplify(self.clone(x, subst, rename)) for x in kids(cal.body)]
        return pro + self.deret(body, on_return), flag

    def expand_stmt(self, s):
        """if (sibling(args)) / if (!sibling(args)) / bool v = sibling(args): the bool-returning sibling is executed first, each
        of its returns becomes an assignment to a flag that the condition then reads (the engine itself only inlines helpers
        that end in one return)"""
        if s is not None and s["k"] == "IfStmt" and "init" not in s and "condvar" not in s and kids(s) and kids(s)[0] is not None:
            holder, n = s, kids(s)[0]
            while n is not None and kids(n) and (n["k"] in CASTS or n["k"] in WRAP or (n["k"] == "UnaryOperator" and n.get("op") == "!")):
                holder, n = n, kids(n)[0]
            cal = self.novel_callee(n) if n is not None and "callee" in n and (n.get("ty") or "") == "bool" else None
            if cal is not None:
                try:
                    did = self.next_did
                    self.next_did -= 1
                    name = "%s_result" % cal.name
                    stmts, flag = self.as_flag(n, cal, did, name)
                    var = {"k": "VarDecl", "id": self.fresh(), "did": did, "name": name, "ty": "bool", "l": n.get("l"), "ch": []}
                    decl = {"k": "DeclStmt", "id": self.fresh(), "l": n.get("l"), "ch": [var]}
                    holder["ch"] = [flag()] + list(holder["ch"][1:])
                    self.changed = True
                    return self.expand_list([decl] + stmts + [s])
                except normalize.Fail:
                    pass
        if s is not None and s["k"] == "DeclStmt" and len(kids(s)) == 1 and kids(s)[0]["k"] == "VarDecl" and kids(kids(s)[0]) \
                and (kids(s)[0].get("ty") or "").replace("const ", "") == "bool":
            v = kids(s)[0]
            n = kids(v)[0]
            while n is not None and kids(n) and (n["k"] in CASTS or n["k"] in WRAP):
                n = kids(n)[0]
            cal = self.novel_callee(n) if n is not None and "callee" in n and (n.get("ty") or "") == "bool" else None
            if cal is not None and any(self.has_return(x) for x in kids(cal.body)[:-1]):
                try:
                    stmts, flag = self.as_flag(n, cal, v["did"], v.get("name"))
                    var = dict(v)
                    var["ch"], var["ty"] = [], "bool"
                    decl = dict(s)
                    decl["ch"] = [var]
                    self.changed = True
                    return self.expand_list([decl] + stmts)
                except normalize.Fail:
                    pass
        return normalize.Rewriter.expand_stmt(self, s)


def with_siblings_inlined(fn):
    if not any(is_sibling_call(y) and not y["callee"].get("const") for y in ir.walk(fn.body)):
        return fn.body
    rw = _Siblings(fn.tu, fn)
    body = copy.deepcopy(fn.body)
    try:
        for _ in range(3):
            rw.changed = False
            body["ch"] = rw.expand_list(kids(body))
            if not rw.changed:
                break
    except Exception:       # whatever cannot be inlined stays a call: lru_events then refuses to judge the path
        return fn.body
    return body


def lru_events(fn, lf):
    """classify the effects on one path: every use of list_ / map_ anywhere in the executed expressions and initialisers, in
    evaluation order.  Closed world: a member function that is not modelled, the container handed to something else, a loop
    or a lambda working on it, a call of a non-const sibling or a store through one of its iterators make the path
    undecidable - `absent` then really means absent.
    -> [Ev(kind, detail, src)]; iterators are described by their role: begin | end | last | front-node (returned by the front
    insertion) | found-node (find(key)->second) | stale-begin (begin() taken before a front insertion) | mapit | ?"""
    out = []
    key = fn.params[0]["did"] if fn.params else None
    val = fn.params[1]["did"] if len(fn.params) > 1 else None
    env = {}          # iterator locals: did -> (role, number of events before it was taken)
    inits = {}        # locals with an initialiser on this path: did -> initialiser
    opaque = set()    # locals that are written after their declaration or handed out by non-const reference

    def und(what):
        raise dtable.Undecidable("%s: %s" % (fn.loc, what))

    for kind, root, _ in path_roots(lf):
        for y in ir.walk(root):
            w = match.unop(y, ("++", "--")) or (match.binop(y, ASSIGN_OPS) if y["k"] in ("BinaryOperator", "CompoundAssignOperator", "CXXOperatorCallExpr") else None)
            if w:
                r = normalize.lvalue_root(w[1])
                if isinstance(r, int):
                    opaque.add(r)
            if "callee" in y and y["k"] not in ("CXXOperatorCallExpr", "CXXConstructExpr", "CXXTemporaryObjectExpr") and y["callee"]["name"] not in VALUE_CALLS:
                for a in kids(y)[(1 if y.get("member_call") else 0):]:
                    if a is not None and a["k"] == "DeclRefExpr" and "const" not in (a.get("ty") or ""):
                        opaque.add(a["ref"]["id"])

    def role_of(e):
        e = peel(e)
        if e is None:
            return "?"
        if "callee" in e and e["k"] == "CallExpr" and e["callee"]["name"] in ("move", "forward", "as_const") and len(kids(e)) == 1:
            return role_of(kids(e)[0])          # an iterator is copied by a move
        oc = obj_call(e)
        if oc:
            f, name, c = oc
            if f == "list_":
                if name in ("begin", "cbegin"):
                    return "begin"
                if name in ("end", "cend"):
                    return "end"
                if name in ("insert", "emplace") and len(kids(c)) > 1 and role_of(kids(c)[1]) == "begin":
                    return "front-node"
            elif name == "find":
                return "mapit"
            return "?"
        d = ref_of(e)
        if d is not None:
            if d not in env:
                return "?"
            r, at = env[d]
            if r == "begin":
                mut = [x.kind for x in out[at:] if x.kind in LIST_MUT]
                if mut:
                    return "stale-begin" if all(k == "list.push_front" for k in mut) else "?"
            return r
        f = match.field_of(e)
        if f and f[1] == "second":
            return "found-node" if node_of(f[0]) == "mapit" else "?"
        if "callee" in e and e["callee"]["name"] == "prev":
            args = [a for a in kids(e) if a is not None and a["k"] != "DefaultArg"]
            if len(args) == 1 or (len(args) == 2 and const_int(args[1]) == 1):
                return "last" if role_of(args[0]) == "end" else "?"
        u = match.unop(e, ("--",))
        if u and not u[2] and role_of(u[1]) == "end":
            return "last"
        return "?"

    def node_of(base):
        """role of the iterator i in i->f / (*i).f"""
        b = peel(base)
        if b is None:
            return "?"
        if "callee" in b and b.get("op") == "->" and kids(b):
            return role_of(kids(b)[0])
        if match.deref_of(b) is not None:
            return role_of(match.deref_of(b))
        return "?"

    def stored_detail(args):
        """which parameters reach the stored element, through never-reassigned locals: key / key+value / "" (+ "?" when a local
        of unknown content is involved)"""
        seen, unknown = set(), False
        work = list(args)
        while work:
            a = work.pop()
            for z in ir.walk(a):
                if z["k"] != "DeclRefExpr":
                    continue
                d = z["ref"]["id"]
                if d in seen:
                    continue
                seen.add(d)
                if d in inits:
                    if d in opaque:
                        unknown = True
                    work.append(inits[d])
                elif fn.param_index(d) is None and z["ref"].get("kind") == "local":
                    unknown = True
        return ("key" if key in seen else "") + ("+value" if val is not None and val in seen else "") + ("?" if unknown else "")

    def iter_detail(args):
        """role of the list iterator stored in a new index entry"""
        for a in args:
            for z in ir.walk(a):
                oc = obj_call(z)
                if oc and oc[0] == "list_" and oc[1] in ("begin", "cbegin", "end", "cend", "rbegin", "insert", "emplace"):
                    return role_of(z)
                if z["k"] == "DeclRefExpr" and z["ref"]["id"] in env and role_of(z) in LIST_ITER_ROLES:
                    return role_of(z)
        return "?"

    def handle_call(oc, par):
        f, name, c = oc
        args = [a for a in kids(c)[1:] if a is not None and a["k"] != "DefaultArg"]
        if f == "list_":
            if name in LIST_PURE:
                return
            if name in ("insert", "emplace"):
                pos = role_of(args[0]) if args else "?"
                if pos not in ("begin", "end"):
                    und("list_.%s at a position that is not begin()/end()" % name)
                name = "push_front" if pos == "begin" else "push_back"
                args = args[1:]
            name = {"emplace_front": "push_front", "emplace_back": "push_back"}.get(name, name)
            if name in ("push_front", "push_back"):
                out.append(Ev("list." + name, stored_detail(args), None))
            elif name == "splice":
                if len(args) != 3:
                    und("list_.splice of a whole list / a range is not modelled")
                out.append(Ev("list.splice", role_of(args[0]), role_of(args[2])))
            elif name == "erase" and len(args) == 2:
                if role_of(args[0]) == "begin" and role_of(args[1]) == "end":
                    out.append(Ev("list.clear", None, None))
                else:
                    und("list_.erase of a range that is not [begin(), end())")
            elif name == "erase" and len(args) == 1:
                out.append(Ev("list.erase", role_of(args[0]), None))
            elif name in ("pop_back", "pop_front", "clear") and not args:
                out.append(Ev("list." + name, None, None))
            else:
                und("list_.%s() is not modelled" % name)
        else:
            if name in MAP_PURE:
                return
            if name == "find":
                out.append(Ev("map.find", None, None))
            elif name == "at":
                out.append(Ev("map.at", None, None))
            elif name == "operator[]":
                b = match.binop(par, ("=",)) if par is not None else None
                if b and strip_casts(b[1]) is c:
                    out.append(Ev("map.insert", iter_detail([b[2]]), "assign"))
                else:
                    out.append(Ev("map.index", None, None))
            elif name in ("insert", "emplace", "insert_or_assign", "emplace_hint", "try_emplace"):
                out.append(Ev("map.insert", iter_detail(args), "assign" if name == "insert_or_assign" else None))
            elif name == "erase" and len(args) == 2:
                both = [obj_call(peel(a)) for a in args]
                if both[0] and both[1] and both[0][0] == "map_" and both[1][0] == "map_" and both[0][1] in ("begin", "cbegin") and both[1][1] in ("end", "cend"):
                    out.append(Ev("map.clear", None, None))
                else:
                    und("map_.erase of a range that is not [begin(), end())")
            elif name == "erase" and len(args) == 1:
                a = peel(args[0])
                if "iterator" in ((a or {}).get("ty") or "").lower():
                    out.append(Ev("map.erase", "it" if role_of(a) == "mapit" else "it?", None))
                else:
                    out.append(Ev("map.erase", "key", None))
            elif name == "clear" and not args:
                out.append(Ev("map.clear", None, None))
            else:
                und("map_.%s() is not modelled" % name)

    def scan(e):
        z = conditional_state_use(fn, e)
        if z is not None:
            und("the list / the map is used in a conditionally evaluated operand (line %s)" % z.get("l"))

        def rec(n, par):
            if n is None:
                return
            if n["k"] == "LambdaExpr":
                if touches_state(fn, n):
                    und("a lambda works on the list / the map")
                return
            nxt = par if n["k"] in CASTS or n["k"] in WRAP else n
            for c in kids(n):
                rec(c, nxt)
            if n["k"] == "MemberExpr" and match.this_field(n) in ("list_", "map_"):
                ok = False
                if par is not None and "callee" in par and kids(par):
                    if strip_casts(kids(par)[0]) is n and (par.get("member_call") or par["k"] == "CXXOperatorCallExpr"):
                        ok = True
                    else:
                        po = obj_call(par)
                        ok = bool(po) and po[0] == "list_" and po[1] == "splice" and match.this_field(n) == "list_"
                if not ok:
                    und("%s is handed to something that is not modelled (line %s)" % (match.this_field(n), n.get("l")))
            oc = obj_call(n)
            if oc:
                handle_call(oc, par)
            elif "callee" in n:
                if is_sibling_call(n) and not n["callee"].get("const"):
                    und("calls %s() whose effect on the list / the map is not modelled here" % n["callee"]["name"])
                if n["k"] not in ("CXXOperatorCallExpr", "CXXConstructExpr", "CXXTemporaryObjectExpr") and n["callee"]["name"] not in VALUE_CALLS:
                    for a in kids(n):
                        if a is not None and a["k"] == "This":
                            und("this is handed to %s()" % n["callee"]["name"])
                        if a is not None and a["k"] == "DeclRefExpr" and a["ref"]["id"] in env:
                            env[a["ref"]["id"]] = ("?", len(out))
        rec(e, None)

    for kind, root, v in path_roots(lf):
        if kind == "loop":
            if touches_state(fn, root):
                und("a loop works on the list / the map (line %s)" % root.get("l"))
            continue
        scan(root)
        if kind == "decl":
            inits[v["did"]] = root
            r = role_of(root)
            if r != "?" or "iterator" in (v.get("ty") or "").lower():
                env[v["did"]] = (r, len(out))
            continue
        if kind != "expr":
            continue
        e = strip_casts(root)
        u = match.unop(e, ("--", "++"))
        if u and ref_of(u[1]) in env:
            env[ref_of(u[1])] = ("?", len(out))
        elif u and ref_of(u[1]) is None and (normalize.lvalue_root(u[1]) in env or touches_state(fn, u[1])):
            und("an element of the list / the map is modified in place (line %s)" % e.get("l"))
        b = match.binop(e, ASSIGN_OPS)
        if b:
            d = ref_of(b[1])
            if d is not None and d in env:
                env[d] = (role_of(b[2]) if b[0] == "=" else "?", len(out))
            elif d is None:
                root_l = normalize.lvalue_root(b[1])
                oc = obj_call(strip_casts(b[1]))
                if touches_state(fn, b[1]) and not (oc and oc[0] == "map_" and oc[1] == "operator[]" and b[0] == "="):
                    und("a store into the list / the map that is not modelled (line %s)" % e.get("l"))
                if isinstance(root_l, int) and root_l in env:
                    f = match.field_of(b[1])
                    if b[0] == "=" and f and f[1] == "second" and node_of(f[0]) == "found-node":
                        # it->second->second = ...: the value of the found list node
                        det = stored_detail([b[2]])
                        out.append(Ev("value.assign" if "+value" in det else "value.other", det, None))
                    else:
                        und("a store through an iterator of the list / the map is not modelled (line %s)" % e.get("l"))
    stop = lf["stop"]
    if stop[0] == "throw":
        out.append(Ev("throw", None, None))
    return out


def pop_roles(fn, lf):
    """which node pop() removes and which it reads on one path, by the role of the iterator involved:
    -> (removed roles, read roles); a role is "last", "begin", "end" or "?" """
    roles = {}

    def lcall(e, names):
        e = peel(e)
        c = match.call_named(e, names) if e is not None and "callee" in e else None
        if c is not None and c.get("member_call") and match.this_field(kids(c)[0]) == "list_":
            return c
        return None

    def role(e):
        e = peel(e)
        if e is None:
            return "?"
        if "callee" in e and e["k"] == "CallExpr" and e["callee"]["name"] in ("move", "forward", "as_const") and len(kids(e)) == 1:
            return role(kids(e)[0])             # an iterator is copied by a move
        if lcall(e, ("end", "cend")):
            return "end"
        if lcall(e, ("begin", "cbegin")):
            return "begin"
        d = ref_of(e)
        if d is not None:
            return roles.get(d, "?")
        if "callee" in e and e["callee"]["name"] == "prev" and kids(e):
            args = [a for a in kids(e) if a is not None and a["k"] != "DefaultArg"]
            if len(args) == 1 or (len(args) == 2 and const_int(args[1]) == 1):
                return "last" if role(args[0]) == "end" else "?"
        u = match.unop(e, ("--",))
        if u and not u[2]:
            return "last" if role(u[1]) == "end" else "?"
        return "?"
    removed, read = [], []

    def scan_reads(e):
        for z in ir.walk(e):
            d_ = match.deref_of(z) if z["k"] in ("UnaryOperator", "CXXOperatorCallExpr") else None
            if d_ is not None:
                read.append("last" if lcall(d_, ("rbegin", "crbegin")) else role(d_))
            f = match.field_of(z) if z["k"] == "MemberExpr" else None
            if f and z.get("arrow"):
                b = peel(f[0])
                if b is not None and "callee" in b and b.get("op") == "->" and kids(b):
                    b = peel(kids(b)[0])
                if ref_of(b) in roles:
                    read.append(roles[ref_of(b)])
                elif lcall(b, ("rbegin", "crbegin")):
                    read.append("last")
                elif lcall(b, ("begin", "cbegin", "end", "cend")):
                    read.append(role(b))
            if lcall(z, ("back",)):
                read.append("last")
            if lcall(z, ("front",)):
                read.append("begin")

    def handed_out(e):
        """an iterator local handed to a function by reference is no longer what it was (std::advance(it, -1) is understood)"""
        for z in ir.walk(e):
            if "callee" not in z or z["k"] in ("CXXOperatorCallExpr", "CXXConstructExpr", "CXXTemporaryObjectExpr") or z["callee"]["name"] in VALUE_CALLS:
                continue
            for a in kids(z)[(1 if z.get("member_call") else 0):]:
                if a is not None and a["k"] == "DeclRefExpr" and a["ref"]["id"] in roles:
                    d = a["ref"]["id"]
                    args = [q for q in kids(z) if q is not None and q["k"] != "DefaultArg"]
                    if z["callee"]["name"] == "advance" and len(args) == 2 and args[0] is a and const_int(args[1]) == -1:
                        roles[d] = "last" if roles[d] == "end" else "?"
                    else:
                        roles[d] = "?"
    for kind, root, v in path_roots(lf):
        if kind == "loop":
            continue
        if kind == "decl":
            handed_out(root)
            if "iterator" in (v.get("ty") or "").lower():
                roles[v["did"]] = role(root)
            else:
                scan_reads(root)
            continue
        if kind == "ret":
            scan_reads(root)
            continue
        e = strip_casts(root)
        u = match.unop(e, ("--", "++"))
        if u and ref_of(u[1]) in roles:
            roles[ref_of(u[1])] = "last" if (u[0] == "--" and roles[ref_of(u[1])] == "end") else "?"
            continue
        handed_out(e)
        c = lcall(e, ("pop_back",))
        if c:
            removed.append("last")
            continue
        c = lcall(e, ("pop_front",))
        if c:
            removed.append("begin")
            continue
        c = lcall(e, ("erase",))
        if c:
            removed.append(role(kids(c)[1]) if len(kids(c)) == 2 else "?")
            continue
        b = match.binop(e, ("=",))
        if b and ref_of(b[1]) in roles:
            roles[ref_of(b[1])] = role(b[2])
            continue
        scan_reads(e)
    return removed, read


MAP_KEYED = ("find", "erase", "at", "operator[]", "count", "contains", "insert", "emplace", "insert_or_assign", "emplace_hint", "try_emplace", "equal_range", "bucket")
LIST_KEYED = ("erase", "splice", "insert", "emplace")
# calls that take their arguments by forwarding / rvalue reference and build or store an object from them
MOVE_SINKS = ("push_front", "push_back", "emplace_front", "emplace_back", "insert", "emplace", "insert_or_assign", "emplace_hint", "try_emplace", "operator[]",
              "make_pair", "make_tuple", "assign", "swap")
MOVE_NO_SINKS = ("find", "erase", "at", "count", "contains", "equal_range", "bucket", "forward_as_tuple", "tie", "addressof", "as_const")


def moved_from_reads(fn, lf):
    """the keys / iterators handed to an operation of list_ / map_ that are read from an object which was moved from earlier on
    the path: `T out = std::move(*last); map_.erase(last->first);` - for a key type whose move empties the source the index is
    then worked on with an empty key.
    Objects are access paths (root, field, ...); a root is a value local or the list node an iterator value designates
    (iterator locals carry a value id that changes when they are written; end()/--end()/back() are named by role).  A move is
    std::move(x) consumed by a construction, an assignment or a storing call; moving a const object copies.  Evidence is a
    move of path M followed by a read of a path inside M in such an argument (also through a reference alias or a copy taken
    after the move).  A moved-from object that may have been given a new value, a move whose object or consumer is not
    understood followed by a read that may concern it: Undecidable.
    -> [(operation, printed read, line of the read, printed moved object, line of the move)]"""
    def und(what):
        raise dtable.Undecidable("%s: %s" % (fn.loc, what))

    if not any("callee" in y and y["callee"]["name"] in ("move", "forward", "move_if_noexcept")
               for _, root, _ in path_roots(lf) for y in ir.walk(root)):
        return []
    findings = []
    itval, alias = {}, {}
    moved, maybe = {}, {}         # path -> (printed object, line)
    st = {"epoch": 0, "nmut": 0, "n": 0, "unknown": None}
    pending = {}                  # id(consumer node) -> [(path, printed, line, definite)]

    def fresh(d):
        st["n"] += 1
        return ("v", d, st["n"])

    def is_iter_ty(ty):
        ty = (ty or "").replace("const", "").strip()
        return "iterator" in ty.lower() or ty.endswith("*")

    def unwrap(e):
        e = strip_casts(e)
        while e is not None and kids(e) and e["k"] in WRAP:
            e = strip_casts(kids(e)[0])
        return e

    def fwd_arg(e):
        """x of std::move(x) / std::forward<T>(x) / std::as_const(x)"""
        if e is not None and "callee" in e and not e.get("member_call") and e["k"] == "CallExpr" \
                and e["callee"]["name"] in ("move", "forward", "move_if_noexcept", "as_const"):
            args = [a for a in kids(e) if a is not None and a["k"] != "DefaultArg"]
            if len(args) == 1:
                return args[0]
        return None

    def itv(e):
        """value id of an iterator / pointer expression, None if not understood"""
        e = unwrap(e)
        if e is None:
            return None
        if fwd_arg(e) is not None:
            return itv(fwd_arg(e))
        if e["k"] in ("CXXConstructExpr", "CXXTemporaryObjectExpr") and len(kids(e)) == 1:
            return itv(kids(e)[0])
        d = ref_of(e)
        if d is not None:
            if d in alias:
                return ("at",) + alias[d] if alias[d] else None
            return itval.get(d, ("v0", d))
        oc = obj_call(e)
        if oc:
            f, name, c = oc
            args = [a for a in kids(c)[1:] if a is not None and a["k"] != "DefaultArg"]
            if f == "list_" and name in ("end", "cend") and not args:
                return ("end",)
            if f == "list_" and name in ("begin", "cbegin") and not args:
                return ("begin", st["epoch"])
            if f == "map_" and name == "find" and len(args) == 1:
                return ("find", dtable.describe(strip_casts(args[0])), st["nmut"])
            return None
        if "callee" in e and e["callee"]["name"] == "prev" and not e.get("member_call"):
            args = [a for a in kids(e) if a is not None and a["k"] != "DefaultArg"]
            if (len(args) == 1 or (len(args) == 2 and const_int(args[1]) == 1)) and itv(args[0]) == ("end",):
                return ("last", st["epoch"])
            return None
        u = match.unop(e, ("--", "++"))
        if u and not u[2] and ref_of(u[1]) is not None:
            return itv(u[1])        # the local has been written when its operand was evaluated
        if u and u[0] == "--" and not u[2] and itv(u[1]) == ("end",):
            return ("last", st["epoch"])
        if u:
            return None
        p = path(e)
        return ("at",) + p if p else None

    def path(e):
        """access path of the object an expression designates, None if not understood"""
        e = unwrap(e)
        if e is None:
            return None
        if fwd_arg(e) is not None:
            return path(fwd_arg(e))
        if e["k"] == "DeclRefExpr":
            d = e["ref"]["id"]
            if d in alias:
                return alias[d]
            if is_iter_ty(e.get("ty")):
                return None
            return (("var", d),)
        if e["k"] == "MemberExpr" and kids(e):
            if match.this_field(e):
                return None
            b = kids(e)[0]
            if e.get("arrow"):
                b0 = unwrap(b)
                if b0 is not None and "callee" in b0 and b0.get("op") == "->" and kids(b0):
                    b0 = kids(b0)[0]
                v = itv(b0)
                return (("node", v), e["member"]) if v else None
            p = path(b)
            return p + (e["member"],) if p else None
        d_ = match.deref_of(e)
        if d_ is not None:
            v = itv(d_)
            return (("node", v),) if v else None
        oc = obj_call(e)
        if oc and oc[0] == "list_" and oc[1] in ("back", "front") and len([a for a in kids(e)[1:] if a is not None]) == 0:
            return (("node", ("last" if oc[1] == "back" else "begin", st["epoch"])),)
        return None

    def related(p, q):
        n = min(len(p), len(q))
        return p[:n] == q[:n]

    def show(e):
        e = unwrap(e)
        if e is None:
            return "?"
        if fwd_arg(e) is not None:
            return show(fwd_arg(e))
        if e["k"] == "MemberExpr" and kids(e) and not match.this_field(e):
            b0 = unwrap(kids(e)[0])
            if e.get("arrow") and b0 is not None and "callee" in b0 and b0.get("op") == "->" and kids(b0):
                b0 = kids(b0)[0]
            return show(b0) + ("->" if e.get("arrow") else ".") + e["member"]
        if match.deref_of(e) is not None:
            return "*" + show(match.deref_of(e))
        return dtable.describe(e)

    def check_reads(arg, what):
        def rec(z):
            if z is None or z["k"] == "LambdaExpr":
                return
            p = path(z)
            z0 = unwrap(z)
            if p is None:
                if st["unknown"] is not None and z0 is not None and (z0.get("arrow") or match.deref_of(z0) is not None or
                                                                     (z0["k"] == "DeclRefExpr" and z0["ref"]["id"] in alias)):
                    und("%s: whether %s (line %s) reads the object moved from at line %s is not understood" % (what, show(z), z.get("l"), st["unknown"]))
                for c in kids(z):
                    rec(c)
                return
            for m, (txt, line) in moved.items():
                if p[:len(m)] == m:
                    findings.append((what, show(z), z.get("l"), txt, line))
                    return
                if m[:len(p)] == p:
                    und("%s reads %s (line %s), a part of which was moved from at line %s" % (what, show(z), z.get("l"), line))
            for m, (txt, line) in maybe.items():
                if related(p, m):
                    und("%s reads %s (line %s); whether it still is the object moved from at line %s (%s) is not understood" % (what, show(z), z.get("l"), line, txt))
        rec(arg)

    def revalidate(p):
        """the object at path p receives a new value"""
        for m in list(moved):
            if m[:len(p)] == p:
                del moved[m]
            elif p[:len(m)] == m:
                maybe[m] = moved.pop(m)
        for m in list(maybe):
            if m[:len(p)] == p:
                del maybe[m]

    def unsure(p):
        for m in list(moved):
            if related(p, m):
                maybe[m] = moved.pop(m)

    def write_iter(d, value=None):
        itval[d] = value if value is not None else fresh(d)

    def handle(n, par):
        """n has been evaluated (its operands before it); par: the expression that consumes its value"""
        oc = obj_call(n)
        if oc:
            f, name, c = oc
            args = [a for a in kids(c)[1:] if a is not None and a["k"] != "DefaultArg"]
            if name in (LIST_KEYED if f == "list_" else MAP_KEYED):
                for a in args:
                    check_reads(a, "%s.%s" % (f, name))
        # moves consumed by this node take effect now
        for p, txt, line, definite in pending.pop(id(n), []):
            if p is None:
                st["unknown"] = line
            elif definite:
                moved[p] = (txt, line)
                maybe.pop(p, None)
            else:
                maybe[p] = (txt, line)
        if oc:
            f, name = oc[0], oc[1]
            if name not in (LIST_PURE if f == "list_" else MAP_PURE + ("find", "at")):
                st["nmut"] += 1
                if f == "list_":
                    st["epoch"] += 1
            return
        x = fwd_arg(n)
        if x is not None and n["callee"]["name"] != "as_const":
            ty = (strip_casts(x).get("ty") or "")
            if ty.startswith("const ") or ty.rstrip().endswith(" const") or is_iter_ty(ty):
                return          # copies
            p = path(x)
            definite = n["callee"]["name"] == "move"
            if par is None:
                return          # value not used (statement / returned)
            if par["k"] == "VarDecl":
                if (par.get("ty") or "").rstrip().endswith("&"):
                    return      # T&& r = std::move(x): an alias
                pending.setdefault(id(par), []).append((p, show(x), n.get("l"), definite))
                return
            b = match.binop(par, ASSIGN_OPS)
            if par["k"] in ("CXXConstructExpr", "CXXTemporaryObjectExpr") or (b and unwrap(b[2]) is n):
                pending.setdefault(id(par), []).append((p, show(x), n.get("l"), definite))
                return
            if "callee" in par:
                nm = par["callee"]["name"]
                if nm in MOVE_NO_SINKS or fwd_arg(par) is not None:      # std::move(std::move(x)) is decided at the outer one
                    return
                pending.setdefault(id(par), []).append((p, show(x), n.get("l"), definite and nm in MOVE_SINKS))
                return
            if par["k"] in ("ReturnStmt", "CXXThrowExpr"):
                return
            pending.setdefault(id(par), []).append((p, show(x), n.get("l"), False))
            return
        # writes
        u = match.unop(n, ("++", "--"))
        if u:
            d = ref_of(u[1])
            if d is not None and (d in itval or is_iter_ty(strip_casts(u[1]).get("ty"))):
                write_iter(d, ("last", st["epoch"]) if (u[0] == "--" and itval.get(d) == ("end",)) else None)
            else:
                p = path(u[1])
                if p:
                    unsure(p)
            return
        b = match.binop(n, ASSIGN_OPS) if n["k"] in ("BinaryOperator", "CompoundAssignOperator", "CXXOperatorCallExpr") else None
        if b:
            d = ref_of(b[1])
            if d is not None and d not in alias and (d in itval or is_iter_ty(strip_casts(b[1]).get("ty"))):
                write_iter(d, itv(b[2]) if b[0] == "=" else None)
                return
            p = path(b[1])
            if p:
                if b[0] == "=":
                    src = path(b[2]) if fwd_arg(unwrap(b[2])) is None else None
                    revalidate(p)
                    if src is not None and any(src[:len(m)] == m for m in moved):       # a copy of a moved-from object
                        moved[p] = ("%s (of which %s is a copy taken afterwards)" % (show(b[2]), show(b[1])), n.get("l"))
                else:
                    unsure(p)
            elif moved and (st["unknown"] is None):
                lhs = unwrap(b[1])
                if lhs is not None and (lhs.get("arrow") or match.deref_of(lhs) is not None):
                    for m in list(moved):
                        if m[0][0] == "node":
                            maybe[m] = moved.pop(m)
            return
        if "callee" in n and n["k"] not in ("CXXConstructExpr", "CXXTemporaryObjectExpr") and n["callee"]["name"] not in VALUE_CALLS:
            # an object handed to / worked on by something that may give it a new value
            args = kids(n)
            for i, a in enumerate(args):
                if a is None:
                    continue
                a0 = unwrap(a)
                if i == 0 and (n.get("member_call") or n["k"] == "CXXOperatorCallExpr"):
                    if n["callee"].get("const") or (n["k"] == "CXXOperatorCallExpr" and n.get("op") in ("->", "*", "==", "!=", "<", "()", "[]")):
                        continue
                elif ("const" in (a.get("ty") or "") or "const" in (a0.get("ty") or "")) and a0["k"] != "UnaryOperator":
                    continue
                d = ref_of(a0)
                if d is not None and d in itval:
                    write_iter(d)
                    continue
                tgt = kids(a0)[0] if a0["k"] == "UnaryOperator" and a0.get("op") == "&" and kids(a0) else a0
                p = path(tgt)
                if p:
                    unsure(p)

    def visit(n, par):
        if n is None or n["k"] == "LambdaExpr":
            return
        nxt = par if (n["k"] in CASTS or n["k"] in WRAP) else n
        for c in kids(n):
            visit(c, nxt)
        if n["k"] not in CASTS and n["k"] not in WRAP:
            handle(n, par)

    for kind, root, v in path_roots(lf):
        if kind == "loop":
            if any("callee" in y and y["callee"]["name"] in ("move", "forward", "move_if_noexcept") for y in ir.walk(root)):
                und("objects are moved inside a loop (line %s)" % root.get("l"))
            for y in ir.walk(root):
                w = match.unop(y, ("++", "--")) or (match.binop(y, ASSIGN_OPS) if y["k"] in ("BinaryOperator", "CompoundAssignOperator", "CXXOperatorCallExpr") else None)
                r = normalize.lvalue_root(w[1]) if w else None
                if isinstance(r, int):
                    if r in itval or ref_of(w[1]) == r and is_iter_ty(strip_casts(w[1]).get("ty")):
                        write_iter(r)
                    unsure((("var", r),))
            continue
        if kind == "decl":
            visit(root, v)
            d = v["did"]
            ty = (v.get("ty") or "").rstrip()
            if ty.endswith("&"):
                alias[d] = path(root)
            elif is_iter_ty(ty):
                write_iter(d, itv(root))
            else:
                revalidate((("var", d),))
                core = unwrap(root)
                while core is not None and core["k"] in ("CXXConstructExpr", "CXXTemporaryObjectExpr") and len(kids(core)) == 1:
                    core = unwrap(kids(core)[0])
                src = path(core) if core is not None and fwd_arg(core) is None else None
                if src is not None:
                    for m, (txt, line) in moved.items():
                        if src[:len(m)] == m:
                            moved[(("var", d),)] = ("%s (of which %s is a copy taken afterwards)" % (txt, v.get("name")), line)
                            break
                    else:
                        if any(related(src, m) for m in maybe):
                            maybe[(("var", d),)] = (v.get("name"), v.get("l"))
                elif core is not None and fwd_arg(core) is None and (moved or maybe):
                    for z in ir.walk(root):
                        pz = path(z)
                        if pz and any(related(pz, m) for m in list(moved) + list(maybe)):
                            maybe[(("var", d),)] = (v.get("name"), v.get("l"))
                            break
            handle(v, None)         # a move that initialises the variable takes effect after the initialiser
        else:
            visit(root, {"k": "ReturnStmt"} if kind == "ret" else None)
    return findings


def lru_atomize(fn):
    """atoms: `found` = the lookup of the key parameter hit (it != map_.end(), map_.count(key), ...); `already-front` = the found
    node is list_.begin(); size()/empty() tests are auxiliary atoms"""
    key = fn.params[0]["did"] if fn.params else None

    def on(e, field, names):
        e = peel(e)
        oc = obj_call(e)
        return e if oc and oc[0] == field and oc[1] in names and oc[2].get("member_call") else None

    def resolve(e, run):
        e = peel(e)
        d = ref_of(e)
        if d is not None and d not in run.clobbered and isinstance(run.env.get(d), dict):
            return peel(run.env[d])
        return e

    def is_lookup(e, run, names=("find",)):
        c = on(resolve(e, run), "map_", names)
        if c is None:
            return False
        args = [a for a in kids(c)[1:] if a is not None]
        return key is None or (len(args) == 1 and ref_of(peel(args[0])) == key)

    def is_found_node(e, run):
        e = resolve(e, run)
        f = match.field_of(e)
        if not f or f[1] != "second":
            return False
        b = peel(f[0])
        if b is not None and "callee" in b and b.get("op") == "->" and kids(b):
            return is_lookup(kids(b)[0], run)
        if b is not None and match.deref_of(b) is not None:
            return is_lookup(match.deref_of(b), run)
        return False

    def atomize(n, run):
        b = match.binop(n, ("==", "!="))
        if b:
            for x, y in ((b[1], b[2]), (b[2], b[1])):
                if on(x, "map_", ("end", "cend")) is not None:
                    return ("found", b[0] == "==") if is_lookup(y, run) else None
                if on(x, "list_", ("begin", "cbegin")) is not None:
                    return ("already-front", b[0] == "!=") if is_found_node(y, run) else None
        if is_lookup(n, run, ("count", "contains")):
            return ("found", False)
        b = match.binop(n, ("==", "!=", ">", "<", ">=", "<="))
        if b:
            for x, y, op in ((b[1], b[2], b[0]), (b[2], b[1], {"<": ">", ">": "<", "<=": ">=", ">=": "<="}.get(b[0], b[0]))):
                if is_lookup(x, run, ("count",)) and const_int(y) is not None:
                    if (op, const_int(y)) in (("==", 0), ("<", 1), ("<=", 0)):
                        return ("found", True)
                    if (op, const_int(y)) in (("!=", 0), (">", 0), (">=", 1), ("==", 1)):
                        return ("found", False)
        def fill_level(e):
            c = match.call_named(peel(e), ("size", "empty"))
            return c is not None and "callee" in peel(e) and not [a for a in kids(c)[1:] if a is not None]
        ft = fill_test(n, run)
        if ft is not None:
            return ft
        if fill_level(n):
            return ("aux:" + dtable.describe(n), False)
        b = match.binop(n, ("==", "!=", ">", "<", ">=", "<="))
        if b and ((fill_level(b[1]) and const_int(b[2]) is not None) or (fill_level(b[2]) and const_int(b[1]) is not None)):
            return ("aux:" + dtable.describe(strip_casts(n)), False)
        return None

    def cache_fill(e, depth=0):
        """`size` / `empty` if e is the number of entries of this cache / the test for none: list_.size(), map_.size(), size() -
        the recency list and the index hold one element per entry (the invariant LRU-COUPLED maintains)"""
        e = peel(e)
        oc = obj_call(e)
        if oc and oc[1] in ("size", "empty") and oc[2].get("member_call") and not [a for a in kids(oc[2])[1:] if a is not None]:
            return oc[1]
        if is_sibling_call(e) and e["callee"].get("const") and e["callee"]["name"] in ("size", "empty") and depth < 2:
            sub = dtable.inline_call(fn, e)
            return cache_fill(sub, depth + 1) if sub is not None else None
        return None

    def at_entry(run):
        """no operation that changes the list / the map has been executed on the path so far"""
        for ev in run.events:
            root = ev[1] if ev[0] in ("expr", "loop") else (kids(ev[1])[0] if ev[0] == "decl" and kids(ev[1]) else None)
            if not isinstance(root, dict):
                continue
            for z in ir.walk(root):
                oc = obj_call(z)
                if oc and oc[1] not in (LIST_PURE if oc[0] == "list_" else MAP_PURE + ("find", "at")):
                    return False
                if (is_sibling_call(z) and not z["callee"].get("const")) or z["k"] == "LambdaExpr":
                    return False
        return True

    def fill_test(n, run):
        """truth of a test of the number of entries the cache had on entry, evaluated over the classes none / one / several
        (atoms fill:empty, fill:single): size() > 1, !empty(), size() == 0, ...; None if n is no such test or its value is
        not the same for all `several`"""
        op = c = None
        kind = cache_fill(n)
        if kind is not None:
            op, c = ("!=", 0) if kind == "size" else ("==", 0)
        else:
            b = match.binop(n, ("==", "!=", ">", "<", ">=", "<="))
            if b and strip_casts(n)["k"] in ("BinaryOperator", "UnaryOperator"):
                for x, y, o in ((b[1], b[2], b[0]), (b[2], b[1], {"<": ">", ">": "<", "<=": ">=", ">=": "<="}.get(b[0], b[0]))):
                    if cache_fill(x) == "size" and const_int(y) is not None:
                        op, c = o, const_int(y)
                        break
        if op is None:
            return None
        f = {"==": lambda s_: s_ == c, "!=": lambda s_: s_ != c, "<": lambda s_: s_ < c, ">": lambda s_: s_ > c,
             "<=": lambda s_: s_ <= c, ">=": lambda s_: s_ >= c}[op]
        several = {f(s_) for s_ in range(2, max(c, 2) + 3)}
        if len(several) != 1 or not at_entry(run):
            return None
        if run.atom("fill:empty"):
            return f(0)
        if run.atom("fill:single"):
            return f(1)
        return several.pop()
    return atomize


MUTATORS = ("put", "touch", "touch_if_exists", "erase", "erase_if_exists", "get", "get_touch", "pop", "clear")


def check_lru_fn(ck, rec, fn):
    is_map = rec == LM
    body = ret_as_if(with_siblings_inlined(fn), only=lambda e: conditional_state_use(fn, e) is not None)
    leaves = dtable.explore(body, lru_atomize(fn), fn)
    tag = "%s::%s" % (rec.split("::")[-1], fn.name)
    bad = False
    atoms = list(dict.fromkeys(["found"] + dtable.atoms_of(leaves)))

    def und(what):
        raise dtable.Undecidable("%s: %s" % (fn.loc, what))

    def violation(lf, rule, sig, msg):
        aux = [k for k in lf["val"] if k.startswith("aux:")]
        if aux:
            # the path is taken under a fill-level condition whose meaning for the rule is not known (it may make the path
            # infeasible or the missing effect unnecessary)
            und("%s: %s - but only under the condition %s, which is not understood" % (rule, msg, dtable.fmt_val({k: lf["val"][k] for k in aux})))
        ck.violation(rule, fn.qname, sig, msg, fn.loc)

    def judge(v_full, lf):
        """one path under one valuation -> True if a violation was reported"""
        bad = False
        found = v_full["found"]
        if fn.name in ("pop", "clear") and not found:
            return False
        front = lf["val"].get("already-front")
        if front is None and found and v_full.get("fill:single"):
            front = True        # the only entry is the front
        evs = lru_events(fn, lf)
        kinds = [e.kind for e in evs]
        # ---- effects that have no meaning on this path
        if not found and ("map.index" in kinds or "map.at" in kinds):
            und("%s uses map_[key] / map_.at(key) on the miss path (inserts / throws inside the container)" % fn.name)
        if fn.name != "clear" and ("list.clear" in kinds or "map.clear" in kinds):
            und("%s clears the list / the map" % fn.name)
        if any(e.kind == "map.erase" and e.detail == "it?" for e in evs):
            und("%s erases the index entry at an iterator of unknown origin" % fn.name)
        for i, e in enumerate(evs):
            if e.kind == "map.insert" and e.src == "assign" and found and not any(q.kind == "map.erase" for q in evs[:i]):
                und("%s re-points the existing index entry (map_[key] = ... on the found path), which is not modelled" % fn.name)
        # ---- coupling
        le = sum(1 for k in kinds if k in ("list.erase", "list.pop_back", "list.pop_front"))
        me = sum(1 for e in evs if e.kind == "map.erase" and (e.detail == "it" or found))     # erase(key) on the miss path removes nothing
        if fn.name != "pop" and le != me:
            violation(lf, "LRU-COUPLED", "%s:erase:%s" % (fn.name, found),
                      "on the path found=%s the recency list erases %d node(s) but the index map erases %d entry(ies)" % (found, le, me))
            bad = True
        if fn.name in ("erase", "erase_if_exists") and found and le == 0 and me == 0 and "throw" not in kinds:
            # closed world: every operation on the list / the map on this path was recognised, none removes anything
            violation(lf, "LRU-COUPLED", "%s:none:%s" % (fn.name, found), "on the path found=True %s removes neither the list node nor the index entry" % fn.name)
            bad = True
        lp = sum(1 for k in kinds if k in ("list.push_front", "list.push_back"))
        mi = kinds.count("map.insert")
        if lp != mi:
            violation(lf, "LRU-COUPLED", "%s:insert:%s" % (fn.name, found),
                      "on the path found=%s %d list insertion(s) but %d index insertion(s)" % (found, lp, mi))
            bad = True
        if lp and mi:
            li = [i for i, k in enumerate(kinds) if k in ("list.push_front", "list.push_back")][0]
            mi_i = kinds.index("map.insert")
            if mi_i < li:
                if evs[mi_i].detail == "?":
                    und("the index entry is created before the list node with an iterator that is not understood")
                violation(lf, "LRU-COUPLED", fn.name + ":order", "the index entry is created before the list node it must point to")
                bad = True
        if fn.name == "pop":
            removed, read = pop_roles(fn, lf)
            if len(removed) != le:
                und("which node pop() removes is not understood (%d removal(s), roles %s)" % (le, removed))
            if not (le == 1 and me == 1):
                violation(lf, "LRU-COUPLED", "pop:pair", "pop() must remove exactly one list node and its index entry")
                bad = True
        if fn.name == "clear" and not ("list.clear" in kinds and "map.clear" in kinds):
            violation(lf, "LRU-COUPLED", "clear:both", "clear() must clear both the recency list and the index")
            bad = True
        # ---- end roles: MRU = front, eviction = back
        for e in evs:
            wrong = False
            if e.kind == "list.push_back" or (e.kind == "list.pop_front" and fn.name != "pop"):
                wrong = True
            elif e.kind == "list.splice" and e.detail != "begin":
                if e.detail == "?":
                    und("%s: the position list_.splice moves the node to is not understood" % fn.name)
                wrong = True
            elif e.kind == "map.insert" and lp and e.detail not in ("begin", "front-node"):
                if e.detail == "?":
                    und("%s: the list iterator stored in the new index entry is not understood" % fn.name)
                wrong = True
            if wrong:
                violation(lf, "LRU-ENDS", "%s:%s" % (fn.name, e.kind), "%s uses the wrong end of the recency list (most recent = front, evicted = back): %s %s"
                          % (fn.name, e.kind, e.detail or ""))
                bad = True
        if fn.name == "pop":
            if "?" in removed or "?" in read or not read:
                und("which node pop() reads / removes is not understood (removed %s, read %s)" % (removed, read))
            if any(r != "last" for r in removed):
                violation(lf, "LRU-ENDS", "pop:list.pop_front", "pop() removes the %s of the recency list (most recent = front, evicted = back)"
                          % ("front" if "begin" in removed else "end()"))
                bad = True
            elif any(r != "last" for r in read):
                violation(lf, "LRU-ENDS", "pop:last", "pop() does not read the last element of the recency list (--end())")
                bad = True
        if fn.name in ("touch", "touch_if_exists", "get_touch") and found and "list.splice" not in kinds and front is not True:
            violation(lf, "LRU-ENDS", fn.name + ":no-touch", "%s does not move the key to the front on the found path" % fn.name)
            bad = True
        # ---- exceptions
        throws = "throw" in kinds
        if fn.name in ("touch", "erase", "get", "get_touch"):
            if found is False and not throws:
                violation(lf, "LRU-THROW-GUARD", fn.name + ":miss", "%s on an absent key does not throw" % fn.name)
                bad = True
            if found and throws:
                violation(lf, "LRU-THROW-GUARD", fn.name + ":hit", "%s throws although the key is present" % fn.name)
                bad = True
        elif throws:
            violation(lf, "LRU-THROW-GUARD", fn.name + ":throws", "%s must not throw" % fn.name)
            bad = True
        if found is False:
            # the iterator returned by the failed lookup is end(): using it or the node it `points to` is the defect
            uses = [e for e in evs if (e.kind == "list.erase" and e.detail in ("found-node", "?")) or (e.kind == "map.erase" and e.detail == "it")
                    or (e.kind == "list.splice" and (e.src in ("found-node", "?") or e.detail == "found-node"))]
            if any("?" in (e.detail, e.src) for e in uses):
                und("%s: an iterator used on the miss path is not understood" % fn.name)
            if uses:
                violation(lf, "LRU-THROW-GUARD", fn.name + ":miss-deref", "the miss path uses the end() iterator")
                bad = True
        # ---- put stores the element
        if fn.name == "put" and not throws:
            pushes = [e for e in evs if e.kind == "list.push_front"]
            stored = any("key" in e.detail and (not is_map or "+value" in e.detail) for e in pushes) or ("value.assign" in kinds)
            # a set that finds the key has it stored already: moving the node to the front (or finding it there) is all put() owes
            moved_ok = (not is_map) and found and any(e.kind == "list.splice" and e.detail == "begin" and e.src == "found-node" for e in evs) \
                and not any(k in ("list.erase", "list.pop_back", "list.pop_front", "map.erase") for k in kinds)
            unchanged_ok = (not is_map) and front is True and not any(k.startswith("list.") or k.startswith("map.e") for k in kinds)
            if not (stored or moved_ok or unchanged_ok):
                if any("?" in e.detail for e in pushes) or any(e.kind == "value.other" and "?" in (e.detail or "") for e in evs):
                    und("put(): what is stored in the new list node is not understood")
                violation(lf, "LRU-PUT-STORES", "put:%s" % dtable.fmt_val(lf["val"]),
                          "put() has a path (%s) that returns without storing the given %s" % (dtable.fmt_val(lf["val"]), "value" if is_map else "key"))
                bad = True
        return bad

    def consistent(v):
        """fill:empty / fill:single: the cache had no / exactly one entry on entry"""
        if v.get("fill:empty") and (v.get("fill:single") or v["found"]):
            return False
        if v["found"] and v.get("fill:single") and v.get("already-front") is False:
            return False        # the only entry is the front
        return True

    pending = None
    for v_full, lf in dtable.table(leaves, consistent, atoms):
        try:
            bad = judge(v_full, lf) or bad
        except dtable.Undecidable as e:      # the other paths are still judged: what they violate is reported
            pending = pending or e
    if pending is not None:
        raise pending
    if not bad:
        ck.ok("LRU-COUPLED", tag, "%d paths: list and index change together" % len(leaves))
        ck.ok("LRU-ENDS", tag, "front = most recent, back = evicted", nontrivial=fn.name in ("put", "touch", "touch_if_exists", "get_touch", "pop"))
        if fn.name in ("touch", "erase", "get", "get_touch"):
            ck.ok("LRU-THROW-GUARD", tag, "throws exactly on the miss path, no iterator use there")
        if fn.name == "put":
            ck.ok("LRU-PUT-STORES", tag, "every normal path stores the given %s" % ("key and value" if is_map else "key"))


MOVERS = ("move", "forward", "move_if_noexcept")


def check_lru_moved(ck, rec, fn, raw_tu):
    """LRU-COUPLED, moved-from keys: decided on the function as written (raw_tu() is the translation unit without the
    normaliser's substitution of locals - a value copied BEFORE a move is not the moved-from object, and std::move of a
    reference to const copies)"""
    tag = "%s::%s" % (rec.split("::")[-1], fn.name)
    cands = [f for f in raw_tu().find(record=rec, name=fn.name) if len(f.params) == len(fn.params) and f.body is not None]
    if len(cands) != 1:
        raise dtable.Undecidable("%s: %s is not found in the translation unit as written" % (fn.loc, tag))
    raw = cands[0]
    inlined = with_siblings_inlined(raw)
    if not any("callee" in y and y["callee"]["name"] in MOVERS for y in ir.walk(inlined)):
        return
    body = ret_as_if(inlined, only=lambda e: conditional_state_use(raw, e) is not None)
    leaves = dtable.explore(body, lru_atomize(raw), raw)
    bad = False
    for lf in leaves:
        for what, rd, rl, obj, ml in moved_from_reads(raw, lf):
            aux = [k for k in lf["val"] if k.startswith("aux:")]
            if aux:
                raise dtable.Undecidable("%s: %s reads %s after %s was moved from - but only under the condition %s, which is not understood"
                                         % (raw.loc, what, rd, obj, dtable.fmt_val({k: lf["val"][k] for k in aux})))
            ck.violation("LRU-COUPLED", raw.qname, "%s:moved-from:%s" % (raw.name, what),
                         "%s(): the argument of %s is read from %s (line %s) after %s was moved from (std::move at line %s): for a key type whose move "
                         "empties its source the operation works on an emptied key, the recency list and the index no longer change together"
                         % (raw.name, what, rd, rl, obj, ml), raw.loc)
            bad = True
    if not bad:
        ck.ok("LRU-COUPLED", tag + " moved-from", "%d paths: no list / index operation takes its key from a moved-from object" % len(leaves))


def check_lru(ck, tu, raw_tu):
    for rec in (LS, LM):
        for fn in tu.find(record=rec):
            if fn.name in MUTATORS:
                ck.guarded(lambda rec=rec, fn=fn: check_lru_fn(ck, rec, fn))
                ck.guarded(lambda rec=rec, fn=fn: check_lru_moved(ck, rec, fn, raw_tu))


# ------------------------------------------------------------------ SplayTree
def is_root(e, fn):
    """root designators: this->root_ or a Tree*& parameter"""
    if match.this_field(e) == "root_":
        return "root_"
    r = ref_of(e)
    if r is not None:
        i = fn.param_index(r)
        if i is not None and fn.params[i]["ty"].endswith("*&"):
            return "param:" + fn.params[i]["name"]
    return None


def null_tests(fn):
    """list of (tested_expr_node, polarity_nonnull_in_then, ifstmt)"""
    out = []
    for x in ir.walk(fn.body):
        if x["k"] != "IfStmt":
            continue
        c = kids(x)[0]
        conj = []

        def flat(n):
            b = match.binop(n, ("&&",))
            if b and strip_casts(n)["k"] == "BinaryOperator":
                flat(b[1]); flat(b[2])
            else:
                conj.append(n)
        flat(c)
        for n in conj:
            b = match.binop(n, ("==", "!="))
            if b and (is_null(b[2]) or is_null(b[1])):
                e = b[1] if is_null(b[2]) else b[2]
                out.append((e, b[0] == "!=", x, len(conj) == 1))
            pt = match.ptr_truth(n)
            if pt is not None:
                out.append((pt, True, x, len(conj) == 1))
            u = match.unop(n, ("!",))
            if u and match.ptr_truth(u[1]) is not None:
                out.append((match.ptr_truth(u[1]), False, x, len(conj) == 1))
    return out


def guarded_nonnull(fn, g, expr, at_node):
    """is `expr` known non-null at at_node: inside then-branch of if (expr != nullptr), or after if (expr == nullptr) return/break"""
    pos = g.pos_deep(at_node)
    for e, nonnull_then, ifs, sole in null_tests(fn):
        if not match.same_expr(e, expr):
            continue
        t, el = kids(ifs)[1], kids(ifs)[2]
        if nonnull_then and t is not None and any(y is at_node for y in ir.walk(t)):
            return True
        if not nonnull_then and sole and t is not None:
            # then-branch leaves (return / break / continue) -> afterwards non-null
            leaves = any(y["k"] in ("ReturnStmt", "BreakStmt", "ContinueStmt") for y in ir.walk(t))
            pi = g.pos_deep(kids(ifs)[0])
            if leaves and pi and pos and g.dominates(pi, pos) and not any(y is at_node for y in ir.walk(t)):
                return True
            if el is not None and any(y is at_node for y in ir.walk(el)):
                return True
    return False


def and_guarded(fn, expr, node):
    """node sits in the right operand of `expr != nullptr && ...`"""
    n, par = node, fn.parent(node)
    while par is not None:
        if par["k"] == "BinaryOperator" and par.get("op") == "&&" and len(kids(par)) == 2:
            l, r = kids(par)
            if any(y is n for y in ir.walk(r)) or r is n:
                for c in ir.walk(l):
                    b = match.binop(c, ("!=",))
                    if b and is_null(b[2]) and match.same_expr(b[1], expr):
                        return True
                    pt = match.ptr_truth(c)
                    if pt is not None and match.same_expr(pt, expr):
                        return True
        n, par = par, fn.parent(par)
    return False


def by_ref_uses(fn, g, designates, skip=()):
    """positions at which an lvalue selected by `designates` is handed to a call by reference or has its address taken:
    writes the rules cannot see"""
    out = []
    for y in ir.walk(fn.body):
        hit = False
        if "callee" in y and y["k"] not in ("CXXOperatorCallExpr", "CXXConstructExpr", "CXXTemporaryObjectExpr") and not any(y is s for s in skip):
            hit = any(a is not None and a["k"] in ("MemberExpr", "DeclRefExpr") and designates(a) for a in kids(y)[(1 if y.get("member_call") else 0):])
        if y["k"] == "UnaryOperator" and y.get("op") == "&" and kids(y) and designates(kids(y)[0]):
            hit = True
        if hit:
            p = g.pos(y) or g.pos_deep(y)
            if p:
                out.append(p)
    return out


def null_eval(fn, x):
    """SPLAY-NULL by path evaluation (decision table over the null tests of the function): splay() returns null exactly for a
    null tree, so the result - and every copy of it - carries the nullness of the argument.  A dereference of the result is
    fine where that nullness has been tested `non-null` on the path.
    -> None if every dereference is covered, else (dereferencing node, valuation of the path) - a concrete path on which the
    tree may be empty when the result is dereferenced"""
    body = ret_as_if(fn.body)

    def und(what):
        raise dtable.Undecidable("%s: SPLAY-NULL: %s" % (fn.loc, what))

    def pkey(e):
        e = strip_casts(e)
        if e is None:
            return None
        if e["k"] == "DeclRefExpr":
            return ("v", e["ref"]["id"])
        if e["k"] == "MemberExpr" and kids(e):
            b = strip_casts(kids(e)[0])
            if b is not None and b["k"] == "This":
                return ("this", e["member"])
            p = pkey(b)
            return p + (e["member"],) if p is not None else None
        return None

    class St:
        def __init__(self):
            self.keys, self.n, self.kx, self.done, self.bad, self.opaque = {}, 0, None, 0, [], []

    def st(run):
        if not hasattr(run, "nst"):
            run.nst = St()
        return run.nst

    def fresh(s):
        s.n += 1
        return "p%d" % s.n

    def key_for(s, p):
        if p not in s.keys:
            s.keys[p] = fresh(s)
        return s.keys[p]

    def invalidate(s, lhs):
        p = pkey(lhs)
        if p is None:
            mentioned = {z["ref"]["id"] for z in ir.walk(lhs) if z["k"] == "DeclRefExpr"}
            for q in list(s.keys):
                if len(q) > 2 or (q[0] == "v" and q[1] in mentioned):
                    del s.keys[q]
        elif len(p) == 2:
            for q in list(s.keys):
                if q[:2] == p:
                    del s.keys[q]
        else:
            for q in list(s.keys):
                if len(q) > 2 and p[-1] in q[2:]:
                    del s.keys[q]

    def check_derefs(s, run, e):
        if s.kx is None or e is None:
            return

        def rec(n, guarded):
            if n is None or n["k"] == "LambdaExpr":
                return
            base = None
            if n["k"] == "MemberExpr" and n.get("arrow") and kids(n):
                base = kids(n)[0]
            elif n["k"] == "UnaryOperator" and n.get("op") == "*" and kids(n):
                base = kids(n)[0]
            if base is not None:
                p = pkey(base)
                k = s.keys.get(p) if p is not None else None
                if k is not None and k == s.kx and k != "NONNULL" and run.val.get(k) is not True:
                    if guarded:
                        und("a dereference of the splay() result inside a nested conditional expression (line %s)" % n.get("l"))
                    if not s.opaque:
                        s.opaque.extend(k_ for k_ in run.val if k_.startswith("flag:"))
                    if s.opaque:
                        # a condition the evaluation does not understand was passed on the way: it may imply a non-empty tree
                        und("whether `%s` guards the dereference at line %s is not understood" % (s.opaque[0], n.get("l")))
                    s.bad.append(n)
            g2 = guarded or n["k"] == "ConditionalOperator" or (n["k"] == "BinaryOperator" and n.get("op") in ("&&", "||"))
            for c in kids(n):
                rec(c, g2)
        rec(e, False)

    def value_key(s, run, rhs):
        r = strip_casts(rhs)
        if r is None:
            return fresh(s)
        if is_null(r):
            return "NULL"
        if r["k"] == "CXXNewExpr":
            return "NONNULL"
        if r is x or (r["k"] == "CallExpr" and match.call_named(r, ("splay",)) is not None and len(kids(r)) > 1):
            k = value_key(s, run, kids(r)[1])
            if r is x:
                s.kx = k
            return k
        if r["k"] == "BinaryOperator" and r.get("op") == "=":
            return do_assign(s, run, kids(r)[0], kids(r)[1])
        p = pkey(r)
        return key_for(s, p) if p is not None else fresh(s)

    def do_assign(s, run, lhs, rhs):
        check_derefs(s, run, rhs)
        check_derefs(s, run, lhs)
        k = value_key(s, run, rhs)
        side_effects(s, run, rhs, top_assign=True)
        invalidate(s, lhs)
        p = pkey(lhs)
        if p is not None:
            s.keys[p] = k
        return k

    def side_effects(s, run, e, top_assign=False):
        """writes the evaluation does not follow: forget what was known about their targets"""
        for y in ir.walk(e):
            if y["k"] == "LambdaExpr":
                continue
            if not top_assign:
                w = match.unop(y, ("++", "--")) or (match.binop(y, ASSIGN_OPS) if y["k"] in ("BinaryOperator", "CompoundAssignOperator") else None)
                if w:
                    invalidate(s, w[1])
            if "callee" in y and y["k"] in ("CallExpr", "CXXMemberCallExpr"):
                for a in kids(y)[(1 if y.get("member_call") else 0):]:
                    if a is not None and a["k"] in ("DeclRefExpr", "MemberExpr"):
                        invalidate(s, a)
                if is_sibling_call(y) and not y["callee"].get("const"):
                    for q in list(s.keys):
                        if q[0] == "this":
                            del s.keys[q]
                if y is x and s.kx is None:
                    s.kx = value_key(s, run, kids(y)[1])

    def process_expr(s, run, e):
        e0 = strip_casts(e)
        if e0 is None:
            return
        if e0["k"] == "BinaryOperator" and e0.get("op") == "=":
            do_assign(s, run, kids(e0)[0], kids(e0)[1])
            return
        check_derefs(s, run, e0)
        side_effects(s, run, e0)

    def catch_up(s, run):
        evs = run.events
        while s.done < len(evs):
            ev = evs[s.done]
            s.done += 1
            if ev[0] == "decl":
                v = ev[1]
                init = kids(v)[0] if kids(v) else None
                if init is None:
                    continue
                ty = (v.get("ty") or "").replace(" ", "")
                if ty.endswith("*&") or ty.endswith("*const&"):
                    und("a reference to a pointer (%s) is not followed" % v.get("name"))
                check_derefs(s, run, init)
                k = value_key(s, run, init)
                side_effects(s, run, init, top_assign=True)
                s.keys[("v", v["did"])] = k
            elif ev[0] == "expr":
                process_expr(s, run, ev[1])
            elif ev[0] == "loop":
                loop = ev[1]
                if s.kx is not None:
                    before = len(s.bad)
                    check_derefs(s, run, loop)
                    if len(s.bad) > before:
                        und("the splay() result is dereferenced inside a loop whose guards are not evaluated (line %s)" % loop.get("l"))
                if any(y is x for y in ir.walk(loop)):
                    und("splay() is called inside a loop")
                for y in ir.walk(loop):
                    w = match.unop(y, ("++", "--")) or (match.binop(y, ASSIGN_OPS) if y["k"] in ("BinaryOperator", "CompoundAssignOperator") else None)
                    if w:
                        invalidate(s, w[1])
                side_effects(s, run, loop)

    def special(n, run):
        s = st(run)
        catch_up(s, run)
        e, neg = None, False
        bb = match.binop(n, ("==", "!="))
        if bb:
            for l, r in ((bb[1], bb[2]), (bb[2], bb[1])):
                if is_null(r) and "*" in (strip_casts(l).get("ty") or ""):
                    e, neg = l, bb[0] == "=="
                    break
        if e is None and match.ptr_truth(n) is not None:
            e = match.ptr_truth(n)
        if e is not None:
            ee = strip_casts(e)
            if ee["k"] == "BinaryOperator" and ee.get("op") == "=":
                k = do_assign(s, run, kids(ee)[0], kids(ee)[1])
            else:
                check_derefs(s, run, ee)
                p = pkey(ee)
                k = key_for(s, p) if p is not None else None
            if k == "NULL":
                return neg
            if k == "NONNULL":
                return not neg
            if k is not None:
                return (k, neg)
        return None

    def atomize(n, run):
        r = generic(n, run)
        if isinstance(r, tuple) and r[0].startswith("c:"):
            s = st(run)
            check_derefs(s, run, n)
            side_effects(s, run, n)
            if match.functor_call(strip_casts(n)) is None:      # key comparisons say nothing about an empty tree
                s.opaque.append(r[0][2:])
        return r
    generic = opaque_atomize(special)
    leaves = dtable.explore(body, atomize, fn)
    activated = False
    for lf in leaves:
        s = st(lf["run"])
        catch_up(s, lf["run"])
        stp = lf["stop"]
        if stp[0] == "return" and stp[1] and stp[1][0] is not None:
            process_expr(s, lf["run"], stp[1][0])
        activated = activated or s.kx is not None
        if s.bad:
            return s.bad[0], lf["val"]
    if not activated:
        und("the splay() call is not on a path the evaluation follows")
    return None


def splay_calls(ck, fn, tag, x, g):
    """SPLAY-WRITEBACK and SPLAY-NULL at one splay() call"""
    arg = kids(x)[1]
    root = is_root(arg, fn)
    # where does the result go?
    dest = None
    p = fn.parent(x)
    while p is not None and (p["k"] in CASTS or p["k"] in WRAP):
        p = fn.parent(p)
    if p is not None:
        b = match.binop(p, ("=",))
        if b and strip_casts(b[2]) is x:
            dest = b[1]
        elif p["k"] == "VarDecl":
            dest = p
    if root:
        # the (possibly different) root returned by splay must be stored back on every path
        ok_wb = dest is not None and dest.get("k") != "VarDecl" and is_root(dest, fn) == root
        if not ok_wb:
            pc = g.pos_deep(x)
            if not pc:
                raise dtable.Undecidable("%s: SPLAY-WRITEBACK: the splay() call has no position in the control flow graph" % fn.nloc(x))
            asg = [y for y in ir.walk(fn.body) if match.binop(y, ("=",)) and is_root(match.binop(y, ("=",))[1], fn) == root]
            asg_pos = [q for q in ((g.pos(y) or g.pos_deep(y)) for y in asg) if q]
            if asg_pos and g.path_avoiding(pc, asg_pos) is None:
                ok_wb = True
            else:
                # a path on which no assignment to the root follows: evidence, unless the root can be written in a way this rule
                # does not see or the missing assignment is conditional on a comparison with the root itself
                hidden = by_ref_uses(fn, g, lambda a: is_root(a, fn) == root, skip=(x,))
                if hidden and g.path_avoiding(pc, asg_pos + hidden) is None:
                    raise dtable.Undecidable("%s: SPLAY-WRITEBACK: %s is handed out by reference after splay(); whether the new root is stored is not understood"
                                             % (fn.nloc(x), root))
                # `if (result != root) root = result;`: on the edge on which the comparison says `equal` the root already is the
                # new root.  Understood when the comparison is the whole condition of an if, the other operand is the
                # never-reassigned local that holds the splay() result, and the root is not written before the test
                harmless, unknown_cmp = [], None
                holder = dest.get("did") if dest is not None and dest.get("k") == "VarDecl" and single_init(fn, dest.get("did")) is not None else None
                for y in ir.walk(fn.body):
                    c = match.binop(y, ("==", "!="))
                    if not (c and ((is_root(c[1], fn) == root and not is_null(c[2])) or (is_root(c[2], fn) == root and not is_null(c[1])))):
                        continue
                    other = c[2] if is_root(c[1], fn) == root else c[1]
                    child, par = y, fn.parent(y)
                    while par is not None and (par["k"] in CASTS or par["k"] in WRAP):
                        child, par = par, fn.parent(par)
                    edge = None
                    if holder is not None and ref_of(other) == holder and par is not None and par["k"] == "IfStmt" and kids(par)[0] is child \
                            and "init" not in par and "condvar" not in par:
                        py = g.pos_deep(y)
                        blk = [b for b, bl in g.blocks.items() if bl.get("term") == par["id"] and len(bl.get("succ", [])) == 2
                               and None not in bl["succ"]]
                        if py and len(blk) == 1 and g.reachable(pc, py) and not any(g.reachable(pc, q) and g.reachable(q, py) for q in asg_pos + hidden):
                            succ = g.blocks[blk[0]]["succ"]
                            edge = (blk[0], succ[0] if c[0] == "==" else succ[1])
                    if edge is None:
                        unknown_cmp = unknown_cmp or y
                    else:
                        harmless.append(edge)
                if harmless and g.path_avoiding(pc, asg_pos, blocked_edges=harmless) is None:
                    ok_wb = True
                elif unknown_cmp is not None:
                    raise dtable.Undecidable("%s: SPLAY-WRITEBACK: the write-back of %s depends on a comparison with the old root" % (fn.nloc(unknown_cmp), root))
                # else: a path to the exit without an assignment to the root that does not pass an edge on which result == root
        if ok_wb:
            ck.ok("SPLAY-WRITEBACK", "%s @%s" % (tag, fn.nloc(x)), "result of splay(%s) is stored back into %s on every path" % (root, root))
        else:
            ck.violation("SPLAY-WRITEBACK", fn.qname, "%s:%s" % (fn.name, root),
                         "splay() restructures the tree below %s but there is a path on which the new root is not stored back: the nodes above the old root are lost"
                         % root, fn.nloc(x))
    # null contradiction: result dereferenced while the argument may be null
    if dest is not None:
        derefs = []
        for y in ir.walk(fn.body):
            if y["k"] == "MemberExpr" and y.get("arrow") and kids(y):
                base = kids(y)[0]
                same = (dest.get("k") == "VarDecl" and ref_of(base) == dest.get("did")) or \
                       (dest.get("k") != "VarDecl" and match.same_expr(base, dest))
                if same and g.pos_deep(y) and g.pos_deep(x) and g.reachable(g.pos_deep(x), g.pos_deep(y)):
                    derefs.append(y)
        if derefs:
            okn = guarded_nonnull(fn, g, arg, x)
            if not okn and dest.get("k") != "VarDecl":
                okn = all(guarded_nonnull(fn, g, dest, d) or and_guarded(fn, dest, d) for d in derefs)
            how = "only where the argument is known non-null"
            cex = None
            if not okn:
                # no guard of a known shape: decide by evaluating the paths
                cex = null_eval(fn, x)
                how = "only on paths on which the tree was tested non-empty (path evaluation)"
            if cex is None:
                ck.ok("SPLAY-NULL", "%s @%s" % (tag, fn.nloc(x)), "splay(%s) result is dereferenced %s" % (dtable.describe(arg), how))
            else:
                ck.violation("SPLAY-NULL", fn.qname, "%s:%s" % (fn.name, dtable.describe(arg)),
                             "splay() returns null for a null tree (the code itself treats %s as nullable elsewhere) but the result is dereferenced unguarded"
                             % dtable.describe(arg) + (" on the path %s" % dtable.fmt_val(cex[1]) if cex[1] else ""), fn.nloc(cex[0]))


def check_owner(ck, tu, fn, tag, x, c, g):
    """SPLAY-OWNER at one splay_traverse_postorder(delete...) call: afterwards root_ must not keep the freed tree"""
    targ = peel(kids(c)[1]) if len(kids(c)) > 1 else None
    pc = g.pos_deep(x)

    def und(what):
        raise dtable.Undecidable("%s: SPLAY-OWNER: %s" % (fn.nloc(x), what))
    if targ is None or not pc:
        und("the traversal call is not understood")
    all_asg = [y for y in ir.walk(fn.body) if match.binop(y, ("=",)) and match.this_field(match.binop(y, ("=",))[1]) == "root_"]
    null_asg = [y for y in all_asg if is_null(match.binop(y, ("=",))[2])]
    pos = lambda ys: [q for q in ((g.pos(y) or g.pos_deep(y)) for y in ys) if q]   # noqa: E731
    hidden = by_ref_uses(fn, g, lambda a: match.this_field(a) == "root_")
    ok = False
    if match.this_field(targ) == "root_":
        if null_asg and g.path_avoiding(pc, pos(null_asg)) is None:
            ok = True
        elif (all_asg or hidden) and g.path_avoiding(pc, pos(all_asg) + hidden) is None:
            und("root_ is rewritten after the deletion in a way that is not understood")
        # else: a path to the exit on which root_ is not written at all after its tree was freed
    elif "callee" in targ and targ["callee"]["name"] == "exchange" and len(kids(targ)) == 2 and match.this_field(kids(targ)[0]) == "root_" \
            and is_null(kids(targ)[1]):
        ok = True
    elif ref_of(targ) is not None:
        # the tree is deleted through a copy of the root taken before: root_ must have been reset in between
        decl = [y for y in ir.walk(fn.body) if y["k"] == "VarDecl" and y.get("did") == ref_of(targ) and kids(y) and kids(y)[0] is not None
                and match.this_field(kids(y)[0]) == "root_"]
        pd = g.pos_deep(decl[0]) if decl else None
        writes = pos(all_asg) + hidden
        if pd and len(all_asg) == len(null_asg) and not hidden and any(g.dominates(pd, q) and g.dominates(q, pc) for q in pos(null_asg)):
            ok = True
        elif pd and g.dominates(pd, pc) and null_asg and g.path_avoiding(pc, pos(null_asg)) is None and g.path_between_avoiding(pd, pc, writes) is not None:
            ok = True           # still the root when deleted, reset afterwards on every path
        elif pd and g.dominates(pd, pc) and g.path_between_avoiding(pd, pc, writes) is not None and g.path_avoiding(pc, writes) is not None:
            pass                # root_ is never written between the copy, the deletion and the exit: it keeps the freed tree
        else:
            und("the deleted tree %s is not understood as the (reset) root" % dtable.describe(targ))
    else:
        und("the deleted tree %s is not understood" % dtable.describe(targ))
    if ok:
        ck.ok("SPLAY-OWNER", tag, "root_ is reset after all nodes were deleted")
    else:
        ck.violation("SPLAY-OWNER", fn.qname, fn.name + ":root_", "all nodes are deleted but root_ keeps pointing to freed memory (reuse or destructor -> double free)", fn.nloc(x))


def check_links(ck, fn, g):
    """SPLAY-LINK: a child link may only be overwritten when saved before or known null"""
    reassigned = set()
    link_lhs = set()        # ids of the link expressions that are written, not read, where they stand
    for y in ir.walk(fn.body):
        for lv in (written_lvalues(y) if y["k"] in ("UnaryOperator", "BinaryOperator", "CompoundAssignOperator") or tie_assign(y) else []):
            if ref_of(lv) is not None:
                reassigned.add(ref_of(lv))
            if tie_assign(y) or match.binop(y, ("=",)):
                link_lhs.add(id(strip_casts(lv)))
    understood = tie_calls(fn.body)
    for y in ir.walk(fn.body):
        # closed world: a link handed to a call by reference (or by address) may be overwritten there
        if "callee" not in y or id(y) in understood:
            continue
        callee = fn.tu.by_did.get(y["callee"].get("did"))
        functor = match.functor_call(y) is not None
        args = kids(y)[(1 if y.get("member_call") or functor else 0):]
        for i, a in enumerate(args):
            a0 = strip_casts(a)
            by_addr = a0 is not None and a0["k"] == "UnaryOperator" and a0.get("op") == "&" and kids(a0)
            if by_addr:
                a0 = strip_casts(kids(a0)[0])
            if a0 is None or a0["k"] != "MemberExpr" or a0.get("member") not in ("left", "right") or not a0.get("arrow"):
                continue
            pty = (callee.params[i]["ty"] if callee is not None and (functor or y["k"] != "CXXOperatorCallExpr") and i < len(callee.params) else "?").replace(" ", "")
            if not by_addr and pty != "?" and (not pty.endswith("&") or pty.endswith("const&") or pty.endswith("&&")):
                continue        # taken by value or read-only
            raise dtable.Undecidable("%s: SPLAY-LINK: the link %s is handed to %s() by %s: whether it is overwritten there is not understood"
                                     % (fn.nloc(y), dtable.describe(a0), y["callee"]["name"], "address" if by_addr else "reference"))

    def canon(d, depth=0):
        """a never-reassigned local that is a plain copy of a never-reassigned variable stands for that variable"""
        if d is None or d in reassigned or depth > 4:
            return d
        init = single_init(fn, d)
        src = ref_of(init) if init is not None and strip_casts(init)["k"] == "DeclRefExpr" else None
        if src is None or src in reassigned:
            return d
        return canon(src, depth + 1)

    def var_of(e):
        return canon(ref_of(e))

    def judge(x, tnode):
        base = kids(tnode)[0]
        bref = var_of(base)
        if bref is None:
            raise dtable.Undecidable("%s: SPLAY-LINK: the node whose %s link is overwritten (%s) is not a plain variable"
                                     % (fn.nloc(x), tnode["member"], dtable.describe(base)))
        # fresh node parameter (splay_insert's nn) or an earlier read of the same link or a null test
        fresh = fn.name == "splay_insert" and bref == fn.params[0]["did"]
        px = g.pos_deep(x)
        read_before = False
        foreign = None          # a read of the same link through an expression that is not a plain variable: may be the same node
        aliases = {bref}
        for lhs_, rhs_, y in simple_assigns(fn.body):
            if var_of(lhs_) == bref and strip_casts(lhs_)["k"] == "DeclRefExpr" and ref_of(rhs_) is not None \
                    and strip_casts(rhs_)["k"] == "DeclRefExpr":
                aliases.add(var_of(rhs_))
        for y in ir.walk(fn.body):
            if y["k"] == "VarDecl" and canon(y.get("did")) == bref and kids(y) and kids(y)[0] is not None and ref_of(kids(y)[0]) is not None:
                aliases.add(var_of(kids(y)[0]))
        for y in ir.walk(fn.body):
            if y is tnode or y["k"] != "MemberExpr" or y.get("member") != tnode["member"] or not kids(y):
                continue
            # is y read (not the lhs of an assignment)?
            par = fn.parent(y)
            is_lhs = id(y) in link_lhs or (par is not None and match.binop(par, ("=",)) and strip_casts(match.binop(par, ("=",))[1]) is y)
            py = g.pos_deep(y)
            if ref_of(kids(y)[0]) is None:
                if not is_lhs and py and px and (g.reachable(py, px) or py == px):
                    foreign = y
                continue
            if var_of(kids(y)[0]) not in aliases:
                continue
            if not is_lhs and py and px and (g.reachable(py, px) or py == px or var_of(kids(y)[0]) != bref):
                read_before = True
        nulltest = guarded_null(fn, g, tnode, x)
        if not (fresh or read_before or nulltest) and foreign is None and px:
            # the same link read through another variable that was copied from / to this one before the write
            may = {bref}
            copies = []
            for lhs_, rhs_, y in simple_assigns(fn.body):
                if strip_casts(lhs_)["k"] == "DeclRefExpr" and strip_casts(rhs_)["k"] == "DeclRefExpr":
                    copies.append((var_of(lhs_), var_of(rhs_), g.pos_deep(y)))
            for y in ir.walk(fn.body):
                if y["k"] == "VarDecl" and kids(y) and kids(y)[0] is not None and strip_casts(kids(y)[0])["k"] == "DeclRefExpr":
                    copies.append((canon(y["did"]), var_of(kids(y)[0]), g.pos_deep(y)))
            grew = True
            while grew:
                grew = False
                for a_, b_, q in copies:
                    if q and (g.reachable(q, px)) and ((a_ in may) != (b_ in may)):
                        may |= {a_, b_}
                        grew = True
            for y in ir.walk(fn.body):
                if y is tnode or y["k"] != "MemberExpr" or y.get("member") != tnode["member"] or not kids(y):
                    continue
                par = fn.parent(y)
                is_lhs = id(y) in link_lhs or (par is not None and match.binop(par, ("=",)) and strip_casts(match.binop(par, ("=",))[1]) is y)
                py = g.pos_deep(y)
                if not is_lhs and var_of(kids(y)[0]) in may - aliases and py and (g.reachable(py, px) or py == px):
                    foreign = y
        if not (fresh or read_before or nulltest):
            if foreign is not None:
                raise dtable.Undecidable("%s: SPLAY-LINK: whether %s (read at line %s) is the link %s->%s that is overwritten is not understood"
                                         % (fn.nloc(x), dtable.describe(foreign), foreign.get("l"), dtable.describe(base), tnode["member"]))
            ck.violation("SPLAY-LINK", fn.qname, "%s:%s->%s" % (fn.name, dtable.describe(base), tnode["member"]),
                         "%s->%s is overwritten although its old subtree was neither saved nor shown to be empty: with equivalent keys "
                         "(multiset) the overwritten subtree is non-empty and its nodes are lost" % (dtable.describe(base), tnode["member"]), fn.nloc(x))
        else:
            ck.ok("SPLAY-LINK", "%s %s->%s @%s" % (fn.name, dtable.describe(base), tnode["member"], fn.nloc(x)),
                  "fresh node" if fresh else "old link read before" if read_before else "link known null", nontrivial=False)

    for x in ir.walk(fn.body):
        ta = tie_assign(x)
        b = match.binop(x, ("=",))
        if not ta and not b:
            continue
        for lhs in ([strip_casts(l) for l in ta[0]] if ta else [strip_casts(b[1])]):
            targets = []
            if lhs["k"] == "MemberExpr" and lhs.get("member") in ("left", "right") and lhs.get("arrow"):
                targets = [lhs]
            elif lhs["k"] == "ConditionalOperator":
                targets = [strip_casts(k_) for k_ in kids(lhs)[1:] if strip_casts(k_)["k"] == "MemberExpr"]
            for tnode in targets:
                ck.guarded(lambda: judge(x, tnode))


def size_effects(fn, root, what):
    """net change of size_ by the expression; a write to size_ of another form is not understood"""
    delta = 0
    for y in ir.walk(root):
        if y["k"] == "LambdaExpr":
            continue
        fd = match.field_delta(y, "size_")
        if fd:
            amount = 1 if fd[1] == 1 else const_int(fd[1])
            if amount is None:
                raise dtable.Undecidable("%s: SPLAY-ALLOC-PAIR: size_ changes by an amount that is not a constant (line %s)" % (fn.loc, y.get("l")))
            delta += amount if fd[0] == "+" else -amount
            continue
        w = match.unop(y, ("++", "--")) or (match.binop(y, ASSIGN_OPS) if y["k"] in ("BinaryOperator", "CompoundAssignOperator", "CXXOperatorCallExpr") else None)
        if w and match.this_field(w[1]) == "size_":
            raise dtable.Undecidable("%s: SPLAY-ALLOC-PAIR: size_ is written in a form that is not understood (line %s)" % (fn.loc, y.get("l")))
        if "callee" in y and y["k"] not in ("CXXOperatorCallExpr", "CXXConstructExpr", "CXXTemporaryObjectExpr"):
            if any(a is not None and a["k"] == "MemberExpr" and match.this_field(a) == "size_" for a in kids(y)[(1 if y.get("member_call") else 0):]):
                raise dtable.Undecidable("%s: SPLAY-ALLOC-PAIR: size_ is handed to %s() by reference" % (fn.loc, y["callee"]["name"]))
    return delta


def foreign_calls(fn, root, known):
    """calls whose effect on the nodes / on size_ the rule does not know: other non-const members of this tree and tlx functions
    that are not in `known`"""
    out = []
    for y in ir.walk(root):
        if y["k"] == "LambdaExpr":
            out.append("a lambda")
        if "callee" not in y or y["k"] in ("CXXOperatorCallExpr", "CXXConstructExpr", "CXXTemporaryObjectExpr", "CXXNewExpr"):
            continue
        nm = y["callee"]["name"]
        if nm in known or nm.startswith("~"):
            continue
        if is_sibling_call(y):
            if not y["callee"].get("const"):
                out.append(nm + "()")
        elif not y.get("member_call") and (y["callee"].get("qname") or "").startswith("tlx::"):
            out.append(nm + "()")
    return out


def check_alloc_insert(ck, fn, tag):
    """insert: on every path the number of nodes allocated equals the change of size_"""
    leaves = dtable.explore(ret_as_if(fn.body, only=lambda e: False), opaque_atomize(), fn)
    seen_alloc = False
    bad = None
    for lf in leaves:
        allocs = delta = 0
        foreign = []
        for kind, root, _ in path_roots(lf):
            hits = [y for y in ir.walk(root) if ("callee" in y and y["callee"]["name"] == "allocate" and y["k"] != "CXXNewExpr")
                    or (y["k"] == "CXXNewExpr" and not y.get("placement"))]
            if kind == "loop" and (hits or size_effects(fn, root, "loop")):
                raise dtable.Undecidable("%s: SPLAY-ALLOC-PAIR: allocation / size_ inside a loop (line %s)" % (fn.loc, root.get("l")))
            allocs += len(hits)
            delta += size_effects(fn, root, kind)
            foreign += foreign_calls(fn, root, ("splay", "splay_insert", "allocate", "construct"))
        seen_alloc = seen_alloc or allocs > 0
        if allocs != delta and bad is None:
            if foreign:
                raise dtable.Undecidable("%s: SPLAY-ALLOC-PAIR: insert() calls %s, whose effect on the nodes / on size_ is not known" % (fn.loc, foreign[0]))
            bad = (lf["val"], allocs, delta)
    if bad is None and not seen_alloc:
        raise dtable.Undecidable("%s: SPLAY-ALLOC-PAIR: no node allocation found in insert()" % fn.loc)
    if bad is None:
        ck.ok("SPLAY-ALLOC-PAIR", tag, "one node allocated <-> size_++ on the same paths (%d paths)" % len(leaves))
    else:
        ck.violation("SPLAY-ALLOC-PAIR", fn.qname, "insert", "node allocation and size_++ are not on the same paths (path %s: %d node(s) allocated, size_ changes by %d)"
                     % (dtable.fmt_val(bad[0]) or "-", bad[1], bad[2]), fn.loc)


def check_alloc_delete(ck, fn, tag):
    """delete_node: on every path destroy, then deallocate, and size_ goes down by one"""
    leaves = dtable.explore(ret_as_if(fn.body, only=lambda e: False), opaque_atomize(), fn)
    bad = None
    for lf in leaves:
        seq = []
        delta = 0
        foreign = []
        for kind, root, _ in path_roots(lf):
            if kind == "loop":
                raise dtable.Undecidable("%s: SPLAY-ALLOC-PAIR: a loop in delete_node (line %s)" % (fn.loc, root.get("l")))
            for y in post_order(root):
                if y["k"] == "CXXDeleteExpr":
                    seq += ["dtor", "dealloc"]
                elif "callee" in y and (y["callee"]["name"].startswith("~") or y["callee"]["name"] in ("destroy", "destroy_at")):
                    seq.append("dtor")
                elif "callee" in y and y["callee"]["name"] == "deallocate":
                    seq.append("dealloc")
            delta += size_effects(fn, root, kind)
            foreign += foreign_calls(fn, root, ("destroy", "destroy_at", "deallocate"))
        if not seq and not delta and lf["val"]:
            raise dtable.Undecidable("%s: SPLAY-ALLOC-PAIR: delete_node has a path (%s) without any effect" % (fn.loc, dtable.fmt_val(lf["val"])))
        why = None
        if "dtor" in seq and "dealloc" in seq and seq.index("dealloc") < seq.index("dtor"):
            why = "deallocates before it destroys"
        elif seq.count("dtor") != 1 or seq.count("dealloc") != 1 or delta != -1:
            if foreign:
                raise dtable.Undecidable("%s: SPLAY-ALLOC-PAIR: delete_node calls %s, whose effect is not known" % (fn.loc, foreign[0]))
            why = "got %s, size_ changes by %d" % (seq, delta)
        if why and bad is None:
            bad = why
    if bad is None:
        ck.ok("SPLAY-ALLOC-PAIR", tag, "destroy, deallocate, size_--")
    else:
        ck.violation("SPLAY-ALLOC-PAIR", fn.qname, "delete_node", "delete_node must destroy, deallocate and decrement size_ (%s)" % bad, fn.loc)


def check_alloc_erase(ck, fn, tag):
    """erase(key): the node unlinked by splay_erase is freed exactly on the paths on which it is non-null"""
    holders = [y for y in ir.walk(fn.body) if y["k"] == "VarDecl" and kids(y) and kids(y)[0] is not None and "callee" in (peel(kids(y)[0]) or {})
               and match.call_named(peel(kids(y)[0]), ("splay_erase",)) is not None]
    calls = [y for y in ir.walk(fn.body) if "callee" in y and y["callee"]["name"] == "splay_erase"]
    if len(holders) != 1 or len(calls) != 1:
        raise dtable.Undecidable("%s: SPLAY-ALLOC-PAIR: the result of splay_erase is not held in one local variable" % fn.loc)
    o = holders[0]["did"]

    def special(n, run):
        pt = match.ptr_truth(n)
        if pt is not None and ref_of(pt) == o:
            return ("non-null", False)
        b = match.binop(n, ("==", "!="))
        if b:
            for l, r in ((b[1], b[2]), (b[2], b[1])):
                if ref_of(l) == o and is_null(r):
                    return ("non-null", b[0] == "==")
        return None
    leaves = dtable.explore(bool_ret_as_if(fn.body), opaque_atomize(special), fn)
    bad = None
    judged = 0
    for lf in leaves:
        if not any(ev[0] == "decl" and ev[1].get("did") == o for ev in lf["events"]):
            continue
        frees = 0
        for kind, root, v in path_roots(lf):
            for y in ir.walk(root):
                if "callee" in y and y["callee"]["name"] == "delete_node":
                    if kind == "loop" or ref_of(kids(y)[-1]) != o:
                        raise dtable.Undecidable("%s: SPLAY-ALLOC-PAIR: a delete_node call that is not understood (line %s)" % (fn.loc, y.get("l")))
                    frees += 1
                elif y["k"] == "DeclRefExpr" and y["ref"]["id"] == o:
                    par, to_bool = fn.parent(y), False
                    while par is not None and (par["k"] in CASTS or par["k"] in WRAP):
                        to_bool = to_bool or par.get("cast") == "PointerToBoolean"
                        par = fn.parent(par)
                    if par is not None and "callee" in par and par["callee"]["name"] == "delete_node":
                        continue
                    if to_bool or (par is not None and match.binop(par, ("==", "!="))):
                        continue
                    raise dtable.Undecidable("%s: SPLAY-ALLOC-PAIR: the unlinked node is used in a way that is not understood (line %s)" % (fn.loc, y.get("l")))
        nn = lf["val"].get("non-null")
        why = None
        if frees > 1:
            why = "frees the unlinked node %d times" % frees
        elif frees == 1 and nn is not True:
            why = "frees the result of splay_erase where it %s" % ("is null" if nn is False else "was not tested (null when the key is absent)")
        elif frees == 0 and nn is not False:
            why = "does not free the unlinked node where it %s" % ("is non-null" if nn else "was not tested")
        else:
            # the value returned tells whether a node was removed
            stp = lf["stop"]
            rv = const_int(stp[1][0]) if stp[0] == "return" and stp[1] and stp[1][0] is not None else None
            if rv is not None and bool(rv) != (frees == 1):
                why = "returns %s although %s" % ("true" if rv else "false", "a node was removed and freed" if frees else "no node was removed")
        if why and any(k_ != "non-null" for k_ in lf["val"]):
            raise dtable.Undecidable("%s: SPLAY-ALLOC-PAIR: erase() %s, under conditions that are not understood (%s)" % (fn.loc, why, dtable.fmt_val(lf["val"])))
        if why and bad is None:
            bad = (lf["val"], why)
        judged += 1
    if not judged:
        raise dtable.Undecidable("%s: SPLAY-ALLOC-PAIR: no path through the declaration of the splay_erase result was evaluated" % fn.loc)
    if bad is None:
        ck.ok("SPLAY-ALLOC-PAIR", tag, "the node unlinked by splay_erase is freed exactly on the found path")
    else:
        ck.violation("SPLAY-ALLOC-PAIR", fn.qname, "erase", "the node returned by splay_erase is not freed exactly when it is non-null (path %s: %s)"
                     % (dtable.fmt_val(bad[0]) or "-", bad[1]), fn.loc)


def bool_ret_as_if(s):
    """statement tree in which `return <bool expr>;` reads `if (<expr>) return true; else return false;`: the decision table
    evaluates the returned condition and the leaf tells which value is returned (expression nodes are shared, not copied)"""
    if s is None:
        return None
    k = s["k"]
    if k == "ReturnStmt" and kids(s) and kids(s)[0] is not None and (kids(s)[0].get("ty") or "").replace("const ", "") == "bool" \
            and const_int(kids(s)[0]) is None:
        def lit(b, off):
            return {"k": "ReturnStmt", "id": -s["id"] - off, "l": s.get("l"),
                    "ch": [{"k": "CXXBoolLiteralExpr", "id": -s["id"] - off - 2, "val": b, "ty": "bool", "l": s.get("l")}]}
        return {"k": "IfStmt", "id": -s["id"] - 1, "l": s.get("l"), "ch": [kids(s)[0], lit(True, 5), lit(False, 6)]}
    if k in ("CompoundStmt", "LabelStmt"):
        out = dict(s)
        out["ch"] = [bool_ret_as_if(c) for c in kids(s)]
        return out
    if k == "IfStmt":
        out = dict(s)
        out["ch"] = [kids(s)[0]] + [bool_ret_as_if(c) for c in kids(s)[1:]]
        if isinstance(s.get("condvar"), dict):
            del out["condvar"]
            decl = {"k": "DeclStmt", "id": -s["id"] - 2, "l": s.get("l"), "ch": [s["condvar"]]}
            return {"k": "CompoundStmt", "id": -s["id"] - 3, "l": s.get("l"), "ch": [decl, out]}
        return out
    return s


def found_table(fn, rootname, bool_fn):
    """Decision table of a function that splays its root for a key and then decides whether the key is there.

    The paths of the function are evaluated over the atoms
        empty      the tree is empty (a null test of the root before or after the splay: splay() returns null exactly for a null tree)
        k<root     cmp(key, root->key)  with root = the node splay(key, root, cmp) returned
        root<k     cmp(root->key, key)
        null:R.x   the root's left / right link is null (free: both values occur in every row)
        c:...      every other condition (opaque)
    while the pointer values of the root designator and of the locals are followed symbolically (T0 the root on entry, R the
    splay() result, R.left / R.right its links on return from splay, S(R.left) the result of splaying the left subtree for the
    same key, new a fresh node, ins(..) a splay_insert result, null, ?n anything else).  A write or a call that can change
    the root designator in a way that is not one of these raises Undecidable.
    -> (leaves, key expression); each leaf gets lf["fs"] = the state at its end and lf["ret"] = the value returned (pointer value
    or bool)"""
    def und(what):
        raise dtable.Undecidable("%s: SPLAY-FOUND: %s" % (fn.loc, what))

    src = with_siblings_inlined(fn)       # find() / erase(key) used by a sibling read like their bodies
    key = cmpx = None
    for y in ir.walk(src):
        if "callee" in y and y["k"] == "CallExpr" and match.call_named(y, ("splay",)) is not None and len(kids(y)) >= 3 \
                and is_root(kids(y)[1], fn) == rootname:
            if key is not None and not (match.same_expr(key, kids(y)[0]) and match.same_expr(cmpx, kids(y)[2])):
                und("the root is splayed for different keys (line %s)" % y.get("l"))
            key, cmpx = kids(y)[0], kids(y)[2]
    if key is None:
        und("no splay(key, %s, cmp) call in %s()" % (rootname.split(":")[-1], fn.name))
    key_vars = {z["ref"]["id"] for z in ir.walk(key) if z["k"] == "DeclRefExpr"}
    for y in ir.walk(src):
        for lv in written_lvalues(y):
            if normalize.lvalue_root(lv) in key_vars:
                und("the search key is written (line %s)" % y.get("l"))
        if y["k"] == "LambdaExpr":
            und("a lambda (line %s)" % y.get("l"))
    escaped = set()         # pointer locals whose address is taken: what they hold is not followed
    for y in ir.walk(src):
        if y["k"] == "UnaryOperator" and y.get("op") == "&" and kids(y):
            a = strip_casts(kids(y)[0])
            if a is not None and is_root(a, fn) == rootname:
                und("the address of %s is taken (line %s)" % (rootname.split(":")[-1], y.get("l")))
            if a is not None and a["k"] == "DeclRefExpr":
                escaped.add(a["ref"]["id"])

    class St:
        def __init__(self):
            self.root, self.env, self.store, self.dirty, self.n, self.done, self.splayed = "T0", {}, {}, False, 0, 0, False

    def st(run):
        if not hasattr(run, "fst"):
            run.fst = St()
        return run.fst

    def fresh(s):
        s.n += 1
        return "?%d" % s.n

    def is_ptr(e):
        return "*" in ((e or {}).get("ty") or "")

    def clobber(s, lv, v=None, base=None):
        """the lvalue lv receives v (anything if None); base: the node whose link lv is, when that was determined earlier"""
        lv = strip_casts(lv)
        if lv is None:
            return
        v = v if v is not None else fresh(s)
        if is_root(lv, fn) == rootname:
            s.root = v
        elif lv["k"] == "DeclRefExpr":
            s.env[lv["ref"]["id"]] = v
        elif lv["k"] == "MemberExpr" and lv.get("member") in ("left", "right") and kids(lv):
            b = base if base is not None else value(s, kids(lv)[0]) if lv.get("arrow") else fresh(s)
            if b == "R":
                s.store[("R", lv["member"])] = v
            elif b.startswith("?"):
                s.dirty = True
        elif lv["k"] == "MemberExpr" and lv.get("member") == "root_":
            und("a store to %s is not understood (line %s)" % (dtable.describe(lv), lv.get("l")))
        elif lv["k"] == "ConditionalOperator" and len(kids(lv)) == 3:
            for alt in kids(lv)[1:]:        # one of the two places is written
                clobber(s, alt)
        elif is_ptr(lv):
            # a store through a pointer to a pointer (*p, p[i]): the root designator and the locals are not reachable that way
            # (their address is not taken, checked on entry); a link of the old root may be
            s.dirty = True

    def call_effects(s, y):
        callee = fn.tu.by_did.get(y["callee"].get("did"))
        functor = match.functor_call(y) is not None
        args = kids(y)[(1 if y.get("member_call") or functor else 0):]
        for i, a in enumerate(args):
            a0 = strip_casts(a)
            by_addr = a0 is not None and a0["k"] == "UnaryOperator" and a0.get("op") == "&" and kids(a0)
            if by_addr:
                a0 = strip_casts(kids(a0)[0])
            if a0 is None or not (is_root(a0, fn) == rootname or (a0["k"] == "DeclRefExpr" and is_ptr(a0))):
                continue
            pty = (callee.params[i]["ty"] if callee is not None and (functor or y["k"] != "CXXOperatorCallExpr") and i < len(callee.params) else "?").replace(" ", "")
            if not by_addr and pty != "?" and (not pty.endswith("&") or pty.endswith("const&") or pty.endswith("&&")):
                continue        # taken by value or read-only
            if is_root(a0, fn) == rootname:
                und("%s is handed to %s() by %s: what it holds afterwards is not understood (line %s)"
                    % (rootname.split(":")[-1], y["callee"]["name"], "address" if by_addr else "reference", y.get("l")))
            clobber(s, a0)
        if rootname == "root_" and is_sibling_call(y) and not y["callee"].get("const"):
            s.root = fresh(s)

    def scan(s, e):
        """effects of an expression whose value is not followed"""
        for y in ir.walk(e):
            for lv in written_lvalues(y):
                clobber(s, lv)
            if "callee" in y and y["k"] not in ("CXXConstructExpr", "CXXTemporaryObjectExpr"):
                call_effects(s, y)

    def value(s, e):
        """pointer value of e; evaluates e (its stores and calls take effect)"""
        e = strip_casts(e)
        if e is None:
            return fresh(s)
        if is_null(e):
            return "null"
        if is_root(e, fn) == rootname:
            return s.root
        if e["k"] == "DeclRefExpr":
            d = e["ref"]["id"]
            if d not in s.env or d in escaped:
                s.env[d] = fresh(s)
            return s.env[d]
        if e["k"] == "BinaryOperator" and e.get("op") == "=":
            v = value(s, kids(e)[1])
            clobber(s, kids(e)[0], v)
            return v
        if e["k"] == "CXXNewExpr":
            scan(s, e)
            return "new"
        if e["k"] == "CallExpr" and match.call_named(e, ("splay",)) is not None and len(kids(e)) >= 3:
            a = value(s, kids(e)[1])
            same = match.same_expr(kids(e)[0], key) and match.same_expr(kids(e)[2], cmpx)
            if a == "null":
                return "null"
            if same and a == "T0":
                s.splayed = True
                return "R"
            if same and a == "R.left" and not s.dirty and ("R", "left") not in s.store:
                return "S(R.left)"
            return fresh(s)
        if e["k"] == "CallExpr" and match.call_named(e, ("splay_insert",)) is not None and len(kids(e)) >= 2:
            return "ins(%s,%s)" % (value(s, kids(e)[0]), value(s, kids(e)[1]))
        if e["k"] == "MemberExpr" and e.get("member") in ("left", "right") and e.get("arrow") and kids(e):
            b = value(s, kids(e)[0])
            if b == "R":
                if ("R", e["member"]) in s.store:
                    return s.store[("R", e["member"])]
                return fresh(s) if s.dirty else "R." + e["member"]
            return fresh(s)
        if e["k"] == "CallExpr" and "callee" in e and is_ptr(e) and match.functor_call(e) is None:
            # a function that is handed nothing but subtrees of the old root (by value; no parent links, no global state in this
            # file) returns a node below the old root or null - never the old root itself
            vals = [value(s, a) for a in kids(e) if a is not None and is_ptr(strip_casts(a))]
            for a in kids(e):
                if a is not None and not is_ptr(strip_casts(a)):
                    scan(s, a)
            call_effects(s, e)
            if vals and all(v in ("null", "R.left", "R.right", "S(R.left)") or v.startswith("below(") for v in vals):
                s.dirty = True      # the links may have been rearranged
                return "below(%s)" % e["callee"]["name"]
            return fresh(s)
        scan(s, e)
        return fresh(s)

    def process_expr(s, e):
        e0 = strip_casts(e)
        if e0 is None:
            return
        ta = tie_assign(e0)
        if ta:
            # std::tie(a, b, ...) = std::make_tuple(x, y, ...): the places are bound and all values are read before the first store
            bases = []
            for l in ta[0]:
                l0 = strip_casts(l)
                link = l0 is not None and l0["k"] == "MemberExpr" and l0.get("member") in ("left", "right") and l0.get("arrow") and kids(l0)
                bases.append(value(s, kids(l0)[0]) if link else None)
            vals = [value(s, r) for r in ta[1]]
            for l, b, v in zip(ta[0], bases, vals):
                clobber(s, l, v, b)
        elif e0["k"] == "BinaryOperator" and e0.get("op") == "=":
            value(s, e0)
        else:
            scan(s, e0)

    def catch_up(s, run):
        evs = run.events
        while s.done < len(evs):
            ev = evs[s.done]
            s.done += 1
            if ev[0] == "decl":
                v = ev[1]
                ty = (v.get("ty") or "").replace(" ", "")
                if ty.endswith("*&") or ty.endswith("*const&") or ty.endswith("*&&"):
                    und("a reference to a pointer (%s) is not followed" % v.get("name"))
                init = kids(v)[0] if kids(v) else None
                s.env[v["did"]] = value(s, init) if init is not None else fresh(s)
            elif ev[0] == "expr":
                process_expr(s, ev[1])
            elif ev[0] == "loop":
                scan(s, ev[1])
            elif ev[0] == "label":
                und("a label (line %s)" % fn.loc)

    def stamp(s, n):
        """the pointer values an opaque condition reads: the same text over other nodes is another condition"""
        out = []
        for z in ir.walk(n):
            if is_root(z, fn) == rootname:
                out.append(s.root)
            elif z["k"] == "DeclRefExpr" and is_ptr(z) and z["ref"]["id"] in s.env:
                out.append(s.env[z["ref"]["id"]])
        return ",".join(out)

    def same_cmp(f):
        """the comparator the tree was splayed with, or a never-reassigned copy of it"""
        if match.same_expr(f, cmpx):
            return True
        d = ref_of(f)
        init = single_init(fn, d) if d is not None else None
        return init is not None and match.same_expr(peel(init), cmpx)

    def special(n, run):
        s = st(run)
        catch_up(s, run)
        n0 = strip_casts(n)
        e, neg = None, False
        bb = match.binop(n0, ("==", "!="))
        if bb:
            for l, r in ((bb[1], bb[2]), (bb[2], bb[1])):
                if is_null(r) and is_ptr(strip_casts(l)):
                    e, neg = l, bb[0] == "!="
                    break
        pt = match.ptr_truth(n) or (match.ptr_truth(n0) if n0 is not n else None)
        if e is None and pt is not None:
            e, neg = pt, True
        if e is not None:
            # value of the atom: `the pointer is null`
            v = value(s, e)
            if v == "null":
                return not neg
            if v == "new" or v.startswith("ins("):
                return neg
            if v in ("T0", "R"):
                return ("empty", neg)
            if v in ("R.left", "R.right"):
                return ("null:" + v, neg)
            if v == "S(R.left)":
                return ("null:R.left", neg)
            return ("c:null(%s)" % v, neg)
        fc = match.functor_call(n0)
        if fc and len(fc[1]) == 2 and same_cmp(fc[0]):
            def side(a):
                if match.same_expr(a, key):
                    return "K"
                f = match.field_of(a)
                if f and f[1] == "key" and strip_casts(a).get("arrow"):
                    return value(s, f[0])
                scan(s, a)
                return None
            sides = (side(fc[1][0]), side(fc[1][1]))
            if sides == ("K", "R"):
                return ("k<root", False)
            if sides == ("R", "K"):
                return ("root<k", False)
            return ("c:%s[%s,%s]" % (dtable.describe(n0), sides[0], sides[1]), False)
        return None

    generic = opaque_atomize()

    def atomize(n, run):
        r = special(n, run)
        if r is not None:
            return r
        r = generic(n, run)
        if isinstance(r, tuple) and r[0].startswith("c:"):
            n0 = strip_casts(n)
            if n0 is not None and "callee" in n0 and n0["k"] in ("CallExpr", "CXXMemberCallExpr") and dtable.inline_call(fn, n0) is not None:
                return None     # a predicate helper that reads like its returned expression: the table evaluates that expression
            s = st(run)
            scan(s, n)
            return (r[0] + "@" + stamp(s, n), r[1])
        return r

    body = bool_ret_as_if(src) if bool_fn else ret_as_if(src, only=lambda e: False)
    leaves = dtable.explore(body, atomize, fn)
    for lf in leaves:
        s = st(lf["run"])
        catch_up(s, lf["run"])
        stp = lf["stop"]
        if stp[0] != "return" or not stp[1] or stp[1][0] is None:
            und("a path of %s() ends without returning a value (%s)" % (fn.name, stp[0]))
        if bool_fn:
            c = const_int(stp[1][0])
            if c is None:
                und("the value returned at line %s is not understood" % stp[1][0].get("l"))
            lf["ret"] = bool(c)
        else:
            lf["ret"] = value(s, stp[1][0])
        lf["fs"] = s
    if not any(lf["fs"].splayed for lf in leaves):
        und("the splay() call is not on a path the evaluation follows")
    return leaves


def check_found(ck, fn, tag):
    """SPLAY-FOUND: after root = splay(k, root, cmp) the root is the node with a key equivalent to k if there is one, else a
    neighbour of k.  `k is in the tree` therefore is: the tree is not empty and neither cmp(k, root->key) nor cmp(root->key, k).
      splay_erase   unlinks the root and returns it (for freeing) exactly in that row, returns null and keeps the root otherwise
      exists        returns true exactly in that row
      insert        (set) inserts nothing and returns false exactly in that row; (multiset) always inserts; returns whether it inserted
    Decided as a decision table over {empty, cmp(k,root), cmp(root,k)} (consistent: not both comparisons true): the verdict is a
    row of the table."""
    def und(what):
        raise dtable.Undecidable("%s: SPLAY-FOUND: %s" % (fn.loc, what))
    if fn.record is None:
        refs = [p for p in fn.params if p["ty"].replace(" ", "").endswith("*&")]
        if len(refs) != 1:
            und("the tree parameter of %s() is not understood" % fn.name)
        rootname, kind = "param:" + refs[0]["name"], "erase"
    else:
        rootname, kind = "root_", fn.name
    dup = None
    if kind == "insert":
        dup = {"true": True, "false": False, "1": True, "0": False}.get(fn.rtargs[2] if len(fn.rtargs) > 2 else None)
        if dup is None:
            und("the Duplicates argument of the tree is not understood")
    leaves = found_table(fn, rootname, kind != "erase")
    atoms = dtable.atoms_of(leaves)
    for a in ("empty", "k<root", "root<k"):
        if a not in atoms:
            atoms.append(a)

    def consistent(v):
        if v["k<root"] and v["root<k"]:
            return False
        if v["empty"]:      # no root to compare with and no links: one row
            return not any(b for a, b in v.items() if a != "empty" and not a.startswith("c:") and not a.startswith("flag:"))
        return True

    def row(v):
        if v["empty"]:
            return "empty tree"
        return "cmp(k,root)=%s, cmp(root,k)=%s" % ("true" if v["k<root"] else "false", "true" if v["root<k"] else "false")

    def outcome(lf):
        """-> (taken as found?, inconsistency or None)"""
        s, ret = lf["fs"], lf["ret"]
        if kind == "exists":
            return ret, None
        if s.root.startswith("?"):
            und("what %s holds at the end of the path %s is not understood" % (rootname.split(":")[-1], dtable.fmt_val(lf["val"]) or "-"))
        kept = s.root == "R" or (s.root == "T0" and not s.splayed)
        if s.root == "T0" and s.splayed:
            und("the splay() result is not stored back on the path %s (see SPLAY-WRITEBACK)" % (dtable.fmt_val(lf["val"]) or "-"))
        if kind == "erase":
            if ret not in ("R", "null", "T0") or (ret == "T0" and s.splayed):
                und("the value returned on the path %s is not understood" % (dtable.fmt_val(lf["val"]) or "-"))
            if ret == "T0":
                und("the old root is returned without a splay on the path %s" % (dtable.fmt_val(lf["val"]) or "-"))
            if ret == "R" and kept:
                return True, "the root is returned (to be freed) but stays linked in the tree"
            if ret == "null" and not kept:
                return False, "the root is unlinked but not returned: the node is lost"
            return ret == "R", None
        # insert
        inserted = s.root.startswith("ins(")
        if inserted and not s.root.startswith("ins(new,"):
            und("the node linked by splay_insert is not a fresh node (%s)" % s.root)
        if not inserted and not kept:
            und("%s changes in a way that is not understood (%s)" % (rootname, s.root))
        if ret != inserted:
            return not inserted, "returns %s although %s" % ("true" if ret else "false", "a node was inserted" if inserted else "nothing was inserted")
        return not inserted, None

    bad = None
    rows = 0
    for v, lf in dtable.table(leaves, consistent, atoms):
        if v["empty"] and ("k<root" in lf["val"] or "root<k" in lf["val"]):
            continue        # the root's key is read although the tree is empty (or is never empty here): that is SPLAY-NULL's question
        got, wrong = outcome(lf)
        found = not v["empty"] and not v["k<root"] and not v["root<k"]
        want = found and not dup if kind == "insert" else found
        why = None
        if wrong:
            why = wrong
        elif got and not want:
            why = {"erase": "the root is removed although %s" % ("the tree is empty" if v["empty"] else "its key differs from k"),
                   "exists": "returns true although %s" % ("the tree is empty" if v["empty"] else "the root's key differs from k"),
                   "insert": "the key is not inserted although %s" % ("the tree is empty" if v["empty"] else "duplicates are allowed" if found
                                                                        else "the root's key differs from k")}[kind]
        elif want and not got:
            why = {"erase": "the root holds a key equivalent to k but is not removed",
                   "exists": "returns false although the root holds a key equivalent to k",
                   "insert": "a key equivalent to the root's key is inserted again into a tree without duplicates"}[kind]
        rows += 1
        if why is None:
            continue
        opaque = [a for a in lf["val"] if a.startswith("c:") or a.startswith("flag:")]
        if opaque:
            und("in the row `%s` %s() %s, under a condition that is not understood (%s)" % (row(v), fn.name, why, opaque[0][2:]))
        rest = {a: b for a, b in lf["val"].items() if a not in ("empty", "k<root", "root<k")}
        bad = bad or (v, why + (" (where %s)" % dtable.fmt_val(rest) if rest else ""))
    if bad is None:
        ck.ok("SPLAY-FOUND", tag, {"erase": "the root is unlinked and returned exactly when neither cmp(k,root) nor cmp(root,k)",
                                   "exists": "true exactly when the tree is not empty and neither cmp(k,root) nor cmp(root,k)",
                                   "insert": "always inserts (duplicates allowed)" if dup else
                                             "inserts unless the tree is not empty and neither cmp(k,root) nor cmp(root,k)"}[kind] + " (%d rows)" % rows)
    else:
        ck.violation("SPLAY-FOUND", fn.qname, "%s:found" % fn.name,
                     "after splay(k) the key is in the tree exactly if the tree is not empty and neither cmp(k,root) nor cmp(root,k); row `%s`: %s"
                     % (row(bad[0]), bad[1]), fn.loc)


def check_splay(ck, tu):
    fns = [f for f in tu.functions if f.record == ST or (f.qname.startswith("tlx::splay") and f.record is None)]
    ck.require(fns, "SplayTree not instantiated")
    seen = set()
    for fn in fns:
        key = (fn.qname, tuple(fn.rtargs), tuple(fn.targs), len(fn.params))
        tag = fn.full.split("(")[0][-70:]
        cfgs = {}

        def g_of(fn=fn, cfgs=cfgs):
            if "g" not in cfgs:
                cfgs["g"] = cfgm.CFG(fn)
            return cfgs["g"]
        # ---- SPLAY-NULL + SPLAY-WRITEBACK at every splay() call
        for x in ir.walk(fn.body):
            c = match.call_named(x, ("splay",)) if "callee" in x and x["k"] == "CallExpr" else None
            if c is not None:
                ck.guarded(lambda x=x: splay_calls(ck, fn, tag, x, g_of()))
        # ---- SPLAY-OWNER: deleting all nodes must null the root
        for x in ir.walk(fn.body):
            c = match.call_named(x, ("splay_traverse_postorder",)) if "callee" in x else None
            if c is None or fn.record != ST:
                continue
            deletes = False
            for l in [y for y in ir.walk(c) if y["k"] == "LambdaExpr"]:
                lf = tu.by_did.get(l.get("fn"))
                if lf is not None and any(match.call_named(z, ("delete_node",)) for z in ir.walk(lf.body) if "callee" in z):
                    deletes = True
            if not deletes:
                # the visitor is a function object of a named class (by value, a named local, ...): the call operator is the
                # one this instantiation of the traversal invokes on its first parameter
                inst = tu.by_did.get(c["callee"].get("did"))
                if inst is not None and inst.body is not None and inst.params:
                    for y in ir.walk(inst.body):
                        fc = match.functor_call(y) if "callee" in y else None
                        if fc and ref_of(fc[0]) == inst.params[0]["did"]:
                            of = tu.by_did.get(y["callee"].get("did"))
                            if of is not None and of.body is not None and of.name == "operator()" \
                                    and any(match.call_named(z, ("delete_node",)) for z in ir.walk(of.body) if "callee" in z):
                                deletes = True
            if deletes:
                ck.guarded(lambda x=x, c=c: check_owner(ck, tu, fn, tag, x, c, g_of()))
        # ---- SPLAY-LINK: a child link may only be overwritten when saved before or known null
        if fn.record is None and fn.name in ("splay", "splay_insert", "splay_erase"):
            ck.guarded(lambda: check_links(ck, fn, g_of()))
        # ---- SPLAY-ORIENT
        if fn.record is None and fn.name == "splay" and key not in seen:
            ck.guarded(lambda: check_orient(ck, fn))
        if fn.record is None and fn.name == "splay_insert" and key not in seen:
            ck.guarded(lambda: check_insert_orient(ck, fn))
        # ---- allocation pairing
        if fn.record == ST and fn.name == "insert":
            ck.guarded(lambda: check_alloc_insert(ck, fn, tag))
        if fn.record == ST and fn.name == "delete_node":
            ck.guarded(lambda: check_alloc_delete(ck, fn, tag))
        if fn.record == ST and fn.name == "erase" and fn.params and not fn.params[0]["ty"].endswith("*"):
            ck.guarded(lambda: check_alloc_erase(ck, fn, tag))
        # ---- SPLAY-FOUND: the key-equality decision after a splay
        if (fn.record is None and fn.name == "splay_erase") or (fn.record == ST and fn.name in ("exists", "insert")):
            ck.guarded(lambda: check_found(ck, fn, tag))
        seen.add(key)


def guarded_null(fn, g, link, at_node):
    """link (p->left/right) known null at at_node: enclosing if (p->link == nullptr) or loop exit while (p->link != nullptr)"""
    for e, nonnull_then, ifs, sole in null_tests(fn):
        if match.same_expr(e, link) and not nonnull_then and kids(ifs)[1] is not None and any(y is at_node for y in ir.walk(kids(ifs)[1])):
            return True
    for l in match.loops_in(fn.body):
        init, cond, inc, body = match.loop_parts(l)
        if cond is None:
            continue
        b = match.binop(cond, ("!=",))
        e = None
        if b and is_null(b[2]):
            e = b[1]
        elif match.ptr_truth(cond) is not None:
            e = match.ptr_truth(cond)
        if e is not None and match.same_expr(e, link):
            pl, pa = g.pos_deep(cond), g.pos_deep(at_node)
            if pl and pa and g.dominates(pl, pa) and not any(y is at_node for y in ir.walk(body)):
                # no assignment to the base between loop exit and use (approximation: base not assigned in straight line after the loop)
                return True
    return False


def single_init(fn, did):
    """initialiser of a local that is declared once with an initialiser and never written afterwards, else None"""
    decls = [y for y in ir.walk(fn.body) if y["k"] == "VarDecl" and y.get("did") == did]
    if len(decls) != 1 or not kids(decls[0]) or kids(decls[0])[0] is None:
        return None
    for y in ir.walk(fn.body):
        for lv in written_lvalues(y):
            if normalize.lvalue_root(lv) == did and ref_of(lv) == did:
                return None
    return kids(decls[0])[0]


def check_orient(ck, fn):
    """SPLAY-ORIENT for the top-down splay loop, by evaluating one round of the loop on symbolic nodes: the nodes below the `t` of
    the start of the round are named by their access path (t0, t0.left, t0.left.left, ...); locals that copy such a node carry
    its name.  Each path through the loop body (decision table over the comparisons cmp(k, N->key) / cmp(N->key, k) and the
    other conditions as opaque atoms) yields the comparisons consulted and the moves of t.  Evidence for a violation is a path
    on which t steps from a node N into the child on the side the comparison at N excludes, or on which k is compared with a
    node on that side.  A move or a comparison whose node is not understood: Undecidable.
    Stores through nodes that are not below t0 (the spine pointers l / r carried over from earlier rounds) are taken not to
    alias the links read in this round."""
    k, t = fn.params[0]["did"], fn.params[1]["did"]

    def und(what, node=None):
        raise dtable.Undecidable("%s: SPLAY-ORIENT: %s" % (fn.nloc(node) if node is not None else fn.loc, what))

    def has_cmp(root):
        return any("callee" in y and match.functor_call(y) and any(ref_of(a) == k for a in match.functor_call(y)[1]) for y in ir.walk(root))
    loops = [l for l in match.loops_in(fn.body) if has_cmp(l)]
    if len(loops) != 1:
        und("expected one loop that compares the key with tree nodes, found %d" % len(loops))
    init, cond, inc, body = match.loop_parts(loops[0])
    def writes_t(root):
        return any(ref_of(lv) == t for y in ir.walk(root) for lv in written_lvalues(y))
    for part in (init, cond, inc):
        if part is not None and (has_cmp(part) or writes_t(part)):
            und("the loop header compares keys / moves the search position", part)

    def fmt(q):
        return ".".join(("t",) + q)

    INT_TYPES = ("int", "long", "short", "char", "signed char", "long long", "unsigned int", "unsigned long", "unsigned short",
                 "unsigned char", "unsigned long long")
    CMP = {"==": lambda a, b: a == b, "!=": lambda a, b: a != b, "<": lambda a, b: a < b, ">": lambda a, b: a > b,
           "<=": lambda a, b: a <= b, ">=": lambda a, b: a >= b}

    class State:
        def __init__(self):
            self.tpath, self.nodes, self.keys, self.dirty, self.moves, self.unknown = (), {}, {}, set(), [], None
            self.ints = {}      # integer locals that hold a constant on this path

    def nodeval(s, e):
        """name of the node a pointer expression designates, None if not understood"""
        e = peel(e)
        if e is None:
            return None
        d = ref_of(e)
        if d is not None:
            return s.tpath if d == t else s.nodes.get(d)
        if e["k"] == "BinaryOperator" and e.get("op") == "=":
            return nodeval(s, kids(e)[1])
        f = match.field_of(e)
        if f and f[1] in ("left", "right") and e.get("arrow"):
            b = nodeval(s, f[0])
            if b is None:
                return None
            if (b, f[1]) in s.dirty:
                s.unknown = s.unknown or ("the link %s.%s is read after it was overwritten in the same round" % (fmt(b), f[1]), e)
                return None
            return b + (f[1],)
        return None

    def targets(s, lhs, conditional=False):
        """the places an lvalue expression designates in the state s: ("var", did, conditional) | ("link", node or None, side) |
        ("key",); an lvalue of another form designates nothing the evaluation tracks"""
        lhs0 = peel(lhs)
        if lhs0 is None:
            return []
        if lhs0["k"] == "ConditionalOperator":
            return [x for c in kids(lhs0)[1:] for x in targets(s, c, True)]
        d = ref_of(lhs0)
        if d is not None:
            return [("var", d, conditional)]
        f = match.field_of(lhs0)
        if f and f[1] in ("left", "right"):
            return [("link", nodeval(s, f[0]), f[1])]
        if f and f[1] == "key":
            return [("key",)]
        return []

    def store(s, tg, val, node, ival=None):
        if tg[0] == "var":
            d, conditional = tg[1], tg[2]
            if ival is not None and not conditional:
                s.ints[d] = ival
            else:
                s.ints.pop(d, None)
            if d == t:
                if conditional or val is None or s.tpath is None:
                    s.unknown = s.unknown or ("where `%s` takes the search position is not understood" % dtable.describe(node), node)
                    s.tpath = None
                else:
                    s.moves.append((s.tpath, val, node))
                    s.tpath = val
            elif d == k:
                s.unknown = s.unknown or ("the key is assigned", node)
            elif val is not None and not conditional:
                s.nodes[d] = val
            else:
                s.nodes.pop(d, None)
            s.keys.pop(d, None)
        elif tg[0] == "link":
            if tg[1] is not None:
                s.dirty.add((tg[1], tg[2]))
        elif tg[0] == "key":
            s.unknown = s.unknown or ("a key is overwritten", node)

    def assign(s, lhs, rhs, node, conditional=False):
        val = nodeval(s, rhs)
        for tg in targets(s, lhs, conditional):
            store(s, tg, val, node, const_int(rhs))

    def assign_all(s, lhss, rhss, node, conditional=False):
        """std::tie(lhss...) = std::make_tuple(rhss...): all values are read and all targets are bound in the state before the
        statement, then the targets are written from left to right"""
        vals = [nodeval(s, r) for r in rhss]
        tgs = [targets(s, l, conditional) for l in lhss]
        flat = [(x[0], x[1]) if x[0] == "var" else x for tg in tgs for x in tg if x[0] != "link" or x[1] is not None]
        if len(set(flat)) != len(flat):
            s.unknown = s.unknown or ("`%s` writes the same place twice" % dtable.describe(node), node)
        for tg, val, r in zip(tgs, vals, rhss):
            for x in tg:
                store(s, x, val, node, const_int(r))

    def effects(s, e):
        """assignments and by-reference uses inside one executed expression, operands first"""
        understood = tie_calls(e)
        maybe = set()       # nodes below an operand that is evaluated on some executions of e only
        for y in ir.walk(e):
            if y["k"] == "ConditionalOperator" or (y["k"] == "BinaryOperator" and y.get("op") in ("&&", "||")):
                for c in kids(y)[1:]:
                    maybe.update(id(z) for z in ir.walk(c))
        for y in post_order(e):
            if y["k"] == "BinaryOperator" and y.get("op") == "=":
                assign(s, kids(y)[0], kids(y)[1], y, id(y) in maybe)
                continue
            ta = tie_assign(y)
            if ta:
                assign_all(s, ta[0], ta[1], y, id(y) in maybe)
                continue
            w = match.unop(y, ("++", "--")) or (match.binop(y, ASSIGN_OPS) if y["k"] in ("CompoundAssignOperator", "CXXOperatorCallExpr") else None)
            if w and ref_of(w[1]) in (t, k):
                s.unknown = s.unknown or ("`%s` is not understood" % dtable.describe(y), y)
                s.tpath = None
            elif w and ref_of(w[1]) is not None:
                s.nodes.pop(ref_of(w[1]), None)
                s.ints.pop(ref_of(w[1]), None)
            if "callee" in y and match.functor_call(y) is None and y["k"] not in ("CXXConstructExpr", "CXXTemporaryObjectExpr") and id(y) not in understood:
                for a in kids(y)[(1 if y.get("member_call") else 0):]:
                    a0 = a
                    if a0 is not None and a0["k"] == "UnaryOperator" and a0.get("op") == "&" and kids(a0):
                        a0 = kids(a0)[0]
                    if a0 is not None and a0["k"] == "DeclRefExpr":       # handed over by reference / by address
                        if a0["ref"]["id"] == t:
                            s.unknown = s.unknown or ("t is handed to %s()" % y["callee"]["name"], y)
                            s.tpath = None
                        s.nodes.pop(a0["ref"]["id"], None)
                        s.ints.pop(a0["ref"]["id"], None)

    def replay(run):
        s = State()
        for ev in run.events:
            if ev[0] == "decl":
                v = ev[1]
                init = kids(v)[0] if kids(v) else None
                if init is None:
                    continue
                effects(s, init)
                if const_int(init) is not None and (v.get("ty") or "").replace("const ", "").strip() in INT_TYPES:
                    s.ints[v["did"]] = const_int(init)
                ty = (v.get("ty") or "").replace(" ", "")
                if ty.endswith("&") and "*" in ty:
                    if any(y["k"] == "DeclRefExpr" and (y["ref"]["id"] == t or y["ref"]["id"] in s.nodes) for y in ir.walk(init)):
                        s.unknown = s.unknown or ("a reference to a pointer (%s) is not followed" % v.get("name"), v)
                    continue
                val = nodeval(s, init)
                if val is not None:
                    s.nodes[v["did"]] = val
                fk = match.field_of(peel(init))
                if fk and fk[1] == "key" and nodeval(s, fk[0]) is not None:
                    s.keys[v["did"]] = nodeval(s, fk[0])
            elif ev[0] == "expr":
                effects(s, ev[1])
            elif ev[0] == "loop":
                for y in ir.walk(ev[1]):
                    for lv in written_lvalues(y):
                        for lv0 in ([peel(c) for c in kids(peel(lv))[1:]] if peel(lv) is not None and peel(lv)["k"] == "ConditionalOperator" else [lv]):
                            if ref_of(lv0) == t:
                                s.unknown = s.unknown or ("t is assigned inside a nested loop", y)
                                s.tpath = None
                            elif ref_of(lv0) is not None:
                                s.nodes.pop(ref_of(lv0), None)
                                s.ints.pop(ref_of(lv0), None)
                            elif match.field_of(lv0) and match.field_of(lv0)[1] in ("left", "right"):
                                s.unknown = s.unknown or ("links are written inside a nested loop", y)
                if has_cmp(ev[1]):
                    s.unknown = s.unknown or ("keys are compared inside a nested loop", ev[1])
        return s

    def special(n, run):
        fc = match.functor_call(n)
        if not fc or len(fc[1]) != 2 or not any(ref_of(a) == k for a in fc[1]):
            return None
        s = replay(run)

        def role(e):
            e = peel(e)
            if ref_of(e) == k:
                return "k"
            if ref_of(e) is not None and ref_of(e) in s.keys:
                return s.keys[ref_of(e)]
            f = match.field_of(e)
            if f and f[1] == "key":
                return nodeval(s, f[0])
            return None
        a, b = role(fc[1][0]), role(fc[1][1])
        if s.unknown is not None:
            und(s.unknown[0], s.unknown[1])
        if a == "k" and isinstance(b, tuple):
            return ("k<" + fmt(b), False)
        if b == "k" and isinstance(a, tuple):
            return (fmt(a) + "<k", False)
        und("the node the key is compared with in %s is not understood" % dtable.describe(strip_casts(n)), n)
    generic = opaque_atomize(special)

    def is_int(e):
        return e is not None and (e.get("ty") or "").replace("const ", "").strip() in INT_TYPES

    def read_by_value(did, assigned=False):
        """every mention of the local is a read of its value (assigned: or the left side of a plain assignment): no reference
        to it, no address of it, no call that receives it"""
        for y in ir.walk(fn.body):
            if y["k"] == "VarDecl" and (y.get("ty") or "").rstrip().endswith("&") and any(z["k"] == "DeclRefExpr" and z["ref"]["id"] == did for z in ir.walk(y)):
                return False
            if y["k"] != "DeclRefExpr" or y["ref"]["id"] != did:
                continue
            inner, par = y, fn.parent(y)
            while par is not None and (par["k"] in CASTS or par["k"] in WRAP):
                inner, par = par, fn.parent(par)
            if par is None:
                return False
            if par["k"] == "BinaryOperator" and par.get("op") in tuple(CMP) + ("+", "-", "*", "&&", "||"):
                continue
            if assigned and par["k"] == "BinaryOperator" and par.get("op") == "=" and kids(par)[0] is inner:
                continue
            if par["k"] == "UnaryOperator" and par.get("op") in ("!", "-", "+") or par["k"] in ("ConditionalOperator", "IfStmt", "ReturnStmt"):
                continue
            return False
        return True

    def int_local(e, run):
        """initialiser of the integer local e reads, if the local was declared on this path, is written by nothing but its
        declaration and is only read by value (so that it still holds what the initialiser yielded), else None"""
        if e is None or e["k"] != "DeclRefExpr" or e["ref"].get("kind") != "local" or not is_int(e):
            return None
        did = e["ref"]["id"]
        init = run.env.get(did)
        if not isinstance(init, dict) or single_init(fn, did) is not init or not read_by_value(did):
            return None
        for y in ir.walk(init):     # what the initialiser reads must still be what it was: parameters, locals written once
            if y["k"] == "DeclRefExpr" and y["ref"].get("kind") == "local" and y["ref"]["id"] != did and single_init(fn, y["ref"]["id"]) is None:
                return None
        return init

    def at_decl(run, did):
        """the run as it stood when the local was declared: that is where its initialiser was evaluated"""
        for i, ev in enumerate(run.events):
            if ev[0] == "decl" and ev[1].get("did") == did:
                r2 = dtable.Run(run.atomize, run.val, fn)
                r2.events, r2.env = run.events[:i], run.env
                return r2
        return None

    def int_value(e, run, depth=0):
        """value of an integer expression made of constants, sign, ?: and conditions (as 0 / 1), of locals as int_local()
        accepts them and of locals that hold a constant on this path; a condition is decided by the table, at the place
        where the expression was evaluated.  None: not of this form"""
        if e is None or depth > 8:
            return None
        c = const_int(e)
        if c is not None:
            return c
        e0 = peel(e)
        if e0 is None:
            return None
        if e0["k"] == "UnaryOperator" and e0.get("op") in ("-", "+") and not e0.get("postfix"):
            v = int_value(kids(e0)[0], run, depth + 1)
            return None if v is None else -v if e0["op"] == "-" else v
        if e0["k"] == "ConditionalOperator":
            c0, a, b = kids(e0)
            return int_value(a if run.truth(c0) else b, run, depth + 1)
        if e0["k"] == "DeclRefExpr":
            init = int_local(e0, run)
            if init is not None:
                r2 = at_decl(run, e0["ref"]["id"])
                return int_value(init, r2, depth + 1) if r2 is not None else None
            if is_int(e0) and e0["ref"].get("kind") == "local" and read_by_value(e0["ref"]["id"], assigned=True):
                return replay(run).ints.get(e0["ref"]["id"])
            return None
        if (e0.get("ty") or "").replace("const ", "") == "bool":
            return 1 if run.truth(e0) else 0
        return None

    def int_test(n, run):
        """truth of a test of integers that hold the outcome of comparisons (int side = cmp(k, t->key) ? -1 : ...;
        if (side == 0) / if (side < 0) / if (side)): decided from the initialiser as evaluated at the declaration, or from
        the constant the local was assigned on this path"""
        if n["k"] == "DeclRefExpr" and is_int(n) and not isinstance(run.env.get(n["ref"]["id"]), bool):
            v = int_value(n, run)
            return None if v is None else v != 0
        if n["k"] == "BinaryOperator" and n.get("op") in CMP:
            a, b = kids(n)
            if (is_int(peel(a)) or const_int(a) is not None) and (is_int(peel(b)) or const_int(b) is not None) \
                    and not (const_int(a) is not None and const_int(b) is not None):
                va = int_value(a, run)
                vb = int_value(b, run) if va is not None else None
                return CMP[n["op"]](va, vb) if va is not None and vb is not None else None
        return None

    def free(did, depth=0):
        """the value of the local does not depend on the outcome of key comparisons made in this function: a pointer (which
        node it designates may, whether that node or its links are null does not), or a local written by its declaration only
        whose initialiser calls no function object and reads free locals only"""
        decls = [y for y in ir.walk(fn.body) if y["k"] == "VarDecl" and y.get("did") == did]
        if not decls:
            return True         # a parameter, a global
        if (decls[0].get("ty") or "").replace("const", "").replace("&", "").rstrip().endswith("*"):
            return True
        init = single_init(fn, did)
        if init is None or depth > 6:
            return False
        for y in ir.walk(init):
            if match.functor_call(y) is not None or y["k"] == "LambdaExpr":
                return False
            if y["k"] == "DeclRefExpr" and y["ref"].get("kind") == "local" and y["ref"]["id"] != did and not free(y["ref"]["id"], depth + 1):
                return False
        return True

    def dependent_read(n):
        """a read of a local that is not free() inside the condition n; pointers (variables, fields) are not entered: whether
        a node pointer is null is a property of the tree the function is given"""
        if n is None or n["k"] == "LambdaExpr":
            return None
        if n["k"] in ("MemberExpr", "DeclRefExpr") and (n.get("ty") or "").replace("const", "").rstrip().endswith("*"):
            return None
        if n["k"] == "DeclRefExpr":
            return n if n["ref"].get("kind") == "local" and not free(n["ref"]["id"]) else None
        for c in kids(n):
            y = dependent_read(c)
            if y is not None:
                return y
        return None

    def atomize(n, run):
        r = int_test(n, run)
        if r is not None:
            return r
        r = generic(n, run)
        if isinstance(r, tuple) and r[0].startswith("c:"):
            # an opaque condition is a free atom only if it cannot depend on what the comparisons of this round yielded
            y = dependent_read(n)
            if y is not None:
                und("the condition `%s` reads `%s`, whose value may depend on the outcome of key comparisons in a way that is not understood"
                    % (dtable.describe(strip_casts(n)), y["ref"]["name"]), n)
            return (r[0] + "@%d" % len(run.events), r[1])      # the same test after a change of the links is another condition
        return r
    leaves = dtable.explore(body, atomize, fn)
    bad = {}
    judged = {"left": 0, "right": 0}
    seen_top = set()
    pending = None

    def judge(lf):
        s = replay(lf["run"])
        lt, gt = {}, {}
        for key, val in lf["val"].items():
            if key.startswith("k<t"):
                lt[tuple(key[2:].split(".")[1:])] = val
            elif key.endswith("<k") and key.startswith("t"):
                gt[tuple(key[:-2].split(".")[1:])] = val
        if any(lt.get(q) and gt.get(q) for q in lt):
            return              # not a strict order
        if () in lt:
            seen_top.add("k<t")
        if () in gt:
            seen_top.add("t<k")
        if s.unknown is not None and (s.moves or lt or gt or s.tpath is None):
            und(s.unknown[0], s.unknown[1])

        def decision(q):
            return "left" if lt.get(q) is True else "right" if gt.get(q) is True else None

        def step(parent, side, node, what):
            d = decision(parent)
            if d is None:
                und("%s %s.%s on the path %s, on which no comparison of the key with %s says on which side the key lies"
                    % (what, fmt(parent), side, dtable.fmt_val(lf["val"]) or "-", fmt(parent)), node)
            if d != side:
                bad.setdefault(d, (node, "%s %s.%s (path %s)" % (what, fmt(parent), side, dtable.fmt_val(lf["val"]))))
            else:
                judged[d] += 1
        for q in sorted(set(lt) | set(gt), key=len):
            for i in range(len(q)):
                step(q[:i], q[i], None, "the key is compared with")
        for p_, q, node in s.moves:
            if q[:len(p_)] != p_:
                und("the search position moves from %s to %s, which is not below it" % (fmt(p_), fmt(q)), node)
            for i in range(len(p_), len(q)):
                step(q[:i], q[i], node, "the search continues at")
    for lf in leaves:
        try:
            judge(lf)
        except dtable.Undecidable as e:     # the other paths are still judged: what they violate is reported
            pending = pending or e
    if pending is not None and not bad:
        raise pending
    if not bad and (seen_top != {"k<t", "t<k"} or not (judged["left"] and judged["right"])):
        und("the two oriented comparisons of the key with the current node and the descents they lead to were not found (%s; %d left / %d right steps judged)"
            % (", ".join(sorted(seen_top)) or "none", judged["left"], judged["right"]))
    for side, (node, txt) in sorted(bad.items()):
        ck.violation("SPLAY-ORIENT", fn.qname, "splay:" + side,
                     "when the key is %s than the node the search must continue into the %s subtree: %s"
                     % ("smaller" if side == "left" else "larger", side, txt), fn.nloc(node) if node is not None else fn.loc)
    if not bad:
        ck.ok("SPLAY-ORIENT", "splay<%s>" % (fn.targs[0] if fn.targs else ""), "cmp(k,node) -> left, cmp(node,k) -> right, zig-zig on the same side")


def check_insert_orient(ck, fn):
    """splay_insert: on every path (tree empty | new key strictly smaller | strictly larger) the links at the end are the ones of
    a root insertion: decision table over {t is null, cmp(new, root), cmp(root, new)}, the assignments of each path are
    executed on symbolic values (null, t, nn, the links t had on entry, the address of a child link of t / nn held in a local)"""
    nn, t = fn.params[0]["did"], fn.params[1]["did"]

    def und(what):
        raise dtable.Undecidable("%s: SPLAY-ORIENT: splay_insert: %s" % (fn.loc, what))

    def unwrap(e):
        e = strip_casts(e)
        while e is not None and e["k"] in WRAP and kids(e):
            e = strip_casts(kids(e)[0])
        return e

    def owner(e):
        f = match.field_of(e)
        return ref_of(f[0]) if f and f[1] == "key" else None

    def table_atom(n):
        """the atoms of the table: t is null, cmp(new, root), cmp(root, new)"""
        n0 = strip_casts(n)
        pt = match.ptr_truth(n) or (match.ptr_truth(n0) if n0 is not n else None)
        if pt is not None and ref_of(pt) == t:
            return ("null", True)
        bb = match.binop(n0, ("==", "!="))
        if bb:
            for l, r in ((bb[1], bb[2]), (bb[2], bb[1])):
                if ref_of(l) == t and is_null(r):
                    return ("null", bb[0] == "!=")
        fc = match.functor_call(n0)
        if fc and len(fc[1]) == 2:
            o = (owner(fc[1][0]), owner(fc[1][1]))
            if o == (nn, t):
                return ("new<root", False)
            if o == (t, nn):
                return ("root<new", False)
            raise dtable.Undecidable("%s: comparison operands not understood: %s" % (fn.loc, dtable.describe(n0)))
        return None

    def replay(events, stop, run):
        """the effects of one path (or of the part of a path executed so far) on symbolic values
        -> (links {(node, side): value}, locals {did: value}, returned value)"""
        store, env = {}, {}

        def cond(c):
            """the condition of a ?: on this path: a const bool local the table has evaluated, or an atom the table has decided"""
            c0 = unwrap(c)
            if c0 is not None and c0["k"] == "UnaryOperator" and c0.get("op") == "!":
                return not cond(kids(c0)[0])
            d = ref_of(c0)
            if d is not None and c0.get("ty") == "const bool" and isinstance(run.env.get(d), bool) and d not in run.clobbered:
                return run.env[d]
            a = table_atom(c0) if c0 is not None else None
            if a is not None and a[0] in run.val:
                return (not run.val[a[0]]) if a[1] else run.val[a[0]]
            und("the condition of the ?: at line %s is not understood" % (c.get("l") if c is not None else "?"))

        def value(e):
            e = unwrap(e)
            if e is None:
                return "?"
            if is_null(e):
                return "null"
            d = ref_of(e)
            if d is not None:
                return "nn" if d == nn else "t" if d == t else env.get(d, "?")
            if e["k"] == "BinaryOperator" and e.get("op") == "=":
                v = value(kids(e)[1])
                assign(kids(e)[0], v)
                return v
            if e["k"] == "ConditionalOperator":
                c0, a, b = kids(e)
                return value(a if cond(c0) else b)
            if e["k"] == "UnaryOperator" and e.get("op") == "&":
                f = match.field_of(unwrap(kids(e)[0]))
                if f and f[1] in ("left", "right") and unwrap(kids(e)[0]).get("arrow"):
                    b = value(f[0])
                    if b in ("nn", "t"):
                        return ("&", b, f[1])
                return "?"
            if e["k"] == "UnaryOperator" and e.get("op") == "*":
                p = value(kids(e)[0])
                if isinstance(p, tuple):
                    return store.get((p[1], p[2]), "%s->%s" % (p[1], p[2]))
                return "?"
            f = match.field_of(e)
            if f and f[1] in ("left", "right"):
                b = value(f[0])
                if b in ("nn", "t"):
                    return store.get((b, f[1]), "%s->%s" % (b, f[1]))
            return "?"

        def assign(lhs, v):
            d = ref_of(lhs)
            if d is not None:
                if d in (nn, t):
                    und("a parameter is reassigned (line %s)" % lhs.get("l"))
                env[d] = v
                return
            l0 = unwrap(lhs)
            if l0 is not None and l0["k"] == "UnaryOperator" and l0.get("op") == "*":
                p = value(kids(l0)[0])
                if not isinstance(p, tuple):
                    und("a store to %s is not understood" % dtable.describe(lhs))
                if isinstance(v, tuple):
                    und("the address of a link is stored in a link (line %s)" % lhs.get("l"))
                store[(p[1], p[2])] = v
                return
            f = match.field_of(lhs)
            b = value(f[0]) if f else "?"
            if not f or b not in ("nn", "t"):
                und("a store to %s is not understood" % dtable.describe(lhs))
            if isinstance(v, tuple):
                und("the address of a link is stored in a link (line %s)" % lhs.get("l"))
            store[(b, f[1])] = v
        for kind, root, v in path_roots({"events": events, "stop": stop}):
            if kind == "loop":
                und("a loop")
            if kind == "ret":
                continue
            if kind == "decl":
                if (v.get("ty") or "").rstrip().endswith("&"):
                    und("a reference local (%s)" % v.get("name"))
                env[v["did"]] = value(root)
                continue
            e = strip_casts(root)
            ta = tie_assign(e)
            if e["k"] == "BinaryOperator" and e.get("op") == "=":
                value(e)
            elif ta and not (len(ta[0]) > 1 and any(ref_of(l) is not None for l in ta[0])) \
                    and not any("callee" in y or match.unop(y, ("++", "--")) or y["k"] == "CompoundAssignOperator" or (y["k"] == "BinaryOperator" and y.get("op") == "=")
                                for a in ta[0] + ta[1] for y in ir.walk(a)):
                # std::tie(a, b, ...) = std::make_tuple(x, y, ...): all values are read before the first store
                vals = [value(r) for r in ta[1]]
                places = [(value(match.field_of(strip_casts(l))[0]), match.field_of(strip_casts(l))[1]) if match.field_of(strip_casts(l)) else ref_of(l) for l in ta[0]]
                if len(set(places)) != len(places):
                    und("the statement at line %s writes the same place twice" % e.get("l"))
                for l, v_ in zip(ta[0], vals):
                    assign(strip_casts(l), v_)
            elif any(match.unop(y, ("++", "--")) or (match.binop(y, ASSIGN_OPS) and y["k"] in ("BinaryOperator", "CompoundAssignOperator"))
                     or ("callee" in y and y["k"] in ("CallExpr", "CXXMemberCallExpr")) for y in ir.walk(e)):
                und("the statement at line %s is not understood" % e.get("l"))
        ret = value(stop[1][0]) if stop[0] == "return" and stop[1] and stop[1][0] is not None else None
        if isinstance(ret, tuple):
            ret = "?"
        return store, env, ret

    def atomize(n, run):
        a = table_atom(n)
        if a is not None:
            return a
        # a test of a pointer local against null: decided from the value the statements executed so far have given it
        n0 = strip_casts(n)
        pt = match.ptr_truth(n) or (match.ptr_truth(n0) if n0 is not n else None)
        p, nonnull_is = (pt, True) if pt is not None else (None, None)
        bb = match.binop(n0, ("==", "!=")) if p is None else None
        if bb and n0["k"] == "BinaryOperator":
            for l, r in ((bb[1], bb[2]), (bb[2], bb[1])):
                if is_null(r) and not is_null(l):
                    p, nonnull_is = l, bb[0] == "!="
                    break
        d = ref_of(p) if p is not None else None
        if d is None or d in (nn, t) or not (unwrap(p).get("ty") or "").rstrip().endswith("*"):
            return None
        pv = replay(run.events, ("end", None), run)[1].get(d, "?")
        if pv == "null":
            return not nonnull_is
        if isinstance(pv, tuple) and (pv[1] == "nn" or run.val.get("null") is False):
            return nonnull_is           # the address of a link of an existing node
        if pv == "t":
            return ("null", nonnull_is)
        return None
    leaves = dtable.explore(ret_as_if(fn.body, only=lambda e: False), atomize, fn)

    def final_state(lf):
        """-> (links at the end {(node, side): value}, returned value)"""
        store, _env, ret = replay(lf["events"], lf["stop"], lf["run"])
        return store, ret
    want_empty = {("nn", "left"): "null", ("nn", "right"): "null"}
    want_small = {("nn", "left"): "t->left", ("nn", "right"): "t", ("t", "left"): "null", ("t", "right"): "t->right"}
    want_large = {("nn", "right"): "t->right", ("nn", "left"): "t", ("t", "right"): "null", ("t", "left"): "t->left"}
    atoms = dtable.atoms_of(leaves)
    if "null" not in atoms or not ({"new<root", "root<new"} & set(atoms)):
        raise dtable.Undecidable("%s: splay_insert decision not found" % fn.loc)
    bad = None
    for v, lf in dtable.table(leaves, lambda v_: not (v_.get("new<root") and v_.get("root<new")), atoms):
        store, ret = final_state(lf)
        if ret == "?" or "?" in store.values():
            und("a value on the path %s is not understood (%s)" % (dtable.fmt_val(lf["val"]), sorted(store.items())))
        if ret != "nn":
            bad = bad or (v, "does not return the new node")
            continue
        got = {(o, s): store.get((o, s), "%s->%s" % (o, s)) for o in ("nn", "t") for s in ("left", "right")}
        if v["null"]:
            if {q: got[q] for q in want_empty} != want_empty:
                bad = bad or (v, "inserting into an empty tree must null both links of the new node")
        elif v.get("new<root"):
            if got != want_small:
                bad = bad or (v, "new key smaller: the old root must become the right child and hand over its left subtree")
        elif v.get("root<new"):
            if got != want_large:
                bad = bad or (v, "new key larger: the old root must become the left child and hand over its right subtree")
        else:
            if got not in (want_small, want_large):
                bad = bad or (v, "equivalent keys: the old root must become a child of the new node")
    if bad:
        ck.violation("SPLAY-ORIENT", fn.qname, "splay_insert", "the new root is linked on the wrong side of the old root (%s): %s" % (dtable.fmt_val(bad[0]), bad[1]), fn.loc)
    else:
        ck.ok("SPLAY-ORIENT", "splay_insert", "new key smaller: old root becomes right child (and hands over its left subtree); otherwise mirrored")


def run(ck):
    ck.explanation = (
        "LRU caches: every mutator is split into its paths over the atoms `found` (lookup hit) and `already-front`; per path the effects on the "
        "recency list and the index map are extracted and must change together, use front as the most-recent end and back as the eviction end, throw "
        "exactly on the miss path without touching the end() iterator, and put() must store the given key/value on every normal path; tests of the "
        "number of entries are evaluated over the classes none / one / several (the list and the index hold one element per entry); the key or iterator "
        "handed to a list / index operation must not be read from an object that was moved from earlier on the path (decided on the code as written). "
        "SplayTree: the result of every splay() on a root must be stored back on all paths, must not be "
        "dereferenced where the tree may be null, deleting all nodes must null the owner, a child link may only be overwritten when saved or known "
        "empty, allocation/deallocation pair with size_ (erase(key) frees and reports `removed` exactly where splay_erase returned a node), the search "
        "orientation is consistent (one round of the splay loop is evaluated on symbolic "
        "nodes: every comparison and every step of the search position must lie on the side the comparison at the parent node allows), and the "
        "key-equality decision after a splay is exact (SPLAY-FOUND: decision table over {tree empty, cmp(k,root), cmp(root,k)} with the pointer values "
        "of the root followed symbolically: splay_erase unlinks and returns the root, exists returns true, a set's insert refuses, exactly in the row in "
        "which the tree is not empty and neither comparison holds). LRU order and BST order over histories are not decided.")
    types = ["int"] if ck.tier == "quick" else ["int", "std::string"]
    for t in types:
        tu = ir.extract("witness/C17_lru_splay.cpp", defines=["WITNESS_K=" + t])
        cache = {}

        def raw_tu(tu=tu, t=t, cache=cache):
            """the same translation unit without the normaliser's rewrites (extracted only when a rule asks for it)"""
            if "tu" not in cache:
                if not getattr(tu, "normalized", 0) and not getattr(tu, "inlined_away", None):
                    cache["tu"] = tu
                else:
                    old = os.environ.get("VERIF_NO_NORMALIZE")
                    os.environ["VERIF_NO_NORMALIZE"] = "1"
                    try:
                        cache["tu"] = ir.extract("witness/C17_lru_splay.cpp", defines=["WITNESS_K=" + t])
                    finally:
                        if old is None:
                            del os.environ["VERIF_NO_NORMALIZE"]
                        else:
                            os.environ["VERIF_NO_NORMALIZE"] = old
            return cache["tu"]
        check_lru(ck, tu, raw_tu)
        ck.guarded(lambda tu=tu: check_splay(ck, tu))
    m = len(types)
    ck.floor("LRU-COUPLED", 14 * m)
    ck.floor("LRU-THROW-GUARD", 6 * m)
    ck.floor("LRU-PUT-STORES", 2 * m)
    ck.floor("SPLAY-WRITEBACK", 4 * m)
    ck.floor("SPLAY-NULL", 3 * m)
    ck.floor("SPLAY-OWNER", 1 * m)
    ck.floor("SPLAY-LINK", 10 * m)
    ck.floor("SPLAY-ORIENT", 2 * m)
    ck.floor("SPLAY-ALLOC-PAIR", 3 * m)
    ck.floor("SPLAY-FOUND", 6 * m)
