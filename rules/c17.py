"""C17 — LRU caches (list/map coupling, end roles, throw guards, stored value) and
SplayTree (owner not dangling, null contradiction, root write-back, link overwrite,
allocation pairing, search orientation).

Verdict policy of this file: a violation is reported only with positive evidence - a path (valuation of the atoms) on which the
recognised effects contradict the rule, in a closed world where every operation on the guarded state (list_/map_, root_, size_,
the child links) has been recognised and classified.  A shape that is merely not recognised raises dtable.Undecidable."""
import collections
import copy

from engine import ir, dtable, match, cfg as cfgm, normalize
from engine.ir import kids, strip_casts, const_int, ref_of

LS = "tlx::LruCacheSet"
LM = "tlx::LruCacheMap"
ST = "tlx::SplayTree"

CASTS = ("ImplicitCastExpr", "CStyleCastExpr", "CXXStaticCastExpr", "CXXFunctionalCastExpr", "CXXReinterpretCastExpr", "CXXConstCastExpr")
WRAP = ("ParenExpr", "MaterializeTemporaryExpr", "CXXBindTemporaryExpr", "ExprWithCleanups")
ASSIGN_OPS = ("=", "+=", "-=", "*=", "/=", "%=", "|=", "&=", "^=", ">>=", "<<=")


def peel(e):
    """through casts, single-argument converting constructions and value wrappers"""
    e = match.strip_conv(e)
    while e is not None and kids(e) and e["k"] in WRAP:
        e = match.strip_conv(kids(e)[0])
    return e


def is_null(e):
    e = strip_casts(e)
    return e is not None and (e["k"] in ("NullPtr", "CXXNullPtrLiteralExpr", "GNUNullExpr") or const_int(e) == 0)


def post_order(e):
    """nodes of an expression, operands before the operation (evaluation order of nested calls); lambdas are not entered"""
    out = []

    def rec(n):
        if n is None:
            return
        if n["k"] != "LambdaExpr":
            for c in kids(n):
                rec(c)
        out.append(n)
    rec(e)
    return out


def path_roots(lf):
    """the expressions evaluated for their effect on one path, in order: initialisers, expression statements, returned value
    (conditions are evaluated by the decision table itself)"""
    for ev in lf["events"]:
        if ev[0] == "decl":
            if kids(ev[1]) and kids(ev[1])[0] is not None:
                yield ("decl", kids(ev[1])[0], ev[1])
        elif ev[0] == "expr":
            yield ("expr", ev[1], None)
        elif ev[0] == "loop":
            yield ("loop", ev[1], None)
    st = lf["stop"]
    if st[0] == "return" and st[1] and st[1][0] is not None:
        yield ("ret", st[1][0], None)


def opaque_atomize(special=None):
    """atomize for decision tables over code whose conditions need not be understood: `special` recognises the atoms the rule
    cares about, connectives / constants / bool locals are left to the table, every other condition is an opaque atom named
    by its printed form (the same condition tested twice has one value)"""
    def atomize(n, run):
        if special is not None:
            r = special(n, run)
            if r is not None:
                return r
        k = n["k"]
        if match.binop(n, ("==", "!=")) is None and k == "UnaryOperator" and n.get("op") == "!":
            return None
        if k == "BinaryOperator" and n.get("op") in ("&&", "||", ","):
            return None
        if k in ("ConditionalOperator", "CXXBoolLiteralExpr") or const_int(n) is not None:
            return None
        if k in CASTS and kids(n) and n.get("cast") in ("IntegralToBoolean", "PointerToBoolean", "NoOp", "IntegralCast", "LValueToRValue"):
            return None
        if k == "DeclRefExpr" and (n["ref"]["id"] in run.env or ((n.get("ty") or "").replace("const ", "") == "bool"
                                                                 and n["ref"].get("kind") in ("local", "param"))):
            return None
        return ("c:" + dtable.describe(strip_casts(n)), False)
    return atomize


def ret_as_if(s, only=None):
    """statement tree in which `return <bool expr>;` reads `if (<expr>) return; else return;` so that the decision table
    evaluates the short-circuit structure of the returned condition (expression nodes are shared, not copied);
    `only`: predicate selecting the returned expressions to treat like this"""
    if s is None:
        return None
    k = s["k"]
    if k == "ReturnStmt" and kids(s) and kids(s)[0] is not None and (kids(s)[0].get("ty") or "").replace("const ", "") == "bool" \
            and const_int(kids(s)[0]) is None and (only is None or only(kids(s)[0])):
        r = {"k": "ReturnStmt", "id": s["id"], "l": s.get("l"), "ch": []}
        return {"k": "IfStmt", "id": -s["id"] - 1, "l": s.get("l"), "ch": [kids(s)[0], r, dict(r)]}
    if k == "CompoundStmt":
        out = dict(s)
        out["ch"] = [ret_as_if(c, only) for c in kids(s)]
        return out
    if k == "IfStmt":
        out = dict(s)
        out["ch"] = [kids(s)[0]] + [ret_as_if(c, only) for c in kids(s)[1:]]
        if isinstance(s.get("condvar"), dict):
            # if (T v = init) ...  ->  { T v = init; if (v) ... }
            del out["condvar"]
            decl = {"k": "DeclStmt", "id": -s["id"] - 2, "l": s.get("l"), "ch": [s["condvar"]]}
            return {"k": "CompoundStmt", "id": -s["id"] - 3, "l": s.get("l"), "ch": [decl, out]}
        return out
    if k == "LabelStmt":
        out = dict(s)
        out["ch"] = [ret_as_if(c, only) for c in kids(s)]
        return out
    return s


# ------------------------------------------------------------------ LRU
LIST_PURE = ("begin", "end", "cbegin", "cend", "rbegin", "rend", "crbegin", "crend", "size", "empty", "front", "back", "max_size", "get_allocator")
MAP_PURE = ("end", "begin", "cend", "cbegin", "size", "empty", "count", "contains", "max_size", "bucket_count", "load_factor", "bucket", "hash_function",
            "key_eq", "get_allocator")
LIST_MUT = ("list.push_front", "list.push_back", "list.splice", "list.erase", "list.pop_back", "list.pop_front", "list.clear")
LIST_ITER_ROLES = ("begin", "end", "last", "front-node", "found-node", "stale-begin")

# functions that only read the arguments they take by (forwarding) reference
VALUE_CALLS = ("make_pair", "make_tuple", "forward_as_tuple", "tie", "prev", "next", "distance", "move", "forward", "addressof", "as_const", "min", "max")

Ev = collections.namedtuple("Ev", "kind detail src")


def obj_call(e):
    """(field, name, call) if e is a member function / member operator call on this->list_ or this->map_"""
    if e is None or "callee" not in e or not kids(e):
        return None
    if not (e.get("member_call") or e["k"] == "CXXOperatorCallExpr"):
        return None
    f = match.this_field(kids(e)[0])
    if f not in ("list_", "map_"):
        return None
    return f, e["callee"]["name"], e


def is_sibling_call(n):
    """a call of a member function on this object (implicit or explicit this)"""
    return n is not None and "callee" in n and n.get("member_call") and n["k"] != "CXXOperatorCallExpr" and kids(n) \
        and strip_casts(kids(n)[0]) is not None and strip_casts(kids(n)[0])["k"] == "This"


def touches_state(fn, root):
    """does the subtree mention list_ / map_, call a non-const member of this object or hand out this?"""
    for z in ir.walk(root):
        if z["k"] == "MemberExpr" and z.get("member") in ("list_", "map_"):
            return True
        if is_sibling_call(z) and not z["callee"].get("const"):
            return True
        if z["k"] == "LambdaExpr":
            lam = fn.tu.by_did.get(z.get("fn"))
            if lam is None or lam.body is None or touches_state(fn, lam.body) or any(y["k"] == "This" for y in ir.walk(lam.body)):
                return True
    return False


def conditional_state_use(fn, e):
    """an operand of ?: / && / || that is not always evaluated works on the list / the map"""
    for z in ir.walk(e):
        if z["k"] == "ConditionalOperator" or (z["k"] == "BinaryOperator" and z.get("op") in ("&&", "||")):
            if any(touches_state(fn, c) for c in kids(z)[1:]):
                return z
    return None


class _Siblings(normalize.Rewriter):
    """inlines calls of the other non-const member functions of the same object, so that a mutator written in terms of its
    siblings (get_touch = touch + get) is judged by the effects it has"""

    def novel_callee(self, c):
        if not is_sibling_call(c):
            return None
        cal = self.tu.by_did.get(c["callee"].get("did"))
        if cal is None or cal.body is None or cal.did == self.fn.did or cal.record != self.fn.record or cal.d.get("const") \
                or cal.kind in ("ctor", "dtor", "lambda"):
            return None
        if any(y["k"] in ("CXXTryStmt", "GotoStmt", "LabelStmt") for y in ir.walk(cal.body)):
            return None
        return cal


def with_siblings_inlined(fn):
    if not any(is_sibling_call(y) and not y["callee"].get("const") for y in ir.walk(fn.body)):
        return fn.body
    rw = _Siblings(fn.tu, fn)
    body = copy.deepcopy(fn.body)
    try:
        for _ in range(3):
            rw.changed = False
            body["ch"] = rw.expand_list(kids(body))
            if not rw.changed:
                break
    except Exception:       # whatever cannot be inlined stays a call: lru_events then refuses to judge the path
        return fn.body
    return body


def lru_events(fn, lf):
    """classify the effects on one path: every use of list_ / map_ anywhere in the executed expressions and initialisers, in
    evaluation order.  Closed world: a member function that is not modelled, the container handed to something else, a loop
    or a lambda working on it, a call of a non-const sibling or a store through one of its iterators make the path
    undecidable - `absent` then really means absent.
    -> [Ev(kind, detail, src)]; iterators are described by their role: begin | end | last | front-node (returned by the front
    insertion) | found-node (find(key)->second) | stale-begin (begin() taken before a front insertion) | mapit | ?"""
    out = []
    key = fn.params[0]["did"] if fn.params else None
    val = fn.params[1]["did"] if len(fn.params) > 1 else None
    env = {}          # iterator locals: did -> (role, number of events before it was taken)
    inits = {}        # locals with an initialiser on this path: did -> initialiser
    opaque = set()    # locals that are written after their declaration or handed out by non-const reference

    def und(what):
        raise dtable.Undecidable("%s: %s" % (fn.loc, what))

    for kind, root, _ in path_roots(lf):
        for y in ir.walk(root):
            w = match.unop(y, ("++", "--")) or (match.binop(y, ASSIGN_OPS) if y["k"] in ("BinaryOperator", "CompoundAssignOperator", "CXXOperatorCallExpr") else None)
            if w:
                r = normalize.lvalue_root(w[1])
                if isinstance(r, int):
                    opaque.add(r)
            if "callee" in y and y["k"] not in ("CXXOperatorCallExpr", "CXXConstructExpr", "CXXTemporaryObjectExpr") and y["callee"]["name"] not in VALUE_CALLS:
                for a in kids(y)[(1 if y.get("member_call") else 0):]:
                    if a is not None and a["k"] == "DeclRefExpr" and "const" not in (a.get("ty") or ""):
                        opaque.add(a["ref"]["id"])

    def role_of(e):
        e = peel(e)
        if e is None:
            return "?"
        oc = obj_call(e)
        if oc:
            f, name, c = oc
            if f == "list_":
                if name in ("begin", "cbegin"):
                    return "begin"
                if name in ("end", "cend"):
                    return "end"
                if name in ("insert", "emplace") and len(kids(c)) > 1 and role_of(kids(c)[1]) == "begin":
                    return "front-node"
            elif name == "find":
                return "mapit"
            return "?"
        d = ref_of(e)
        if d is not None:
            if d not in env:
                return "?"
            r, at = env[d]
            if r == "begin":
                mut = [x.kind for x in out[at:] if x.kind in LIST_MUT]
                if mut:
                    return "stale-begin" if all(k == "list.push_front" for k in mut) else "?"
            return r
        f = match.field_of(e)
        if f and f[1] == "second":
            return "found-node" if node_of(f[0]) == "mapit" else "?"
        if "callee" in e and e["callee"]["name"] == "prev":
            args = [a for a in kids(e) if a is not None and a["k"] != "DefaultArg"]
            if len(args) == 1 or (len(args) == 2 and const_int(args[1]) == 1):
                return "last" if role_of(args[0]) == "end" else "?"
        u = match.unop(e, ("--",))
        if u and not u[2] and role_of(u[1]) == "end":
            return "last"
        return "?"

    def node_of(base):
        """role of the iterator i in i->f / (*i).f"""
        b = peel(base)
        if b is None:
            return "?"
        if "callee" in b and b.get("op") == "->" and kids(b):
            return role_of(kids(b)[0])
        if match.deref_of(b) is not None:
            return role_of(match.deref_of(b))
        return "?"

    def stored_detail(args):
        """which parameters reach the stored element, through never-reassigned locals: key / key+value / "" (+ "?" when a local
        of unknown content is involved)"""
        seen, unknown = set(), False
        work = list(args)
        while work:
            a = work.pop()
            for z in ir.walk(a):
                if z["k"] != "DeclRefExpr":
                    continue
                d = z["ref"]["id"]
                if d in seen:
                    continue
                seen.add(d)
                if d in inits:
                    if d in opaque:
                        unknown = True
                    work.append(inits[d])
                elif fn.param_index(d) is None and z["ref"].get("kind") == "local":
                    unknown = True
        return ("key" if key in seen else "") + ("+value" if val is not None and val in seen else "") + ("?" if unknown else "")

    def iter_detail(args):
        """role of the list iterator stored in a new index entry"""
        for a in args:
            for z in ir.walk(a):
                oc = obj_call(z)
                if oc and oc[0] == "list_" and oc[1] in ("begin", "cbegin", "end", "cend", "rbegin", "insert", "emplace"):
                    return role_of(z)
                if z["k"] == "DeclRefExpr" and z["ref"]["id"] in env and role_of(z) in LIST_ITER_ROLES:
                    return role_of(z)
        return "?"

    def handle_call(oc, par):
        f, name, c = oc
        args = [a for a in kids(c)[1:] if a is not None and a["k"] != "DefaultArg"]
        if f == "list_":
            if name in LIST_PURE:
                return
            if name in ("insert", "emplace"):
                pos = role_of(args[0]) if args else "?"
                if pos not in ("begin", "end"):
                    und("list_.%s at a position that is not begin()/end()" % name)
                name = "push_front" if pos == "begin" else "push_back"
                args = args[1:]
            name = {"emplace_front": "push_front", "emplace_back": "push_back"}.get(name, name)
            if name in ("push_front", "push_back"):
                out.append(Ev("list." + name, stored_detail(args), None))
            elif name == "splice":
                if len(args) != 3:
                    und("list_.splice of a whole list / a range is not modelled")
                out.append(Ev("list.splice", role_of(args[0]), role_of(args[2])))
            elif name == "erase" and len(args) == 2:
                if role_of(args[0]) == "begin" and role_of(args[1]) == "end":
                    out.append(Ev("list.clear", None, None))
                else:
                    und("list_.erase of a range that is not [begin(), end())")
            elif name == "erase" and len(args) == 1:
                out.append(Ev("list.erase", role_of(args[0]), None))
            elif name in ("pop_back", "pop_front", "clear") and not args:
                out.append(Ev("list." + name, None, None))
            else:
                und("list_.%s() is not modelled" % name)
        else:
            if name in MAP_PURE:
                return
            if name == "find":
                out.append(Ev("map.find", None, None))
            elif name == "at":
                out.append(Ev("map.at", None, None))
            elif name == "operator[]":
                b = match.binop(par, ("=",)) if par is not None else None
                if b and strip_casts(b[1]) is c:
                    out.append(Ev("map.insert", iter_detail([b[2]]), "assign"))
                else:
                    out.append(Ev("map.index", None, None))
            elif name in ("insert", "emplace", "insert_or_assign", "emplace_hint", "try_emplace"):
                out.append(Ev("map.insert", iter_detail(args), "assign" if name == "insert_or_assign" else None))
            elif name == "erase" and len(args) == 2:
                both = [obj_call(peel(a)) for a in args]
                if both[0] and both[1] and both[0][0] == "map_" and both[1][0] == "map_" and both[0][1] in ("begin", "cbegin") and both[1][1] in ("end", "cend"):
                    out.append(Ev("map.clear", None, None))
                else:
                    und("map_.erase of a range that is not [begin(), end())")
            elif name == "erase" and len(args) == 1:
                a = peel(args[0])
                if "iterator" in ((a or {}).get("ty") or "").lower():
                    out.append(Ev("map.erase", "it" if role_of(a) == "mapit" else "it?", None))
                else:
                    out.append(Ev("map.erase", "key", None))
            elif name == "clear" and not args:
                out.append(Ev("map.clear", None, None))
            else:
                und("map_.%s() is not modelled" % name)

    def scan(e):
        z = conditional_state_use(fn, e)
        if z is not None:
            und("the list / the map is used in a conditionally evaluated operand (line %s)" % z.get("l"))

        def rec(n, par):
            if n is None:
                return
            if n["k"] == "LambdaExpr":
                if touches_state(fn, n):
                    und("a lambda works on the list / the map")
                return
            nxt = par if n["k"] in CASTS or n["k"] in WRAP else n
            for c in kids(n):
                rec(c, nxt)
            if n["k"] == "MemberExpr" and match.this_field(n) in ("list_", "map_"):
                ok = False
                if par is not None and "callee" in par and kids(par):
                    if strip_casts(kids(par)[0]) is n and (par.get("member_call") or par["k"] == "CXXOperatorCallExpr"):
                        ok = True
                    else:
                        po = obj_call(par)
                        ok = bool(po) and po[0] == "list_" and po[1] == "splice" and match.this_field(n) == "list_"
                if not ok:
                    und("%s is handed to something that is not modelled (line %s)" % (match.this_field(n), n.get("l")))
            oc = obj_call(n)
            if oc:
                handle_call(oc, par)
            elif "callee" in n:
                if is_sibling_call(n) and not n["callee"].get("const"):
                    und("calls %s() whose effect on the list / the map is not modelled here" % n["callee"]["name"])
                if n["k"] not in ("CXXOperatorCallExpr", "CXXConstructExpr", "CXXTemporaryObjectExpr") and n["callee"]["name"] not in VALUE_CALLS:
                    for a in kids(n):
                        if a is not None and a["k"] == "This":
                            und("this is handed to %s()" % n["callee"]["name"])
                        if a is not None and a["k"] == "DeclRefExpr" and a["ref"]["id"] in env:
                            env[a["ref"]["id"]] = ("?", len(out))
        rec(e, None)

    for kind, root, v in path_roots(lf):
        if kind == "loop":
            if touches_state(fn, root):
                und("a loop works on the list / the map (line %s)" % root.get("l"))
            continue
        scan(root)
        if kind == "decl":
            inits[v["did"]] = root
            r = role_of(root)
            if r != "?" or "iterator" in (v.get("ty") or "").lower():
                env[v["did"]] = (r, len(out))
            continue
        if kind != "expr":
            continue
        e = strip_casts(root)
        u = match.unop(e, ("--", "++"))
        if u and ref_of(u[1]) in env:
            env[ref_of(u[1])] = ("?", len(out))
        elif u and ref_of(u[1]) is None and (normalize.lvalue_root(u[1]) in env or touches_state(fn, u[1])):
            und("an element of the list / the map is modified in place (line %s)" % e.get("l"))
        b = match.binop(e, ASSIGN_OPS)
        if b:
            d = ref_of(b[1])
            if d is not None and d in env:
                env[d] = (role_of(b[2]) if b[0] == "=" else "?", len(out))
            elif d is None:
                root_l = normalize.lvalue_root(b[1])
                oc = obj_call(strip_casts(b[1]))
                if touches_state(fn, b[1]) and not (oc and oc[0] == "map_" and oc[1] == "operator[]" and b[0] == "="):
                    und("a store into the list / the map that is not modelled (line %s)" % e.get("l"))
                if isinstance(root_l, int) and root_l in env:
                    f = match.field_of(b[1])
                    if b[0] == "=" and f and f[1] == "second" and node_of(f[0]) == "found-node":
                        # it->second->second = ...: the value of the found list node
                        det = stored_detail([b[2]])
                        out.append(Ev("value.assign" if "+value" in det else "value.other", det, None))
                    else:
                        und("a store through an iterator of the list / the map is not modelled (line %s)" % e.get("l"))
    stop = lf["stop"]
    if stop[0] == "throw":
        out.append(Ev("throw", None, None))
    return out


def pop_roles(fn, lf):
    """which node pop() removes and which it reads on one path, by the role of the iterator involved:
    -> (removed roles, read roles); a role is "last", "begin", "end" or "?" """
    roles = {}

    def lcall(e, names):
        e = peel(e)
        c = match.call_named(e, names) if e is not None and "callee" in e else None
        if c is not None and c.get("member_call") and match.this_field(kids(c)[0]) == "list_":
            return c
        return None

    def role(e):
        e = peel(e)
        if e is None:
            return "?"
        if lcall(e, ("end", "cend")):
            return "end"
        if lcall(e, ("begin", "cbegin")):
            return "begin"
        d = ref_of(e)
        if d is not None:
            return roles.get(d, "?")
        if "callee" in e and e["callee"]["name"] == "prev" and kids(e):
            args = [a for a in kids(e) if a is not None and a["k"] != "DefaultArg"]
            if len(args) == 1 or (len(args) == 2 and const_int(args[1]) == 1):
                return "last" if role(args[0]) == "end" else "?"
        u = match.unop(e, ("--",))
        if u and not u[2]:
            return "last" if role(u[1]) == "end" else "?"
        return "?"
    removed, read = [], []

    def scan_reads(e):
        for z in ir.walk(e):
            d_ = match.deref_of(z) if z["k"] in ("UnaryOperator", "CXXOperatorCallExpr") else None
            if d_ is not None:
                read.append("last" if lcall(d_, ("rbegin", "crbegin")) else role(d_))
            f = match.field_of(z) if z["k"] == "MemberExpr" else None
            if f and z.get("arrow"):
                b = peel(f[0])
                if b is not None and "callee" in b and b.get("op") == "->" and kids(b):
                    b = peel(kids(b)[0])
                if ref_of(b) in roles:
                    read.append(roles[ref_of(b)])
                elif lcall(b, ("rbegin", "crbegin")):
                    read.append("last")
                elif lcall(b, ("begin", "cbegin", "end", "cend")):
                    read.append(role(b))
            if lcall(z, ("back",)):
                read.append("last")
            if lcall(z, ("front",)):
                read.append("begin")

    def handed_out(e):
        """an iterator local handed to a function by reference is no longer what it was (std::advance(it, -1) is understood)"""
        for z in ir.walk(e):
            if "callee" not in z or z["k"] in ("CXXOperatorCallExpr", "CXXConstructExpr", "CXXTemporaryObjectExpr") or z["callee"]["name"] in VALUE_CALLS:
                continue
            for a in kids(z)[(1 if z.get("member_call") else 0):]:
                if a is not None and a["k"] == "DeclRefExpr" and a["ref"]["id"] in roles:
                    d = a["ref"]["id"]
                    args = [q for q in kids(z) if q is not None and q["k"] != "DefaultArg"]
                    if z["callee"]["name"] == "advance" and len(args) == 2 and args[0] is a and const_int(args[1]) == -1:
                        roles[d] = "last" if roles[d] == "end" else "?"
                    else:
                        roles[d] = "?"
    for kind, root, v in path_roots(lf):
        if kind == "loop":
            continue
        if kind == "decl":
            handed_out(root)
            if "iterator" in (v.get("ty") or "").lower():
                roles[v["did"]] = role(root)
            else:
                scan_reads(root)
            continue
        if kind == "ret":
            scan_reads(root)
            continue
        e = strip_casts(root)
        u = match.unop(e, ("--", "++"))
        if u and ref_of(u[1]) in roles:
            roles[ref_of(u[1])] = "last" if (u[0] == "--" and roles[ref_of(u[1])] == "end") else "?"
            continue
        handed_out(e)
        c = lcall(e, ("pop_back",))
        if c:
            removed.append("last")
            continue
        c = lcall(e, ("pop_front",))
        if c:
            removed.append("begin")
            continue
        c = lcall(e, ("erase",))
        if c:
            removed.append(role(kids(c)[1]) if len(kids(c)) == 2 else "?")
            continue
        b = match.binop(e, ("=",))
        if b and ref_of(b[1]) in roles:
            roles[ref_of(b[1])] = role(b[2])
            continue
        scan_reads(e)
    return removed, read


def lru_atomize(fn):
    """atoms: `found` = the lookup of the key parameter hit (it != map_.end(), map_.count(key), ...); `already-front` = the found
    node is list_.begin(); size()/empty() tests are auxiliary atoms"""
    key = fn.params[0]["did"] if fn.params else None

    def on(e, field, names):
        e = peel(e)
        oc = obj_call(e)
        return e if oc and oc[0] == field and oc[1] in names and oc[2].get("member_call") else None

    def resolve(e, run):
        e = peel(e)
        d = ref_of(e)
        if d is not None and d not in run.clobbered and isinstance(run.env.get(d), dict):
            return peel(run.env[d])
        return e

    def is_lookup(e, run, names=("find",)):
        c = on(resolve(e, run), "map_", names)
        if c is None:
            return False
        args = [a for a in kids(c)[1:] if a is not None]
        return key is None or (len(args) == 1 and ref_of(peel(args[0])) == key)

    def is_found_node(e, run):
        e = resolve(e, run)
        f = match.field_of(e)
        if not f or f[1] != "second":
            return False
        b = peel(f[0])
        if b is not None and "callee" in b and b.get("op") == "->" and kids(b):
            return is_lookup(kids(b)[0], run)
        if b is not None and match.deref_of(b) is not None:
            return is_lookup(match.deref_of(b), run)
        return False

    def atomize(n, run):
        b = match.binop(n, ("==", "!="))
        if b:
            for x, y in ((b[1], b[2]), (b[2], b[1])):
                if on(x, "map_", ("end", "cend")) is not None:
                    return ("found", b[0] == "==") if is_lookup(y, run) else None
                if on(x, "list_", ("begin", "cbegin")) is not None:
                    return ("already-front", b[0] == "!=") if is_found_node(y, run) else None
        if is_lookup(n, run, ("count", "contains")):
            return ("found", False)
        b = match.binop(n, ("==", "!=", ">", "<", ">=", "<="))
        if b:
            for x, y, op in ((b[1], b[2], b[0]), (b[2], b[1], {"<": ">", ">": "<", "<=": ">=", ">=": "<="}.get(b[0], b[0]))):
                if is_lookup(x, run, ("count",)) and const_int(y) is not None:
                    if (op, const_int(y)) in (("==", 0), ("<", 1), ("<=", 0)):
                        return ("found", True)
                    if (op, const_int(y)) in (("!=", 0), (">", 0), (">=", 1), ("==", 1)):
                        return ("found", False)
        def fill_level(e):
            c = match.call_named(peel(e), ("size", "empty"))
            return c is not None and "callee" in peel(e) and not [a for a in kids(c)[1:] if a is not None]
        if fill_level(n):
            return ("aux:" + dtable.describe(n), False)
        b = match.binop(n, ("==", "!=", ">", "<", ">=", "<="))
        if b and ((fill_level(b[1]) and const_int(b[2]) is not None) or (fill_level(b[2]) and const_int(b[1]) is not None)):
            return ("aux:" + dtable.describe(strip_casts(n)), False)
        return None
    return atomize


MUTATORS = ("put", "touch", "touch_if_exists", "erase", "erase_if_exists", "get", "get_touch", "pop", "clear")


def check_lru_fn(ck, rec, fn):
    is_map = rec == LM
    body = ret_as_if(with_siblings_inlined(fn), only=lambda e: conditional_state_use(fn, e) is not None)
    leaves = dtable.explore(body, lru_atomize(fn), fn)
    tag = "%s::%s" % (rec.split("::")[-1], fn.name)
    bad = False
    atoms = list(dict.fromkeys(["found"] + dtable.atoms_of(leaves)))

    def und(what):
        raise dtable.Undecidable("%s: %s" % (fn.loc, what))

    def violation(lf, rule, sig, msg):
        aux = [k for k in lf["val"] if k.startswith("aux:")]
        if aux:
            # the path is taken under a fill-level condition whose meaning for the rule is not known (it may make the path
            # infeasible or the missing effect unnecessary)
            und("%s: %s - but only under the condition %s, which is not understood" % (rule, msg, dtable.fmt_val({k: lf["val"][k] for k in aux})))
        ck.violation(rule, fn.qname, sig, msg, fn.loc)

    def judge(v_full, lf):
        """one path under one valuation -> True if a violation was reported"""
        bad = False
        found = v_full["found"]
        if fn.name in ("pop", "clear") and not found:
            return False
        front = lf["val"].get("already-front")
        evs = lru_events(fn, lf)
        kinds = [e.kind for e in evs]
        # ---- effects that have no meaning on this path
        if not found and ("map.index" in kinds or "map.at" in kinds):
            und("%s uses map_[key] / map_.at(key) on the miss path (inserts / throws inside the container)" % fn.name)
        if fn.name != "clear" and ("list.clear" in kinds or "map.clear" in kinds):
            und("%s clears the list / the map" % fn.name)
        if any(e.kind == "map.erase" and e.detail == "it?" for e in evs):
            und("%s erases the index entry at an iterator of unknown origin" % fn.name)
        for i, e in enumerate(evs):
            if e.kind == "map.insert" and e.src == "assign" and found and not any(q.kind == "map.erase" for q in evs[:i]):
                und("%s re-points the existing index entry (map_[key] = ... on the found path), which is not modelled" % fn.name)
        # ---- coupling
        le = sum(1 for k in kinds if k in ("list.erase", "list.pop_back", "list.pop_front"))
        me = sum(1 for e in evs if e.kind == "map.erase" and (e.detail == "it" or found))     # erase(key) on the miss path removes nothing
        if fn.name != "pop" and le != me:
            violation(lf, "LRU-COUPLED", "%s:erase:%s" % (fn.name, found),
                      "on the path found=%s the recency list erases %d node(s) but the index map erases %d entry(ies)" % (found, le, me))
            bad = True
        lp = sum(1 for k in kinds if k in ("list.push_front", "list.push_back"))
        mi = kinds.count("map.insert")
        if lp != mi:
            violation(lf, "LRU-COUPLED", "%s:insert:%s" % (fn.name, found),
                      "on the path found=%s %d list insertion(s) but %d index insertion(s)" % (found, lp, mi))
            bad = True
        if lp and mi:
            li = [i for i, k in enumerate(kinds) if k in ("list.push_front", "list.push_back")][0]
            mi_i = kinds.index("map.insert")
            if mi_i < li:
                if evs[mi_i].detail == "?":
                    und("the index entry is created before the list node with an iterator that is not understood")
                violation(lf, "LRU-COUPLED", fn.name + ":order", "the index entry is created before the list node it must point to")
                bad = True
        if fn.name == "pop":
            removed, read = pop_roles(fn, lf)
            if len(removed) != le:
                und("which node pop() removes is not understood (%d removal(s), roles %s)" % (le, removed))
            if not (le == 1 and me == 1):
                violation(lf, "LRU-COUPLED", "pop:pair", "pop() must remove exactly one list node and its index entry")
                bad = True
        if fn.name == "clear" and not ("list.clear" in kinds and "map.clear" in kinds):
            violation(lf, "LRU-COUPLED", "clear:both", "clear() must clear both the recency list and the index")
            bad = True
        # ---- end roles: MRU = front, eviction = back
        for e in evs:
            wrong = False
            if e.kind == "list.push_back" or (e.kind == "list.pop_front" and fn.name != "pop"):
                wrong = True
            elif e.kind == "list.splice" and e.detail != "begin":
                if e.detail == "?":
                    und("%s: the position list_.splice moves the node to is not understood" % fn.name)
                wrong = True
            elif e.kind == "map.insert" and lp and e.detail not in ("begin", "front-node"):
                if e.detail == "?":
                    und("%s: the list iterator stored in the new index entry is not understood" % fn.name)
                wrong = True
            if wrong:
                violation(lf, "LRU-ENDS", "%s:%s" % (fn.name, e.kind), "%s uses the wrong end of the recency list (most recent = front, evicted = back): %s %s"
                          % (fn.name, e.kind, e.detail or ""))
                bad = True
        if fn.name == "pop":
            if "?" in removed or "?" in read or not read:
                und("which node pop() reads / removes is not understood (removed %s, read %s)" % (removed, read))
            if any(r != "last" for r in removed):
                violation(lf, "LRU-ENDS", "pop:list.pop_front", "pop() removes the %s of the recency list (most recent = front, evicted = back)"
                          % ("front" if "begin" in removed else "end()"))
                bad = True
            elif any(r != "last" for r in read):
                violation(lf, "LRU-ENDS", "pop:last", "pop() does not read the last element of the recency list (--end())")
                bad = True
        if fn.name in ("touch", "touch_if_exists", "get_touch") and found and "list.splice" not in kinds and front is not True:
            violation(lf, "LRU-ENDS", fn.name + ":no-touch", "%s does not move the key to the front on the found path" % fn.name)
            bad = True
        # ---- exceptions
        throws = "throw" in kinds
        if fn.name in ("touch", "erase", "get", "get_touch"):
            if found is False and not throws:
                violation(lf, "LRU-THROW-GUARD", fn.name + ":miss", "%s on an absent key does not throw" % fn.name)
                bad = True
            if found and throws:
                violation(lf, "LRU-THROW-GUARD", fn.name + ":hit", "%s throws although the key is present" % fn.name)
                bad = True
        elif throws:
            violation(lf, "LRU-THROW-GUARD", fn.name + ":throws", "%s must not throw" % fn.name)
            bad = True
        if found is False:
            # the iterator returned by the failed lookup is end(): using it or the node it `points to` is the defect
            uses = [e for e in evs if (e.kind == "list.erase" and e.detail in ("found-node", "?")) or (e.kind == "map.erase" and e.detail == "it")
                    or (e.kind == "list.splice" and (e.src in ("found-node", "?") or e.detail == "found-node"))]
            if any("?" in (e.detail, e.src) for e in uses):
                und("%s: an iterator used on the miss path is not understood" % fn.name)
            if uses:
                violation(lf, "LRU-THROW-GUARD", fn.name + ":miss-deref", "the miss path uses the end() iterator")
                bad = True
        # ---- put stores the element
        if fn.name == "put" and not throws:
            pushes = [e for e in evs if e.kind == "list.push_front"]
            stored = any("key" in e.detail and (not is_map or "+value" in e.detail) for e in pushes) or ("value.assign" in kinds)
            # a set that finds the key has it stored already: moving the node to the front (or finding it there) is all put() owes
            moved_ok = (not is_map) and found and any(e.kind == "list.splice" and e.detail == "begin" and e.src == "found-node" for e in evs) \
                and not any(k in ("list.erase", "list.pop_back", "list.pop_front", "map.erase") for k in kinds)
            unchanged_ok = (not is_map) and front is True and not any(k.startswith("list.") or k.startswith("map.e") for k in kinds)
            if not (stored or moved_ok or unchanged_ok):
                if any("?" in e.detail for e in pushes) or any(e.kind == "value.other" and "?" in (e.detail or "") for e in evs):
                    und("put(): what is stored in the new list node is not understood")
                violation(lf, "LRU-PUT-STORES", "put:%s" % dtable.fmt_val(lf["val"]),
                          "put() has a path (%s) that returns without storing the given %s" % (dtable.fmt_val(lf["val"]), "value" if is_map else "key"))
                bad = True
        return bad

    pending = None
    for v_full, lf in dtable.table(leaves, None, atoms):
        try:
            bad = judge(v_full, lf) or bad
        except dtable.Undecidable as e:      # the other paths are still judged: what they violate is reported
            pending = pending or e
    if pending is not None:
        raise pending
    if not bad:
        ck.ok("LRU-COUPLED", tag, "%d paths: list and index change together" % len(leaves))
        ck.ok("LRU-ENDS", tag, "front = most recent, back = evicted", nontrivial=fn.name in ("put", "touch", "touch_if_exists", "get_touch", "pop"))
        if fn.name in ("touch", "erase", "get", "get_touch"):
            ck.ok("LRU-THROW-GUARD", tag, "throws exactly on the miss path, no iterator use there")
        if fn.name == "put":
            ck.ok("LRU-PUT-STORES", tag, "every normal path stores the given %s" % ("key and value" if is_map else "key"))


def check_lru(ck, tu):
    for rec in (LS, LM):
        for fn in tu.find(record=rec):
            if fn.name in MUTATORS:
                ck.guarded(lambda rec=rec, fn=fn: check_lru_fn(ck, rec, fn))


# ------------------------------------------------------------------ SplayTree
def is_root(e, fn):
    """root designators: this->root_ or a Tree*& parameter"""
    if match.this_field(e) == "root_":
        return "root_"
    r = ref_of(e)
    if r is not None:
        i = fn.param_index(r)
        if i is not None and fn.params[i]["ty"].endswith("*&"):
            return "param:" + fn.params[i]["name"]
    return None


def null_tests(fn):
    """list of (tested_expr_node, polarity_nonnull_in_then, ifstmt)"""
    out = []
    for x in ir.walk(fn.body):
        if x["k"] != "IfStmt":
            continue
        c = kids(x)[0]
        conj = []

        def flat(n):
            b = match.binop(n, ("&&",))
            if b and strip_casts(n)["k"] == "BinaryOperator":
                flat(b[1]); flat(b[2])
            else:
                conj.append(n)
        flat(c)
        for n in conj:
            b = match.binop(n, ("==", "!="))
            if b and (is_null(b[2]) or is_null(b[1])):
                e = b[1] if is_null(b[2]) else b[2]
                out.append((e, b[0] == "!=", x, len(conj) == 1))
            pt = match.ptr_truth(n)
            if pt is not None:
                out.append((pt, True, x, len(conj) == 1))
            u = match.unop(n, ("!",))
            if u and match.ptr_truth(u[1]) is not None:
                out.append((match.ptr_truth(u[1]), False, x, len(conj) == 1))
    return out


def guarded_nonnull(fn, g, expr, at_node):
    """is `expr` known non-null at at_node: inside then-branch of if (expr != nullptr), or after if (expr == nullptr) return/break"""
    pos = g.pos_deep(at_node)
    for e, nonnull_then, ifs, sole in null_tests(fn):
        if not match.same_expr(e, expr):
            continue
        t, el = kids(ifs)[1], kids(ifs)[2]
        if nonnull_then and t is not None and any(y is at_node for y in ir.walk(t)):
            return True
        if not nonnull_then and sole and t is not None:
            # then-branch leaves (return / break / continue) -> afterwards non-null
            leaves = any(y["k"] in ("ReturnStmt", "BreakStmt", "ContinueStmt") for y in ir.walk(t))
            pi = g.pos_deep(kids(ifs)[0])
            if leaves and pi and pos and g.dominates(pi, pos) and not any(y is at_node for y in ir.walk(t)):
                return True
            if el is not None and any(y is at_node for y in ir.walk(el)):
                return True
    return False


def and_guarded(fn, expr, node):
    """node sits in the right operand of `expr != nullptr && ...`"""
    n, par = node, fn.parent(node)
    while par is not None:
        if par["k"] == "BinaryOperator" and par.get("op") == "&&" and len(kids(par)) == 2:
            l, r = kids(par)
            if any(y is n for y in ir.walk(r)) or r is n:
                for c in ir.walk(l):
                    b = match.binop(c, ("!=",))
                    if b and is_null(b[2]) and match.same_expr(b[1], expr):
                        return True
                    pt = match.ptr_truth(c)
                    if pt is not None and match.same_expr(pt, expr):
                        return True
        n, par = par, fn.parent(par)
    return False


def by_ref_uses(fn, g, designates, skip=()):
    """positions at which an lvalue selected by `designates` is handed to a call by reference or has its address taken:
    writes the rules cannot see"""
    out = []
    for y in ir.walk(fn.body):
        hit = False
        if "callee" in y and y["k"] not in ("CXXOperatorCallExpr", "CXXConstructExpr", "CXXTemporaryObjectExpr") and not any(y is s for s in skip):
            hit = any(a is not None and a["k"] in ("MemberExpr", "DeclRefExpr") and designates(a) for a in kids(y)[(1 if y.get("member_call") else 0):])
        if y["k"] == "UnaryOperator" and y.get("op") == "&" and kids(y) and designates(kids(y)[0]):
            hit = True
        if hit:
            p = g.pos(y) or g.pos_deep(y)
            if p:
                out.append(p)
    return out


def null_eval(fn, x):
    """SPLAY-NULL by path evaluation (decision table over the null tests of the function): splay() returns null exactly for a
    null tree, so the result - and every copy of it - carries the nullness of the argument.  A dereference of the result is
    fine where that nullness has been tested `non-null` on the path.
    -> None if every dereference is covered, else (dereferencing node, valuation of the path) - a concrete path on which the
    tree may be empty when the result is dereferenced"""
    body = ret_as_if(fn.body)

    def und(what):
        raise dtable.Undecidable("%s: SPLAY-NULL: %s" % (fn.loc, what))

    def pkey(e):
        e = strip_casts(e)
        if e is None:
            return None
        if e["k"] == "DeclRefExpr":
            return ("v", e["ref"]["id"])
        if e["k"] == "MemberExpr" and kids(e):
            b = strip_casts(kids(e)[0])
            if b is not None and b["k"] == "This":
                return ("this", e["member"])
            p = pkey(b)
            return p + (e["member"],) if p is not None else None
        return None

    class St:
        def __init__(self):
            self.keys, self.n, self.kx, self.done, self.bad, self.opaque = {}, 0, None, 0, [], []

    def st(run):
        if not hasattr(run, "nst"):
            run.nst = St()
        return run.nst

    def fresh(s):
        s.n += 1
        return "p%d" % s.n

    def key_for(s, p):
        if p not in s.keys:
            s.keys[p] = fresh(s)
        return s.keys[p]

    def invalidate(s, lhs):
        p = pkey(lhs)
        if p is None:
            mentioned = {z["ref"]["id"] for z in ir.walk(lhs) if z["k"] == "DeclRefExpr"}
            for q in list(s.keys):
                if len(q) > 2 or (q[0] == "v" and q[1] in mentioned):
                    del s.keys[q]
        elif len(p) == 2:
            for q in list(s.keys):
                if q[:2] == p:
                    del s.keys[q]
        else:
            for q in list(s.keys):
                if len(q) > 2 and p[-1] in q[2:]:
                    del s.keys[q]

    def check_derefs(s, run, e):
        if s.kx is None or e is None:
            return

        def rec(n, guarded):
            if n is None or n["k"] == "LambdaExpr":
                return
            base = None
            if n["k"] == "MemberExpr" and n.get("arrow") and kids(n):
                base = kids(n)[0]
            elif n["k"] == "UnaryOperator" and n.get("op") == "*" and kids(n):
                base = kids(n)[0]
            if base is not None:
                p = pkey(base)
                k = s.keys.get(p) if p is not None else None
                if k is not None and k == s.kx and k != "NONNULL" and run.val.get(k) is not True:
                    if guarded:
                        und("a dereference of the splay() result inside a nested conditional expression (line %s)" % n.get("l"))
                    if not s.opaque:
                        s.opaque.extend(k_ for k_ in run.val if k_.startswith("flag:"))
                    if s.opaque:
                        # a condition the evaluation does not understand was passed on the way: it may imply a non-empty tree
                        und("whether `%s` guards the dereference at line %s is not understood" % (s.opaque[0], n.get("l")))
                    s.bad.append(n)
            g2 = guarded or n["k"] == "ConditionalOperator" or (n["k"] == "BinaryOperator" and n.get("op") in ("&&", "||"))
            for c in kids(n):
                rec(c, g2)
        rec(e, False)

    def value_key(s, run, rhs):
        r = strip_casts(rhs)
        if r is None:
            return fresh(s)
        if is_null(r):
            return "NULL"
        if r["k"] == "CXXNewExpr":
            return "NONNULL"
        if r is x or (r["k"] == "CallExpr" and match.call_named(r, ("splay",)) is not None and len(kids(r)) > 1):
            k = value_key(s, run, kids(r)[1])
            if r is x:
                s.kx = k
            return k
        if r["k"] == "BinaryOperator" and r.get("op") == "=":
            return do_assign(s, run, kids(r)[0], kids(r)[1])
        p = pkey(r)
        return key_for(s, p) if p is not None else fresh(s)

    def do_assign(s, run, lhs, rhs):
        check_derefs(s, run, rhs)
        check_derefs(s, run, lhs)
        k = value_key(s, run, rhs)
        side_effects(s, run, rhs, top_assign=True)
        invalidate(s, lhs)
        p = pkey(lhs)
        if p is not None:
            s.keys[p] = k
        return k

    def side_effects(s, run, e, top_assign=False):
        """writes the evaluation does not follow: forget what was known about their targets"""
        for y in ir.walk(e):
            if y["k"] == "LambdaExpr":
                continue
            if not top_assign:
                w = match.unop(y, ("++", "--")) or (match.binop(y, ASSIGN_OPS) if y["k"] in ("BinaryOperator", "CompoundAssignOperator") else None)
                if w:
                    invalidate(s, w[1])
            if "callee" in y and y["k"] in ("CallExpr", "CXXMemberCallExpr"):
                for a in kids(y)[(1 if y.get("member_call") else 0):]:
                    if a is not None and a["k"] in ("DeclRefExpr", "MemberExpr"):
                        invalidate(s, a)
                if is_sibling_call(y) and not y["callee"].get("const"):
                    for q in list(s.keys):
                        if q[0] == "this":
                            del s.keys[q]
                if y is x and s.kx is None:
                    s.kx = value_key(s, run, kids(y)[1])

    def process_expr(s, run, e):
        e0 = strip_casts(e)
        if e0 is None:
            return
        if e0["k"] == "BinaryOperator" and e0.get("op") == "=":
            do_assign(s, run, kids(e0)[0], kids(e0)[1])
            return
        check_derefs(s, run, e0)
        side_effects(s, run, e0)

    def catch_up(s, run):
        evs = run.events
        while s.done < len(evs):
            ev = evs[s.done]
            s.done += 1
            if ev[0] == "decl":
                v = ev[1]
                init = kids(v)[0] if kids(v) else None
                if init is None:
                    continue
                ty = (v.get("ty") or "").replace(" ", "")
                if ty.endswith("*&") or ty.endswith("*const&"):
                    und("a reference to a pointer (%s) is not followed" % v.get("name"))
                check_derefs(s, run, init)
                k = value_key(s, run, init)
                side_effects(s, run, init, top_assign=True)
                s.keys[("v", v["did"])] = k
            elif ev[0] == "expr":
                process_expr(s, run, ev[1])
            elif ev[0] == "loop":
                loop = ev[1]
                if s.kx is not None:
                    before = len(s.bad)
                    check_derefs(s, run, loop)
                    if len(s.bad) > before:
                        und("the splay() result is dereferenced inside a loop whose guards are not evaluated (line %s)" % loop.get("l"))
                if any(y is x for y in ir.walk(loop)):
                    und("splay() is called inside a loop")
                for y in ir.walk(loop):
                    w = match.unop(y, ("++", "--")) or (match.binop(y, ASSIGN_OPS) if y["k"] in ("BinaryOperator", "CompoundAssignOperator") else None)
                    if w:
                        invalidate(s, w[1])
                side_effects(s, run, loop)

    def special(n, run):
        s = st(run)
        catch_up(s, run)
        e, neg = None, False
        bb = match.binop(n, ("==", "!="))
        if bb:
            for l, r in ((bb[1], bb[2]), (bb[2], bb[1])):
                if is_null(r) and "*" in (strip_casts(l).get("ty") or ""):
                    e, neg = l, bb[0] == "=="
                    break
        if e is None and match.ptr_truth(n) is not None:
            e = match.ptr_truth(n)
        if e is not None:
            ee = strip_casts(e)
            if ee["k"] == "BinaryOperator" and ee.get("op") == "=":
                k = do_assign(s, run, kids(ee)[0], kids(ee)[1])
            else:
                check_derefs(s, run, ee)
                p = pkey(ee)
                k = key_for(s, p) if p is not None else None
            if k == "NULL":
                return neg
            if k == "NONNULL":
                return not neg
            if k is not None:
                return (k, neg)
        return None

    def atomize(n, run):
        r = generic(n, run)
        if isinstance(r, tuple) and r[0].startswith("c:"):
            s = st(run)
            check_derefs(s, run, n)
            side_effects(s, run, n)
            if match.functor_call(strip_casts(n)) is None:      # key comparisons say nothing about an empty tree
                s.opaque.append(r[0][2:])
        return r
    generic = opaque_atomize(special)
    leaves = dtable.explore(body, atomize, fn)
    activated = False
    for lf in leaves:
        s = st(lf["run"])
        catch_up(s, lf["run"])
        stp = lf["stop"]
        if stp[0] == "return" and stp[1] and stp[1][0] is not None:
            process_expr(s, lf["run"], stp[1][0])
        activated = activated or s.kx is not None
        if s.bad:
            return s.bad[0], lf["val"]
    if not activated:
        und("the splay() call is not on a path the evaluation follows")
    return None


def splay_calls(ck, fn, tag, x, g):
    """SPLAY-WRITEBACK and SPLAY-NULL at one splay() call"""
    arg = kids(x)[1]
    root = is_root(arg, fn)
    # where does the result go?
    dest = None
    p = fn.parent(x)
    while p is not None and (p["k"] in CASTS or p["k"] in WRAP):
        p = fn.parent(p)
    if p is not None:
        b = match.binop(p, ("=",))
        if b and strip_casts(b[2]) is x:
            dest = b[1]
        elif p["k"] == "VarDecl":
            dest = p
    if root:
        # the (possibly different) root returned by splay must be stored back on every path
        ok_wb = dest is not None and dest.get("k") != "VarDecl" and is_root(dest, fn) == root
        if not ok_wb:
            pc = g.pos_deep(x)
            if not pc:
                raise dtable.Undecidable("%s: SPLAY-WRITEBACK: the splay() call has no position in the control flow graph" % fn.nloc(x))
            asg = [y for y in ir.walk(fn.body) if match.binop(y, ("=",)) and is_root(match.binop(y, ("=",))[1], fn) == root]
            asg_pos = [q for q in ((g.pos(y) or g.pos_deep(y)) for y in asg) if q]
            if asg_pos and g.path_avoiding(pc, asg_pos) is None:
                ok_wb = True
            else:
                # a path on which no assignment to the root follows: evidence, unless the root can be written in a way this rule
                # does not see or the missing assignment is conditional on a comparison with the root itself
                hidden = by_ref_uses(fn, g, lambda a: is_root(a, fn) == root, skip=(x,))
                if hidden and g.path_avoiding(pc, asg_pos + hidden) is None:
                    raise dtable.Undecidable("%s: SPLAY-WRITEBACK: %s is handed out by reference after splay(); whether the new root is stored is not understood"
                                             % (fn.nloc(x), root))
                for y in ir.walk(fn.body):
                    c = match.binop(y, ("==", "!="))
                    if c and ((is_root(c[1], fn) == root and not is_null(c[2])) or (is_root(c[2], fn) == root and not is_null(c[1]))):
                        raise dtable.Undecidable("%s: SPLAY-WRITEBACK: the write-back of %s depends on a comparison with the old root" % (fn.nloc(y), root))
        if ok_wb:
            ck.ok("SPLAY-WRITEBACK", "%s @%s" % (tag, fn.nloc(x)), "result of splay(%s) is stored back into %s on every path" % (root, root))
        else:
            ck.violation("SPLAY-WRITEBACK", fn.qname, "%s:%s" % (fn.name, root),
                         "splay() restructures the tree below %s but there is a path on which the new root is not stored back: the nodes above the old root are lost"
                         % root, fn.nloc(x))
    # null contradiction: result dereferenced while the argument may be null
    if dest is not None:
        derefs = []
        for y in ir.walk(fn.body):
            if y["k"] == "MemberExpr" and y.get("arrow") and kids(y):
                base = kids(y)[0]
                same = (dest.get("k") == "VarDecl" and ref_of(base) == dest.get("did")) or \
                       (dest.get("k") != "VarDecl" and match.same_expr(base, dest))
                if same and g.pos_deep(y) and g.pos_deep(x) and g.reachable(g.pos_deep(x), g.pos_deep(y)):
                    derefs.append(y)
        if derefs:
            okn = guarded_nonnull(fn, g, arg, x)
            if not okn and dest.get("k") != "VarDecl":
                okn = all(guarded_nonnull(fn, g, dest, d) or and_guarded(fn, dest, d) for d in derefs)
            how = "only where the argument is known non-null"
            cex = None
            if not okn:
                # no guard of a known shape: decide by evaluating the paths
                cex = null_eval(fn, x)
                how = "only on paths on which the tree was tested non-empty (path evaluation)"
            if cex is None:
                ck.ok("SPLAY-NULL", "%s @%s" % (tag, fn.nloc(x)), "splay(%s) result is dereferenced %s" % (dtable.describe(arg), how))
            else:
                ck.violation("SPLAY-NULL", fn.qname, "%s:%s" % (fn.name, dtable.describe(arg)),
                             "splay() returns null for a null tree (the code itself treats %s as nullable elsewhere) but the result is dereferenced unguarded"
                             % dtable.describe(arg) + (" on the path %s" % dtable.fmt_val(cex[1]) if cex[1] else ""), fn.nloc(cex[0]))


def check_owner(ck, tu, fn, tag, x, c, g):
    """SPLAY-OWNER at one splay_traverse_postorder(delete...) call: afterwards root_ must not keep the freed tree"""
    targ = peel(kids(c)[1]) if len(kids(c)) > 1 else None
    pc = g.pos_deep(x)

    def und(what):
        raise dtable.Undecidable("%s: SPLAY-OWNER: %s" % (fn.nloc(x), what))
    if targ is None or not pc:
        und("the traversal call is not understood")
    all_asg = [y for y in ir.walk(fn.body) if match.binop(y, ("=",)) and match.this_field(match.binop(y, ("=",))[1]) == "root_"]
    null_asg = [y for y in all_asg if is_null(match.binop(y, ("=",))[2])]
    pos = lambda ys: [q for q in ((g.pos(y) or g.pos_deep(y)) for y in ys) if q]   # noqa: E731
    hidden = by_ref_uses(fn, g, lambda a: match.this_field(a) == "root_")
    ok = False
    if match.this_field(targ) == "root_":
        if null_asg and g.path_avoiding(pc, pos(null_asg)) is None:
            ok = True
        elif (all_asg or hidden) and g.path_avoiding(pc, pos(all_asg) + hidden) is None:
            und("root_ is rewritten after the deletion in a way that is not understood")
        # else: a path to the exit on which root_ is not written at all after its tree was freed
    elif "callee" in targ and targ["callee"]["name"] == "exchange" and len(kids(targ)) == 2 and match.this_field(kids(targ)[0]) == "root_" \
            and is_null(kids(targ)[1]):
        ok = True
    elif ref_of(targ) is not None:
        # the tree is deleted through a copy of the root taken before: root_ must have been reset in between
        decl = [y for y in ir.walk(fn.body) if y["k"] == "VarDecl" and y.get("did") == ref_of(targ) and kids(y) and kids(y)[0] is not None
                and match.this_field(kids(y)[0]) == "root_"]
        pd = g.pos_deep(decl[0]) if decl else None
        writes = pos(all_asg) + hidden
        if pd and len(all_asg) == len(null_asg) and not hidden and any(g.dominates(pd, q) and g.dominates(q, pc) for q in pos(null_asg)):
            ok = True
        elif pd and g.dominates(pd, pc) and null_asg and g.path_avoiding(pc, pos(null_asg)) is None and g.path_between_avoiding(pd, pc, writes) is not None:
            ok = True           # still the root when deleted, reset afterwards on every path
        elif pd and g.dominates(pd, pc) and g.path_between_avoiding(pd, pc, writes) is not None and g.path_avoiding(pc, writes) is not None:
            pass                # root_ is never written between the copy, the deletion and the exit: it keeps the freed tree
        else:
            und("the deleted tree %s is not understood as the (reset) root" % dtable.describe(targ))
    else:
        und("the deleted tree %s is not understood" % dtable.describe(targ))
    if ok:
        ck.ok("SPLAY-OWNER", tag, "root_ is reset after all nodes were deleted")
    else:
        ck.violation("SPLAY-OWNER", fn.qname, fn.name + ":root_", "all nodes are deleted but root_ keeps pointing to freed memory (reuse or destructor -> double free)", fn.nloc(x))


def check_links(ck, fn, g):
    """SPLAY-LINK: a child link may only be overwritten when saved before or known null"""
    reassigned = set()
    for y in ir.walk(fn.body):
        w = match.unop(y, ("++", "--")) or (match.binop(y, ASSIGN_OPS) if y["k"] in ("BinaryOperator", "CompoundAssignOperator") else None)
        if w and ref_of(w[1]) is not None:
            reassigned.add(ref_of(w[1]))

    def canon(d, depth=0):
        """a never-reassigned local that is a plain copy of a never-reassigned variable stands for that variable"""
        if d is None or d in reassigned or depth > 4:
            return d
        init = single_init(fn, d)
        src = ref_of(init) if init is not None and strip_casts(init)["k"] == "DeclRefExpr" else None
        if src is None or src in reassigned:
            return d
        return canon(src, depth + 1)

    def var_of(e):
        return canon(ref_of(e))

    def judge(x, tnode):
        base = kids(tnode)[0]
        bref = var_of(base)
        if bref is None:
            raise dtable.Undecidable("%s: SPLAY-LINK: the node whose %s link is overwritten (%s) is not a plain variable"
                                     % (fn.nloc(x), tnode["member"], dtable.describe(base)))
        # fresh node parameter (splay_insert's nn) or an earlier read of the same link or a null test
        fresh = fn.name == "splay_insert" and bref == fn.params[0]["did"]
        px = g.pos_deep(x)
        read_before = False
        foreign = None          # a read of the same link through an expression that is not a plain variable: may be the same node
        aliases = {bref}
        for y in ir.walk(fn.body):
            bb = match.binop(y, ("=",))
            if bb and var_of(bb[1]) == bref and strip_casts(bb[1])["k"] == "DeclRefExpr" and ref_of(bb[2]) is not None \
                    and strip_casts(bb[2])["k"] == "DeclRefExpr":
                aliases.add(var_of(bb[2]))
            if y["k"] == "VarDecl" and canon(y.get("did")) == bref and kids(y) and kids(y)[0] is not None and ref_of(kids(y)[0]) is not None:
                aliases.add(var_of(kids(y)[0]))
        for y in ir.walk(fn.body):
            if y is tnode or y["k"] != "MemberExpr" or y.get("member") != tnode["member"] or not kids(y):
                continue
            # is y read (not the lhs of an assignment)?
            par = fn.parent(y)
            is_lhs = par is not None and match.binop(par, ("=",)) and strip_casts(match.binop(par, ("=",))[1]) is y
            py = g.pos_deep(y)
            if ref_of(kids(y)[0]) is None:
                if not is_lhs and py and px and (g.reachable(py, px) or py == px):
                    foreign = y
                continue
            if var_of(kids(y)[0]) not in aliases:
                continue
            if not is_lhs and py and px and (g.reachable(py, px) or py == px or var_of(kids(y)[0]) != bref):
                read_before = True
        nulltest = guarded_null(fn, g, tnode, x)
        if not (fresh or read_before or nulltest) and foreign is None and px:
            # the same link read through another variable that was copied from / to this one before the write
            may = {bref}
            copies = []
            for y in ir.walk(fn.body):
                bb = match.binop(y, ("=",))
                if bb and strip_casts(bb[1])["k"] == "DeclRefExpr" and strip_casts(bb[2])["k"] == "DeclRefExpr":
                    copies.append((var_of(bb[1]), var_of(bb[2]), g.pos_deep(y)))
                if y["k"] == "VarDecl" and kids(y) and kids(y)[0] is not None and strip_casts(kids(y)[0])["k"] == "DeclRefExpr":
                    copies.append((canon(y["did"]), var_of(kids(y)[0]), g.pos_deep(y)))
            grew = True
            while grew:
                grew = False
                for a_, b_, q in copies:
                    if q and (g.reachable(q, px)) and ((a_ in may) != (b_ in may)):
                        may |= {a_, b_}
                        grew = True
            for y in ir.walk(fn.body):
                if y is tnode or y["k"] != "MemberExpr" or y.get("member") != tnode["member"] or not kids(y):
                    continue
                par = fn.parent(y)
                is_lhs = par is not None and match.binop(par, ("=",)) and strip_casts(match.binop(par, ("=",))[1]) is y
                py = g.pos_deep(y)
                if not is_lhs and var_of(kids(y)[0]) in may - aliases and py and (g.reachable(py, px) or py == px):
                    foreign = y
        if not (fresh or read_before or nulltest):
            if foreign is not None:
                raise dtable.Undecidable("%s: SPLAY-LINK: whether %s (read at line %s) is the link %s->%s that is overwritten is not understood"
                                         % (fn.nloc(x), dtable.describe(foreign), foreign.get("l"), dtable.describe(base), tnode["member"]))
            ck.violation("SPLAY-LINK", fn.qname, "%s:%s->%s" % (fn.name, dtable.describe(base), tnode["member"]),
                         "%s->%s is overwritten although its old subtree was neither saved nor shown to be empty: with equivalent keys "
                         "(multiset) the overwritten subtree is non-empty and its nodes are lost" % (dtable.describe(base), tnode["member"]), fn.nloc(x))
        else:
            ck.ok("SPLAY-LINK", "%s %s->%s @%s" % (fn.name, dtable.describe(base), tnode["member"], fn.nloc(x)),
                  "fresh node" if fresh else "old link read before" if read_before else "link known null", nontrivial=False)

    for x in ir.walk(fn.body):
        b = match.binop(x, ("=",))
        if not b:
            continue
        lhs = strip_casts(b[1])
        targets = []
        if lhs["k"] == "MemberExpr" and lhs.get("member") in ("left", "right") and lhs.get("arrow"):
            targets = [lhs]
        elif lhs["k"] == "ConditionalOperator":
            targets = [strip_casts(k_) for k_ in kids(lhs)[1:] if strip_casts(k_)["k"] == "MemberExpr"]
        for tnode in targets:
            ck.guarded(lambda: judge(x, tnode))


def size_effects(fn, root, what):
    """net change of size_ by the expression; a write to size_ of another form is not understood"""
    delta = 0
    for y in ir.walk(root):
        if y["k"] == "LambdaExpr":
            continue
        fd = match.field_delta(y, "size_")
        if fd:
            amount = 1 if fd[1] == 1 else const_int(fd[1])
            if amount is None:
                raise dtable.Undecidable("%s: SPLAY-ALLOC-PAIR: size_ changes by an amount that is not a constant (line %s)" % (fn.loc, y.get("l")))
            delta += amount if fd[0] == "+" else -amount
            continue
        w = match.unop(y, ("++", "--")) or (match.binop(y, ASSIGN_OPS) if y["k"] in ("BinaryOperator", "CompoundAssignOperator", "CXXOperatorCallExpr") else None)
        if w and match.this_field(w[1]) == "size_":
            raise dtable.Undecidable("%s: SPLAY-ALLOC-PAIR: size_ is written in a form that is not understood (line %s)" % (fn.loc, y.get("l")))
        if "callee" in y and y["k"] not in ("CXXOperatorCallExpr", "CXXConstructExpr", "CXXTemporaryObjectExpr"):
            if any(a is not None and a["k"] == "MemberExpr" and match.this_field(a) == "size_" for a in kids(y)[(1 if y.get("member_call") else 0):]):
                raise dtable.Undecidable("%s: SPLAY-ALLOC-PAIR: size_ is handed to %s() by reference" % (fn.loc, y["callee"]["name"]))
    return delta


def foreign_calls(fn, root, known):
    """calls whose effect on the nodes / on size_ the rule does not know: other non-const members of this tree and tlx functions
    that are not in `known`"""
    out = []
    for y in ir.walk(root):
        if y["k"] == "LambdaExpr":
            out.append("a lambda")
        if "callee" not in y or y["k"] in ("CXXOperatorCallExpr", "CXXConstructExpr", "CXXTemporaryObjectExpr", "CXXNewExpr"):
            continue
        nm = y["callee"]["name"]
        if nm in known or nm.startswith("~"):
            continue
        if is_sibling_call(y):
            if not y["callee"].get("const"):
                out.append(nm + "()")
        elif not y.get("member_call") and (y["callee"].get("qname") or "").startswith("tlx::"):
            out.append(nm + "()")
    return out


def check_alloc_insert(ck, fn, tag):
    """insert: on every path the number of nodes allocated equals the change of size_"""
    leaves = dtable.explore(ret_as_if(fn.body, only=lambda e: False), opaque_atomize(), fn)
    seen_alloc = False
    bad = None
    for lf in leaves:
        allocs = delta = 0
        foreign = []
        for kind, root, _ in path_roots(lf):
            hits = [y for y in ir.walk(root) if ("callee" in y and y["callee"]["name"] == "allocate" and y["k"] != "CXXNewExpr")
                    or (y["k"] == "CXXNewExpr" and not y.get("placement"))]
            if kind == "loop" and (hits or size_effects(fn, root, "loop")):
                raise dtable.Undecidable("%s: SPLAY-ALLOC-PAIR: allocation / size_ inside a loop (line %s)" % (fn.loc, root.get("l")))
            allocs += len(hits)
            delta += size_effects(fn, root, kind)
            foreign += foreign_calls(fn, root, ("splay", "splay_insert", "allocate", "construct"))
        seen_alloc = seen_alloc or allocs > 0
        if allocs != delta and bad is None:
            if foreign:
                raise dtable.Undecidable("%s: SPLAY-ALLOC-PAIR: insert() calls %s, whose effect on the nodes / on size_ is not known" % (fn.loc, foreign[0]))
            bad = (lf["val"], allocs, delta)
    if bad is None and not seen_alloc:
        raise dtable.Undecidable("%s: SPLAY-ALLOC-PAIR: no node allocation found in insert()" % fn.loc)
    if bad is None:
        ck.ok("SPLAY-ALLOC-PAIR", tag, "one node allocated <-> size_++ on the same paths (%d paths)" % len(leaves))
    else:
        ck.violation("SPLAY-ALLOC-PAIR", fn.qname, "insert", "node allocation and size_++ are not on the same paths (path %s: %d node(s) allocated, size_ changes by %d)"
                     % (dtable.fmt_val(bad[0]) or "-", bad[1], bad[2]), fn.loc)


def check_alloc_delete(ck, fn, tag):
    """delete_node: on every path destroy, then deallocate, and size_ goes down by one"""
    leaves = dtable.explore(ret_as_if(fn.body, only=lambda e: False), opaque_atomize(), fn)
    bad = None
    for lf in leaves:
        seq = []
        delta = 0
        foreign = []
        for kind, root, _ in path_roots(lf):
            if kind == "loop":
                raise dtable.Undecidable("%s: SPLAY-ALLOC-PAIR: a loop in delete_node (line %s)" % (fn.loc, root.get("l")))
            for y in post_order(root):
                if y["k"] == "CXXDeleteExpr":
                    seq += ["dtor", "dealloc"]
                elif "callee" in y and (y["callee"]["name"].startswith("~") or y["callee"]["name"] in ("destroy", "destroy_at")):
                    seq.append("dtor")
                elif "callee" in y and y["callee"]["name"] == "deallocate":
                    seq.append("dealloc")
            delta += size_effects(fn, root, kind)
            foreign += foreign_calls(fn, root, ("destroy", "destroy_at", "deallocate"))
        if not seq and not delta and lf["val"]:
            raise dtable.Undecidable("%s: SPLAY-ALLOC-PAIR: delete_node has a path (%s) without any effect" % (fn.loc, dtable.fmt_val(lf["val"])))
        why = None
        if "dtor" in seq and "dealloc" in seq and seq.index("dealloc") < seq.index("dtor"):
            why = "deallocates before it destroys"
        elif seq.count("dtor") != 1 or seq.count("dealloc") != 1 or delta != -1:
            if foreign:
                raise dtable.Undecidable("%s: SPLAY-ALLOC-PAIR: delete_node calls %s, whose effect is not known" % (fn.loc, foreign[0]))
            why = "got %s, size_ changes by %d" % (seq, delta)
        if why and bad is None:
            bad = why
    if bad is None:
        ck.ok("SPLAY-ALLOC-PAIR", tag, "destroy, deallocate, size_--")
    else:
        ck.violation("SPLAY-ALLOC-PAIR", fn.qname, "delete_node", "delete_node must destroy, deallocate and decrement size_ (%s)" % bad, fn.loc)


def check_alloc_erase(ck, fn, tag):
    """erase(key): the node unlinked by splay_erase is freed exactly on the paths on which it is non-null"""
    holders = [y for y in ir.walk(fn.body) if y["k"] == "VarDecl" and kids(y) and kids(y)[0] is not None and "callee" in (peel(kids(y)[0]) or {})
               and match.call_named(peel(kids(y)[0]), ("splay_erase",)) is not None]
    calls = [y for y in ir.walk(fn.body) if "callee" in y and y["callee"]["name"] == "splay_erase"]
    if len(holders) != 1 or len(calls) != 1:
        raise dtable.Undecidable("%s: SPLAY-ALLOC-PAIR: the result of splay_erase is not held in one local variable" % fn.loc)
    o = holders[0]["did"]

    def special(n, run):
        pt = match.ptr_truth(n)
        if pt is not None and ref_of(pt) == o:
            return ("non-null", False)
        b = match.binop(n, ("==", "!="))
        if b:
            for l, r in ((b[1], b[2]), (b[2], b[1])):
                if ref_of(l) == o and is_null(r):
                    return ("non-null", b[0] == "==")
        return None
    leaves = dtable.explore(ret_as_if(fn.body), opaque_atomize(special), fn)
    bad = None
    judged = 0
    for lf in leaves:
        if not any(ev[0] == "decl" and ev[1].get("did") == o for ev in lf["events"]):
            continue
        frees = 0
        for kind, root, v in path_roots(lf):
            for y in ir.walk(root):
                if "callee" in y and y["callee"]["name"] == "delete_node":
                    if kind == "loop" or ref_of(kids(y)[-1]) != o:
                        raise dtable.Undecidable("%s: SPLAY-ALLOC-PAIR: a delete_node call that is not understood (line %s)" % (fn.loc, y.get("l")))
                    frees += 1
                elif y["k"] == "DeclRefExpr" and y["ref"]["id"] == o:
                    par, to_bool = fn.parent(y), False
                    while par is not None and (par["k"] in CASTS or par["k"] in WRAP):
                        to_bool = to_bool or par.get("cast") == "PointerToBoolean"
                        par = fn.parent(par)
                    if par is not None and "callee" in par and par["callee"]["name"] == "delete_node":
                        continue
                    if to_bool or (par is not None and match.binop(par, ("==", "!="))):
                        continue
                    raise dtable.Undecidable("%s: SPLAY-ALLOC-PAIR: the unlinked node is used in a way that is not understood (line %s)" % (fn.loc, y.get("l")))
        nn = lf["val"].get("non-null")
        why = None
        if frees > 1:
            why = "frees the unlinked node %d times" % frees
        elif frees == 1 and nn is not True:
            why = "frees the result of splay_erase where it %s" % ("is null" if nn is False else "was not tested (null when the key is absent)")
        elif frees == 0 and nn is not False:
            why = "does not free the unlinked node where it %s" % ("is non-null" if nn else "was not tested")
        if why and any(k_ != "non-null" for k_ in lf["val"]):
            raise dtable.Undecidable("%s: SPLAY-ALLOC-PAIR: erase() %s, under conditions that are not understood (%s)" % (fn.loc, why, dtable.fmt_val(lf["val"])))
        if why and bad is None:
            bad = (lf["val"], why)
        judged += 1
    if not judged:
        raise dtable.Undecidable("%s: SPLAY-ALLOC-PAIR: no path through the declaration of the splay_erase result was evaluated" % fn.loc)
    if bad is None:
        ck.ok("SPLAY-ALLOC-PAIR", tag, "the node unlinked by splay_erase is freed exactly on the found path")
    else:
        ck.violation("SPLAY-ALLOC-PAIR", fn.qname, "erase", "the node returned by splay_erase is not freed exactly when it is non-null (path %s: %s)"
                     % (dtable.fmt_val(bad[0]) or "-", bad[1]), fn.loc)


def check_splay(ck, tu):
    fns = [f for f in tu.functions if f.record == ST or (f.qname.startswith("tlx::splay") and f.record is None)]
    ck.require(fns, "SplayTree not instantiated")
    seen = set()
    for fn in fns:
        key = (fn.qname, tuple(fn.rtargs), tuple(fn.targs), len(fn.params))
        tag = fn.full.split("(")[0][-70:]
        cfgs = {}

        def g_of(fn=fn, cfgs=cfgs):
            if "g" not in cfgs:
                cfgs["g"] = cfgm.CFG(fn)
            return cfgs["g"]
        # ---- SPLAY-NULL + SPLAY-WRITEBACK at every splay() call
        for x in ir.walk(fn.body):
            c = match.call_named(x, ("splay",)) if "callee" in x and x["k"] == "CallExpr" else None
            if c is not None:
                ck.guarded(lambda x=x: splay_calls(ck, fn, tag, x, g_of()))
        # ---- SPLAY-OWNER: deleting all nodes must null the root
        for x in ir.walk(fn.body):
            c = match.call_named(x, ("splay_traverse_postorder",)) if "callee" in x else None
            if c is None or fn.record != ST:
                continue
            deletes = False
            for l in [y for y in ir.walk(c) if y["k"] == "LambdaExpr"]:
                lf = tu.by_did.get(l.get("fn"))
                if lf is not None and any(match.call_named(z, ("delete_node",)) for z in ir.walk(lf.body) if "callee" in z):
                    deletes = True
            if deletes:
                ck.guarded(lambda x=x, c=c: check_owner(ck, tu, fn, tag, x, c, g_of()))
        # ---- SPLAY-LINK: a child link may only be overwritten when saved before or known null
        if fn.record is None and fn.name in ("splay", "splay_insert", "splay_erase"):
            ck.guarded(lambda: check_links(ck, fn, g_of()))
        # ---- SPLAY-ORIENT
        if fn.record is None and fn.name == "splay" and key not in seen:
            ck.guarded(lambda: check_orient(ck, fn))
        if fn.record is None and fn.name == "splay_insert" and key not in seen:
            ck.guarded(lambda: check_insert_orient(ck, fn))
        # ---- allocation pairing
        if fn.record == ST and fn.name == "insert":
            ck.guarded(lambda: check_alloc_insert(ck, fn, tag))
        if fn.record == ST and fn.name == "delete_node":
            ck.guarded(lambda: check_alloc_delete(ck, fn, tag))
        if fn.record == ST and fn.name == "erase" and fn.params and not fn.params[0]["ty"].endswith("*"):
            ck.guarded(lambda: check_alloc_erase(ck, fn, tag))
        seen.add(key)


def guarded_null(fn, g, link, at_node):
    """link (p->left/right) known null at at_node: enclosing if (p->link == nullptr) or loop exit while (p->link != nullptr)"""
    for e, nonnull_then, ifs, sole in null_tests(fn):
        if match.same_expr(e, link) and not nonnull_then and kids(ifs)[1] is not None and any(y is at_node for y in ir.walk(kids(ifs)[1])):
            return True
    for l in match.loops_in(fn.body):
        init, cond, inc, body = match.loop_parts(l)
        if cond is None:
            continue
        b = match.binop(cond, ("!=",))
        e = None
        if b and is_null(b[2]):
            e = b[1]
        elif match.ptr_truth(cond) is not None:
            e = match.ptr_truth(cond)
        if e is not None and match.same_expr(e, link):
            pl, pa = g.pos_deep(cond), g.pos_deep(at_node)
            if pl and pa and g.dominates(pl, pa) and not any(y is at_node for y in ir.walk(body)):
                # no assignment to the base between loop exit and use (approximation: base not assigned in straight line after the loop)
                return True
    return False


def single_init(fn, did):
    """initialiser of a local that is declared once with an initialiser and never written afterwards, else None"""
    decls = [y for y in ir.walk(fn.body) if y["k"] == "VarDecl" and y.get("did") == did]
    if len(decls) != 1 or not kids(decls[0]) or kids(decls[0])[0] is None:
        return None
    for y in ir.walk(fn.body):
        w = match.unop(y, ("++", "--")) or (match.binop(y, ASSIGN_OPS) if y["k"] in ("BinaryOperator", "CompoundAssignOperator", "CXXOperatorCallExpr") else None)
        if w and normalize.lvalue_root(w[1]) == did and ref_of(w[1]) == did:
            return None
    return kids(decls[0])[0]


def check_orient(ck, fn):
    k, t = fn.params[0]["did"], fn.params[1]["did"]
    loop = [l for l in match.loops_in(fn.body)]
    ck.require(loop, "%s: splay loop not found" % fn.loc)
    body = match.loop_parts(loop[0])[3]
    top = [s for s in kids(body) if s["k"] == "IfStmt"]
    ck.require(top, "%s: splay decision not found" % fn.loc)
    bad = False
    n = 0

    def resolved(e, depth=0):
        """e with never-reassigned locals replaced by what they were initialised with (for reading off key / left / right)"""
        e0 = strip_casts(e)
        d = ref_of(e0)
        if d is not None and d not in (k, t) and depth < 4:
            init = single_init(fn, d)
            if init is not None:
                return resolved(init, depth + 1)
        return e0

    def chain_fields(e, depth=0):
        """the left/right member names along the access path of e, locals resolved; None if the path is not understood"""
        e0 = resolved(e)
        if e0 is None or depth > 6:
            return None
        if e0["k"] == "DeclRefExpr":
            return [] if e0["ref"]["id"] == t else None
        if e0["k"] == "MemberExpr" and kids(e0):
            inner = chain_fields(kids(e0)[0], depth + 1)
            if inner is None:
                return None
            return inner + ([e0["member"]] if e0["member"] in ("left", "right") else [])
        return None

    def side_of(cond):
        fc = match.functor_call(cond)
        if not fc or len(fc[1]) != 2:
            return None
        a, b = fc[1]

        def role(e):
            e = resolved(e)
            if ref_of(e) == k:
                return "k"
            f = match.field_of(e)
            if f and f[1] == "key":
                return "node"
            return None
        r = (role(a), role(b))
        return "left" if r == ("k", "node") else "right" if r == ("node", "k") else None
    node = top[0]
    while node is not None and node["k"] == "IfStmt":
        side = side_of(kids(node)[0])
        if side is None:
            break
        n += 1
        then = kids(node)[1]
        other = "right" if side == "left" else "left"
        where = "%s: SPLAY-ORIENT: " % fn.nloc(node)
        descents = [match.binop(y, ("=",)) for y in kids(then) if y and match.binop(y, ("=",)) and ref_of(match.binop(y, ("=",))[1]) == t]
        if not descents:
            raise dtable.Undecidable(where + "where the search continues on the %s side is not found" % side)
        f = match.field_of(resolved(descents[-1][2]))
        if not f or f[1] not in ("left", "right"):
            raise dtable.Undecidable(where + "the step `%s` is not a descent into a child" % dtable.describe(descents[-1][2]))
        wrong = f[1] == other
        # zig-zig test compares with the child on the same side
        inner = [y for y in kids(then) if y and y["k"] == "IfStmt" and match.functor_call(kids(y)[0])]
        for y in inner:
            fc = match.functor_call(kids(y)[0])
            s2 = side_of(kids(y)[0])
            names = None
            for a in fc[1]:
                fa = match.field_of(resolved(a))
                if fa and fa[1] == "key":
                    names = chain_fields(fa[0])
            if s2 is None or names is None or len(names) != 1:
                raise dtable.Undecidable(where + "the zig-zig comparison %s is not understood" % dtable.describe(kids(y)[0]))
            if s2 != side or names != [side]:
                wrong = True
        if wrong:
            ck.violation("SPLAY-ORIENT", fn.qname, "splay:" + side,
                         "when the key is %s than the node the search must continue into the %s subtree" % ("smaller" if side == "left" else "larger", side), fn.nloc(node))
            bad = True
        node = kids(node)[2]
    ck.require(n == 2, "%s: expected two oriented comparisons in splay, found %d" % (fn.loc, n))
    if not bad:
        ck.ok("SPLAY-ORIENT", "splay<%s>" % (fn.targs[0] if fn.targs else ""), "cmp(k,node) -> left, cmp(node,k) -> right, zig-zig on the same side")


def check_insert_orient(ck, fn):
    """splay_insert: on every path (tree empty | new key strictly smaller | strictly larger) the links at the end are the ones of
    a root insertion: decision table over {t is null, cmp(new, root), cmp(root, new)}, the assignments of each path are
    executed on symbolic values (null, t, nn, the links t had on entry)"""
    nn, t = fn.params[0]["did"], fn.params[1]["did"]

    def owner(e):
        f = match.field_of(e)
        return ref_of(f[0]) if f and f[1] == "key" else None

    def atomize(n, run):
        n0 = strip_casts(n)
        pt = match.ptr_truth(n) or (match.ptr_truth(n0) if n0 is not n else None)
        if pt is not None and ref_of(pt) == t:
            return ("null", True)
        bb = match.binop(n0, ("==", "!="))
        if bb:
            for l, r in ((bb[1], bb[2]), (bb[2], bb[1])):
                if ref_of(l) == t and is_null(r):
                    return ("null", bb[0] == "!=")
        fc = match.functor_call(n0)
        if fc and len(fc[1]) == 2:
            o = (owner(fc[1][0]), owner(fc[1][1]))
            if o == (nn, t):
                return ("new<root", False)
            if o == (t, nn):
                return ("root<new", False)
            raise dtable.Undecidable("%s: comparison operands not understood: %s" % (fn.loc, dtable.describe(n0)))
        return None
    leaves = dtable.explore(ret_as_if(fn.body, only=lambda e: False), atomize, fn)

    def und(what):
        raise dtable.Undecidable("%s: SPLAY-ORIENT: splay_insert: %s" % (fn.loc, what))

    def final_state(lf):
        """-> (links at the end {(node, side): value}, returned value)"""
        store, env = {}, {}

        def value(e):
            e = strip_casts(e)
            if e is None:
                return "?"
            if is_null(e):
                return "null"
            d = ref_of(e)
            if d is not None:
                return "nn" if d == nn else "t" if d == t else env.get(d, "?")
            if e["k"] == "BinaryOperator" and e.get("op") == "=":
                v = value(kids(e)[1])
                assign(kids(e)[0], v)
                return v
            f = match.field_of(e)
            if f and f[1] in ("left", "right"):
                b = value(f[0])
                if b in ("nn", "t"):
                    return store.get((b, f[1]), "%s->%s" % (b, f[1]))
            return "?"

        def assign(lhs, v):
            d = ref_of(lhs)
            if d is not None:
                if d in (nn, t):
                    und("a parameter is reassigned (line %s)" % lhs.get("l"))
                env[d] = v
                return
            f = match.field_of(lhs)
            b = value(f[0]) if f else "?"
            if not f or b not in ("nn", "t"):
                und("a store to %s is not understood" % dtable.describe(lhs))
            store[(b, f[1])] = v
        for kind, root, v in path_roots(lf):
            if kind == "loop":
                und("a loop")
            if kind == "ret":
                continue
            if kind == "decl":
                if (v.get("ty") or "").rstrip().endswith("&"):
                    und("a reference local (%s)" % v.get("name"))
                env[v["did"]] = value(root)
                continue
            e = strip_casts(root)
            if e["k"] == "BinaryOperator" and e.get("op") == "=":
                value(e)
            elif any(match.unop(y, ("++", "--")) or (match.binop(y, ASSIGN_OPS) and y["k"] in ("BinaryOperator", "CompoundAssignOperator"))
                     or ("callee" in y and y["k"] in ("CallExpr", "CXXMemberCallExpr")) for y in ir.walk(e)):
                und("the statement at line %s is not understood" % e.get("l"))
        st = lf["stop"]
        ret = value(st[1][0]) if st[0] == "return" and st[1] and st[1][0] is not None else None
        return store, ret
    want_empty = {("nn", "left"): "null", ("nn", "right"): "null"}
    want_small = {("nn", "left"): "t->left", ("nn", "right"): "t", ("t", "left"): "null", ("t", "right"): "t->right"}
    want_large = {("nn", "right"): "t->right", ("nn", "left"): "t", ("t", "right"): "null", ("t", "left"): "t->left"}
    atoms = dtable.atoms_of(leaves)
    if "null" not in atoms or not ({"new<root", "root<new"} & set(atoms)):
        raise dtable.Undecidable("%s: splay_insert decision not found" % fn.loc)
    bad = None
    for v, lf in dtable.table(leaves, lambda v_: not (v_.get("new<root") and v_.get("root<new")), atoms):
        store, ret = final_state(lf)
        if ret == "?" or "?" in store.values():
            und("a value on the path %s is not understood (%s)" % (dtable.fmt_val(lf["val"]), sorted(store.items())))
        if ret != "nn":
            bad = bad or (v, "does not return the new node")
            continue
        got = {(o, s): store.get((o, s), "%s->%s" % (o, s)) for o in ("nn", "t") for s in ("left", "right")}
        if v["null"]:
            if {q: got[q] for q in want_empty} != want_empty:
                bad = bad or (v, "inserting into an empty tree must null both links of the new node")
        elif v.get("new<root"):
            if got != want_small:
                bad = bad or (v, "new key smaller: the old root must become the right child and hand over its left subtree")
        elif v.get("root<new"):
            if got != want_large:
                bad = bad or (v, "new key larger: the old root must become the left child and hand over its right subtree")
        else:
            if got not in (want_small, want_large):
                bad = bad or (v, "equivalent keys: the old root must become a child of the new node")
    if bad:
        ck.violation("SPLAY-ORIENT", fn.qname, "splay_insert", "the new root is linked on the wrong side of the old root (%s): %s" % (dtable.fmt_val(bad[0]), bad[1]), fn.loc)
    else:
        ck.ok("SPLAY-ORIENT", "splay_insert", "new key smaller: old root becomes right child (and hands over its left subtree); otherwise mirrored")


def run(ck):
    ck.explanation = (
        "LRU caches: every mutator is split into its paths over the atoms `found` (lookup hit) and `already-front`; per path the effects on the "
        "recency list and the index map are extracted and must change together, use front as the most-recent end and back as the eviction end, throw "
        "exactly on the miss path without touching the end() iterator, and put() must store the given key/value on every normal path; Set and Map "
        "siblings must have the same effect skeleton. SplayTree: the result of every splay() on a root must be stored back on all paths, must not be "
        "dereferenced where the tree may be null, deleting all nodes must null the owner, a child link may only be overwritten when saved or known "
        "empty, allocation/deallocation pair with size_, and the search orientation is consistent. LRU order and BST order over histories are not decided.")
    types = ["int"] if ck.tier == "quick" else ["int", "std::string"]
    for t in types:
        tu = ir.extract("witness/C17_lru_splay.cpp", defines=["WITNESS_K=" + t])
        check_lru(ck, tu)
        ck.guarded(lambda tu=tu: check_splay(ck, tu))
    m = len(types)
    ck.floor("LRU-COUPLED", 14 * m)
    ck.floor("LRU-THROW-GUARD", 6 * m)
    ck.floor("LRU-PUT-STORES", 2 * m)
    ck.floor("SPLAY-WRITEBACK", 4 * m)
    ck.floor("SPLAY-NULL", 3 * m)
    ck.floor("SPLAY-OWNER", 1 * m)
    ck.floor("SPLAY-LINK", 10 * m)
    ck.floor("SPLAY-ORIENT", 2 * m)
    ck.floor("SPLAY-ALLOC-PAIR", 3 * m)
