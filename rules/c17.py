"""C17 — LRU caches (list/map coupling, end roles, throw guards, stored value) and
SplayTree (owner not dangling, null contradiction, root write-back, link overwrite,
allocation pairing, search orientation)."""
from engine import ir, dtable, match, cfg as cfgm
from engine.ir import kids, strip_casts, const_int, ref_of

LS = "tlx::LruCacheSet"
LM = "tlx::LruCacheMap"
ST = "tlx::SplayTree"


# ------------------------------------------------------------------ LRU
LIST_PURE = ("begin", "end", "cbegin", "cend", "rbegin", "rend", "size", "empty", "front", "back", "max_size")
MAP_PURE = ("find", "end", "begin", "cend", "cbegin", "size", "empty", "count", "at", "max_size", "bucket_count", "load_factor")


def lru_events(fn, lf):
    """classify the effects on one path: every call on list_ / map_ anywhere in the executed expressions and
    initialisers, in evaluation order; a member function of the list or the map that is not modelled makes the path
    undecidable (closed world: `absent` then really means absent)"""
    out = []
    key = fn.params[0]["did"] if fn.params else None
    val = fn.params[1]["did"] if len(fn.params) > 1 else None
    front_its = set()        # iterator locals known to denote the node just put at the front

    def calls_in_order(e):
        # children before parents = evaluation order of nested calls
        res = []

        def rec(n):
            if n is None or n["k"] == "LambdaExpr":
                return
            for c in kids(n):
                rec(c)
            if "callee" in n and n.get("member_call") and kids(n):
                f = match.this_field(kids(n)[0])
                if f in ("list_", "map_"):
                    res.append((f, n))
        rec(e)
        return res

    def where_of(a):
        to = match.call_named(match.strip_conv(a), ("begin", "end", "cbegin", "cend"))
        if to is not None and "callee" in match.strip_conv(a) and match.this_field(kids(match.strip_conv(a))[0]) == "list_":
            return to["callee"]["name"].lstrip("c")
        return "?"

    def handle(e, decl=None):
        for f, c in calls_in_order(e):
            name = c["callee"]["name"]
            args = kids(c)[1:]
            if f == "list_":
                if name in LIST_PURE:
                    if name in ("end", "cend") and decl is not None and strip_casts(kids(decl)[0]) is c:
                        out.append(("list.end", decl["did"]))
                    continue
                detail = None
                if name in ("insert", "emplace") and args:
                    pos = where_of(args[0])
                    if pos == "?":
                        raise dtable.Undecidable("%s: list_.%s at a position that is not begin()/end()" % (fn.loc, name))
                    name = "push_front" if pos == "begin" else "push_back"
                    args = args[1:]
                    if decl is not None:
                        front_its.add(decl["did"])
                if name in ("push_front", "emplace_front", "push_back", "emplace_back"):
                    refs = [z["ref"]["id"] for a in args for z in ir.walk(a) if z["k"] == "DeclRefExpr"]
                    detail = ("key" if key in refs else "") + ("+value" if val is not None and val in refs else "")
                    if name == "emplace_back":
                        name = "push_back"
                elif name == "splice":
                    detail = where_of(args[0]) if args else "?"
                elif name not in ("erase", "pop_back", "pop_front", "clear", "swap"):
                    raise dtable.Undecidable("%s: list_.%s() is not modelled" % (fn.loc, name))
                out.append(("list." + name, detail))
            else:
                if name in MAP_PURE:
                    if name == "find":
                        out.append(("map.find", None))
                    continue
                detail = None
                if name in ("insert", "emplace", "insert_or_assign", "emplace_hint"):
                    lb = [z for a in args for z in ir.walk(a) if "callee" in z and z["callee"]["name"] in ("begin", "end", "rbegin", "cbegin")
                          and z.get("member_call") and match.this_field(kids(z)[0]) == "list_"]
                    its = [z for a in args for z in ir.walk(a) if z["k"] == "DeclRefExpr" and z["ref"]["id"] in front_its]
                    detail = lb[0]["callee"]["name"].lstrip("c") if lb else ("begin" if its else "?")
                    name = "insert"
                elif name not in ("erase", "clear", "swap", "operator[]"):
                    raise dtable.Undecidable("%s: map_.%s() is not modelled" % (fn.loc, name))
                out.append(("map." + name, detail))
    for ev in lf["events"]:
        if ev[0] == "decl":
            v = ev[1]
            if kids(v) and kids(v)[0] is not None:
                init = kids(v)[0]
                # an iterator local initialised with list_.begin() right after the front insertion denotes that node
                c0 = match.strip_conv(init)
                if "callee" in (c0 or {}) and c0.get("member_call") and match.this_field(kids(c0)[0]) == "list_" and c0["callee"]["name"] in ("begin", "cbegin") \
                        and any(a == "list.push_front" or a == "list.emplace_front" for a, _ in out):
                    front_its.add(v["did"])
                handle(init, v)
                if any(z["k"] == "UnaryOperator" and z.get("op") == "*" for z in ir.walk(init)) or \
                        any("callee" in z and z.get("op") == "*" for z in ir.walk(init)):
                    out.append(("read-last", None))
            continue
        if ev[0] != "expr":
            continue
        e = strip_casts(ev[1])
        handle(e)
        u = match.unop(e, ("--", "++"))
        if u and ref_of(u[1]) is not None:
            out.append(("iter" + u[0], ref_of(u[1])))
        b = match.binop(e, ("=",))
        if b and val is not None and ref_of(b[2]) == val:
            f = match.field_of(b[1])
            if f and f[1] == "second":
                out.append(("value.assign", None))
    stop = lf["stop"]
    if stop[0] == "throw":
        out.append(("throw", None))
    if stop[0] == "return" and stop[1] and stop[1][0] is not None:
        handle(stop[1][0])
    return out


def pop_roles(fn, lf):
    """which node pop() removes and which it reads on one path, by the role of the iterator involved:
    -> (removed roles, read roles); a role is "last", "begin", "end" or "?" """
    roles = {}

    def lcall(e, names):
        e = match.strip_conv(e)
        c = match.call_named(e, names) if e is not None and "callee" in e else None
        if c is not None and c.get("member_call") and match.this_field(kids(c)[0]) == "list_":
            return c
        return None

    def role(e):
        e = match.strip_conv(e)
        while e is not None and e["k"] in ("ParenExpr", "CXXConstructExpr", "MaterializeTemporaryExpr", "CXXBindTemporaryExpr", "ExprWithCleanups") and kids(e):
            e = match.strip_conv(kids(e)[0])
        if e is None:
            return "?"
        if lcall(e, ("end", "cend")):
            return "end"
        if lcall(e, ("begin", "cbegin")):
            return "begin"
        d = ref_of(e)
        if d is not None:
            return roles.get(d, "?")
        if "callee" in e and e["callee"]["name"] == "prev" and kids(e):
            args = [a for a in kids(e) if a is not None and a["k"] != "DefaultArg"]
            if len(args) == 1 or (len(args) == 2 and const_int(args[1]) == 1):
                return "last" if role(args[0]) == "end" else "?"
        u = match.unop(e, ("--",))
        if u and not u[2] if u and len(u) > 2 else False:
            return "last" if role(u[1]) == "end" else "?"
        return "?"
    removed, read = [], []

    def scan_reads(e):
        for z in ir.walk(e):
            d_ = match.deref_of(z) if z["k"] in ("UnaryOperator", "CXXOperatorCallExpr") else None
            if d_ is not None:
                read.append(role(d_))
            f = match.field_of(z) if z["k"] == "MemberExpr" else None
            if f and z.get("arrow") and ref_of(f[0]) in roles:
                read.append(roles[ref_of(f[0])])
            if lcall(z, ("back",)):
                read.append("last")
            if lcall(z, ("front",)):
                read.append("begin")
    for ev in lf["events"]:
        if ev[0] == "decl":
            v = ev[1]
            if kids(v) and kids(v)[0] is not None:
                ty = v.get("ty") or ""
                if "iterator" in ty.lower():
                    roles[v["did"]] = role(kids(v)[0])
                else:
                    scan_reads(kids(v)[0])
            continue
        if ev[0] != "expr":
            continue
        e = strip_casts(ev[1])
        u = match.unop(e, ("--", "++"))
        if u and ref_of(u[1]) in roles:
            roles[ref_of(u[1])] = "last" if (u[0] == "--" and roles[ref_of(u[1])] == "end") else "?"
            continue
        c = lcall(e, ("pop_back",))
        if c:
            removed.append("last")
            continue
        c = lcall(e, ("pop_front",))
        if c:
            removed.append("begin")
            continue
        c = lcall(e, ("erase",))
        if c:
            removed.append(role(kids(c)[1]) if len(kids(c)) == 2 else "?")
            continue
        b = match.binop(e, ("=",))
        if b and ref_of(b[1]) in roles:
            roles[ref_of(b[1])] = role(b[2])
            continue
        scan_reads(e)
    st = lf["stop"]
    if st[0] == "return" and st[1] and st[1][0] is not None:
        scan_reads(st[1][0])
    return removed, read


def lru_atomize(fn):
    def atomize(n, run):
        b = match.binop(n, ("==", "!="))
        if b:
            sides = [b[1], b[2]]
            ends = [match.call_named(s, ("end", "cend")) for s in sides]
            if any(e is not None and match.this_field(kids(strip_casts(e))[0]) == "map_" for e in ends if e is not None):
                return ("found", b[0] == "==")
            begs = [match.call_named(s, ("begin", "cbegin")) for s in sides]
            if any(e is not None and match.this_field(kids(strip_casts(e))[0]) == "list_" for e in begs if e is not None):
                return ("already-front", b[0] == "!=")
        c = match.call_named(n, ("size", "empty"))
        if c is not None:
            return ("aux:" + dtable.describe(n), False)
        return None
    return atomize


MUTATORS = ("put", "touch", "touch_if_exists", "erase", "erase_if_exists", "get", "get_touch", "pop", "clear")


def check_lru(ck, tu):
    summaries = {}
    for rec in (LS, LM):
        is_map = rec == LM
        for fn in tu.find(record=rec):
            if fn.name not in MUTATORS:
                continue
            leaves = dtable.explore(fn.body, lru_atomize(fn), fn)
            tag = "%s::%s" % (rec.split("::")[-1], fn.name)
            bad = False
            per_path = []
            atoms = list(dict.fromkeys(["found"] + dtable.atoms_of(leaves)))
            for v_full, lf in dtable.table(leaves, None, atoms):
                found = v_full["found"]
                if fn.name in ("pop", "clear") and not found:
                    continue
                evs = lru_events(fn, lf)
                kinds = [e[0] for e in evs]
                per_path.append((found, lf["val"].get("already-front"), [(a, b if isinstance(b, str) else None) for a, b in evs if a not in ("map.find", "list.end")]))
                # ---- coupling
                le, me = kinds.count("list.erase"), kinds.count("map.erase")
                if fn.name != "pop" and le != me:
                    ck.violation("LRU-COUPLED", fn.qname, "%s:erase:%s" % (fn.name, found),
                                 "on the path found=%s the recency list erases %d node(s) but the index map erases %d entry(ies)" % (found, le, me), fn.loc)
                    bad = True
                lp = sum(1 for k in kinds if k in ("list.push_front", "list.emplace_front", "list.push_back"))
                mi = sum(1 for k in kinds if k in ("map.insert", "map.emplace"))
                if lp != mi:
                    ck.violation("LRU-COUPLED", fn.qname, "%s:insert:%s" % (fn.name, found),
                                 "on the path found=%s %d list insertion(s) but %d index insertion(s)" % (found, lp, mi), fn.loc)
                    bad = True
                if lp and mi:
                    li = [i for i, k in enumerate(kinds) if k in ("list.push_front", "list.emplace_front", "list.push_back")][0]
                    mi_i = [i for i, k in enumerate(kinds) if k in ("map.insert", "map.emplace")][0]
                    if mi_i < li:
                        ck.violation("LRU-COUPLED", fn.qname, fn.name + ":order", "the index entry is created before the list node it must point to", fn.loc)
                        bad = True
                if fn.name == "pop":
                    removed, read = pop_roles(fn, lf)
                    if not (len(removed) == 1 and me == 1):
                        ck.violation("LRU-COUPLED", fn.qname, "pop:pair", "pop() must remove exactly one list node and its index entry", fn.loc)
                        bad = True
                if fn.name == "clear" and not ("list.clear" in kinds and "map.clear" in kinds):
                    ck.violation("LRU-COUPLED", fn.qname, "clear:both", "clear() must clear both the recency list and the index", fn.loc)
                    bad = True
                # ---- end roles: MRU = front, eviction = back
                for a, b in evs:
                    if a in ("list.push_back",) or (a == "list.splice" and b not in ("begin", "cbegin")) or (a == "map.insert" and lp and b not in ("begin",)) \
                            or (a == "list.pop_front" and fn.name != "pop"):
                        ck.violation("LRU-ENDS", fn.qname, "%s:%s" % (fn.name, a), "%s uses the wrong end of the recency list (most recent = front, evicted = back): %s %s"
                                     % (fn.name, a, b or ""), fn.loc)
                        bad = True
                if fn.name == "pop":
                    if "?" in removed or "?" in read or not read:
                        raise dtable.Undecidable("%s: which node pop() reads / removes is not understood (removed %s, read %s)" % (fn.loc, removed, read))
                    if any(r != "last" for r in removed):
                        ck.violation("LRU-ENDS", fn.qname, "pop:list.pop_front", "pop() removes the %s of the recency list (most recent = front, evicted = back)"
                                     % ("front" if "begin" in removed else "end()"), fn.loc)
                        bad = True
                    elif any(r != "last" for r in read):
                        ck.violation("LRU-ENDS", fn.qname, "pop:last", "pop() does not read the last element of the recency list (--end())", fn.loc)
                        bad = True
                if fn.name in ("touch", "touch_if_exists", "get_touch") and found and "list.splice" not in kinds:
                    ck.violation("LRU-ENDS", fn.qname, fn.name + ":no-touch", "%s does not move the key to the front on the found path" % fn.name, fn.loc)
                    bad = True
                # ---- exceptions
                throws = "throw" in kinds
                if fn.name in ("touch", "erase", "get", "get_touch"):
                    if found is False and not throws:
                        ck.violation("LRU-THROW-GUARD", fn.qname, fn.name + ":miss", "%s on an absent key does not throw" % fn.name, fn.loc)
                        bad = True
                    if found and throws:
                        ck.violation("LRU-THROW-GUARD", fn.qname, fn.name + ":hit", "%s throws although the key is present" % fn.name, fn.loc)
                        bad = True
                elif throws:
                    ck.violation("LRU-THROW-GUARD", fn.qname, fn.name + ":throws", "%s must not throw" % fn.name, fn.loc)
                    bad = True
                if found is False and any(a in ("list.erase", "list.splice", "map.erase") for a in kinds):
                    ck.violation("LRU-THROW-GUARD", fn.qname, fn.name + ":miss-deref", "the miss path uses the end() iterator", fn.loc)
                    bad = True
                # ---- put stores the element
                if fn.name == "put" and not throws:
                    stored = any(a in ("list.push_front", "list.emplace_front") and "key" in (b or "") and (not is_map or "+value" in (b or "")) for a, b in evs) \
                        or ("value.assign" in kinds)
                    unchanged_ok = (not is_map) and lf["val"].get("already-front") is True and not any(k.startswith("list.") or k.startswith("map.e") for k in kinds)
                    if not (stored or unchanged_ok):
                        ck.violation("LRU-PUT-STORES", fn.qname, "put:%s" % dtable.fmt_val(lf["val"]),
                                     "put() has a path (%s) that returns without storing the given %s" % (dtable.fmt_val(lf["val"]), "value" if is_map else "key"), fn.loc)
                        bad = True
            summaries[(rec, fn.name)] = sorted(str(p) for p in per_path)
            if not bad:
                ck.ok("LRU-COUPLED", tag, "%d paths: list and index change together" % len(leaves))
                ck.ok("LRU-ENDS", tag, "front = most recent, back = evicted", nontrivial=fn.name in ("put", "touch", "touch_if_exists", "get_touch", "pop"))
                if fn.name in ("touch", "erase", "get", "get_touch"):
                    ck.ok("LRU-THROW-GUARD", tag, "throws exactly on the miss path, no iterator use there")
                if fn.name == "put":
                    ck.ok("LRU-PUT-STORES", tag, "every normal path stores the given %s" % ("key and value" if is_map else "key"))


# ------------------------------------------------------------------ SplayTree
def is_root(e, fn):
    """root designators: this->root_ or a Tree*& parameter"""
    if match.this_field(e) == "root_":
        return "root_"
    r = ref_of(e)
    if r is not None:
        i = fn.param_index(r)
        if i is not None and fn.params[i]["ty"].endswith("*&"):
            return "param:" + fn.params[i]["name"]
    return None


def null_tests(fn):
    """list of (tested_expr_node, polarity_nonnull_in_then, ifstmt)"""
    out = []
    for x in ir.walk(fn.body):
        if x["k"] != "IfStmt":
            continue
        c = kids(x)[0]
        conj = []

        def flat(n):
            b = match.binop(n, ("&&",))
            if b and strip_casts(n)["k"] == "BinaryOperator":
                flat(b[1]); flat(b[2])
            else:
                conj.append(n)
        flat(c)
        for n in conj:
            b = match.binop(n, ("==", "!="))
            if b and (strip_casts(b[2])["k"] == "NullPtr" or strip_casts(b[1])["k"] == "NullPtr"):
                e = b[1] if strip_casts(b[2])["k"] == "NullPtr" else b[2]
                out.append((e, b[0] == "!=", x, len(conj) == 1))
            pt = match.ptr_truth(n)
            if pt is not None:
                out.append((pt, True, x, len(conj) == 1))
            u = match.unop(n, ("!",))
            if u and match.ptr_truth(u[1]) is not None:
                out.append((match.ptr_truth(u[1]), False, x, len(conj) == 1))
    return out


def guarded_nonnull(fn, g, expr, at_node):
    """is `expr` known non-null at at_node: inside then-branch of if (expr != nullptr), or after if (expr == nullptr) return/break"""
    pos = g.pos_deep(at_node)
    for e, nonnull_then, ifs, sole in null_tests(fn):
        if not match.same_expr(e, expr):
            continue
        t, el = kids(ifs)[1], kids(ifs)[2]
        if nonnull_then and t is not None and any(y is at_node for y in ir.walk(t)):
            return True
        if not nonnull_then and sole and t is not None:
            # then-branch leaves (return / break / continue) -> afterwards non-null
            leaves = any(y["k"] in ("ReturnStmt", "BreakStmt", "ContinueStmt") for y in ir.walk(t))
            pi = g.pos_deep(kids(ifs)[0])
            if leaves and pi and pos and g.dominates(pi, pos) and not any(y is at_node for y in ir.walk(t)):
                return True
            if el is not None and any(y is at_node for y in ir.walk(el)):
                return True
    return False


def and_guarded(fn, expr, node):
    """node sits in the right operand of `expr != nullptr && ...`"""
    n, par = node, fn.parent(node)
    while par is not None:
        if par["k"] == "BinaryOperator" and par.get("op") == "&&" and len(kids(par)) == 2:
            l, r = kids(par)
            if any(y is n for y in ir.walk(r)) or r is n:
                for c in ir.walk(l):
                    b = match.binop(c, ("!=",))
                    if b and strip_casts(b[2])["k"] == "NullPtr" and match.same_expr(b[1], expr):
                        return True
                    pt = match.ptr_truth(c)
                    if pt is not None and match.same_expr(pt, expr):
                        return True
        n, par = par, fn.parent(par)
    return False


def check_splay(ck, tu):
    fns = [f for f in tu.functions if f.record == ST or (f.qname.startswith("tlx::splay") and f.record is None)]
    ck.require(fns, "SplayTree not instantiated")
    seen = set()
    for fn in fns:
        key = (fn.qname, tuple(fn.rtargs), tuple(fn.targs), len(fn.params))
        tag = fn.full.split("(")[0][-70:]
        g = None
        # ---- SPLAY-NULL + SPLAY-WRITEBACK at every splay() call
        for x in ir.walk(fn.body):
            c = match.call_named(x, ("splay",)) if "callee" in x and x["k"] == "CallExpr" else None
            if c is None:
                continue
            g = g or cfgm.CFG(fn)
            arg = kids(c)[1]
            root = is_root(arg, fn)
            par = fn.parent(x)
            # where does the result go?
            dest = None
            p = par
            while p is not None and p["k"] in ("ImplicitCastExpr", "ParenExpr"):
                p = fn.parent(p)
            if p is not None:
                b = match.binop(p, ("=",))
                if b and strip_casts(b[2]) is x:
                    dest = b[1]
                elif p["k"] == "VarDecl":
                    dest = p
            if root:
                # the (possibly different) root returned by splay must be stored back on every path
                ok_wb = dest is not None and dest is not p and is_root(dest, fn) == root if dest is not None and dest.get("k") != "VarDecl" else False
                if not ok_wb:
                    # look for assignments to the root later on all paths
                    asg = [y for y in ir.walk(fn.body) if match.binop(y, ("=",)) and is_root(match.binop(y, ("=",))[1], fn) == root and g.pos(y)]
                    pc = g.pos_deep(x)
                    if pc and g.path_avoiding(pc, [g.pos(y) for y in asg]) is None and asg:
                        ok_wb = True
                if ok_wb:
                    ck.ok("SPLAY-WRITEBACK", "%s @%s" % (tag, fn.nloc(x)), "result of splay(%s) is stored back into %s on every path" % (root, root))
                else:
                    ck.violation("SPLAY-WRITEBACK", fn.qname, "%s:%s" % (fn.name, root),
                                 "splay() restructures the tree below %s but there is a path on which the new root is not stored back: the nodes above the old root are lost"
                                 % root, fn.nloc(x))
            # null contradiction: result dereferenced while the argument may be null
            if dest is not None:
                dkey = dest
                derefs = []
                for y in ir.walk(fn.body):
                    if y["k"] == "MemberExpr" and y.get("arrow") and kids(y):
                        base = kids(y)[0]
                        same = (dest.get("k") == "VarDecl" and ref_of(base) == dest.get("did")) or \
                               (dest.get("k") != "VarDecl" and match.same_expr(base, dest))
                        if same and g.pos_deep(y) and g.pos_deep(x) and g.reachable(g.pos_deep(x), g.pos_deep(y)):
                            derefs.append(y)
                if derefs:
                    okn = guarded_nonnull(fn, g, arg, x)
                    if not okn and dest.get("k") != "VarDecl":
                        okn = all(guarded_nonnull(fn, g, dest, d) or and_guarded(fn, dest, d) for d in derefs)
                    if okn:
                        ck.ok("SPLAY-NULL", "%s @%s" % (tag, fn.nloc(x)), "splay(%s) result is dereferenced only where the argument is known non-null" % dtable.describe(arg))
                    else:
                        ck.violation("SPLAY-NULL", fn.qname, "%s:%s" % (fn.name, dtable.describe(arg)),
                                     "splay() returns null for a null tree (the code itself treats %s as nullable elsewhere) but the result is dereferenced unguarded"
                                     % dtable.describe(arg), fn.nloc(derefs[0]))
        # ---- SPLAY-OWNER: deleting all nodes must null the root
        for x in ir.walk(fn.body):
            c = match.call_named(x, ("splay_traverse_postorder",)) if "callee" in x else None
            if c is None or fn.record != ST:
                continue
            deletes = False
            lam = [y for y in ir.walk(c) if y["k"] == "LambdaExpr"]
            for l in lam:
                lf = tu.by_did.get(l.get("fn"))
                if lf is not None and any(match.call_named(z, ("delete_node",)) for z in ir.walk(lf.body) if "callee" in z):
                    deletes = True
            if not deletes:
                continue
            g = g or cfgm.CFG(fn)
            asg = [y for y in ir.walk(fn.body) if match.binop(y, ("=",)) and match.this_field(match.binop(y, ("=",))[1]) == "root_"
                   and (strip_casts(match.binop(y, ("=",))[2])["k"] == "NullPtr" or const_int(match.binop(y, ("=",))[2]) == 0)]
            pc = g.pos_deep(x)
            if asg and pc and g.path_avoiding(pc, [g.pos(y) for y in asg if g.pos(y)]) is None:
                ck.ok("SPLAY-OWNER", tag, "root_ is reset after all nodes were deleted")
            else:
                ck.violation("SPLAY-OWNER", fn.qname, fn.name + ":root_", "all nodes are deleted but root_ keeps pointing to freed memory (reuse or destructor -> double free)", fn.nloc(x))
        # ---- SPLAY-LINK: a child link may only be overwritten when saved before or known null
        if fn.record is None and fn.name in ("splay", "splay_insert", "splay_erase"):
            g = g or cfgm.CFG(fn)
            n_links = 0
            for x in ir.walk(fn.body):
                b = match.binop(x, ("=",))
                if not b:
                    continue
                lhs = strip_casts(b[1])
                targets = []
                if lhs["k"] == "MemberExpr" and lhs.get("member") in ("left", "right") and lhs.get("arrow"):
                    targets = [lhs]
                elif lhs["k"] == "ConditionalOperator":
                    targets = [strip_casts(k_) for k_ in kids(lhs)[1:] if strip_casts(k_)["k"] == "MemberExpr"]
                for tnode in targets:
                    n_links += 1
                    base = kids(tnode)[0]
                    bref = ref_of(base)
                    # fresh node parameter (splay_insert's nn) or an earlier read of the same link or a null test
                    fresh = fn.name == "splay_insert" and bref == fn.params[0]["did"]
                    px = g.pos_deep(x)
                    read_before = False
                    aliases = {bref}
                    for y in ir.walk(fn.body):
                        bb = match.binop(y, ("=",))
                        if bb and ref_of(bb[1]) == bref and strip_casts(bb[1])["k"] == "DeclRefExpr" and ref_of(bb[2]) is not None \
                                and strip_casts(bb[2])["k"] == "DeclRefExpr":
                            aliases.add(ref_of(bb[2]))
                    for y in ir.walk(fn.body):
                        if y is tnode or y["k"] != "MemberExpr" or y.get("member") != tnode["member"] or not kids(y):
                            continue
                        if ref_of(kids(y)[0]) not in aliases or bref is None:
                            continue
                        # is y read (not the lhs of an assignment)?
                        par = fn.parent(y)
                        is_lhs = par is not None and match.binop(par, ("=",)) and strip_casts(match.binop(par, ("=",))[1]) is y
                        py = g.pos_deep(y)
                        if not is_lhs and py and px and (g.reachable(py, px) or py == px or ref_of(kids(y)[0]) != bref):
                            read_before = True
                    nulltest = guarded_null(fn, g, tnode, x)
                    if not (fresh or read_before or nulltest):
                        ck.violation("SPLAY-LINK", fn.qname, "%s:%s->%s" % (fn.name, dtable.describe(base), tnode["member"]),
                                     "%s->%s is overwritten although its old subtree was neither saved nor shown to be empty: with equivalent keys "
                                     "(multiset) the overwritten subtree is non-empty and its nodes are lost" % (dtable.describe(base), tnode["member"]), fn.nloc(x))
                    else:
                        ck.ok("SPLAY-LINK", "%s %s->%s @%s" % (fn.name, dtable.describe(base), tnode["member"], fn.nloc(x)),
                              "fresh node" if fresh else "old link read before" if read_before else "link known null", nontrivial=False)
        # ---- SPLAY-ORIENT
        if fn.record is None and fn.name == "splay" and key not in seen:
            check_orient(ck, fn)
        if fn.record is None and fn.name == "splay_insert" and key not in seen:
            check_insert_orient(ck, fn)
        # ---- allocation pairing
        if fn.record == ST and fn.name == "insert":
            allocs = [y for y in ir.walk(fn.body) if y["k"] == "CXXNewExpr"]
            incs = [y for y in ir.walk(fn.body) if match.unop(y, ("++",)) and match.this_field(match.unop(y, ("++",))[1]) == "size_"]
            g = g or cfgm.CFG(fn)
            okp = len(allocs) == 1 and len(incs) == 1 and g.pos_deep(allocs[0]) and g.pos(incs[0]) and g.dominates(g.pos_deep(allocs[0]), g.pos(incs[0])) \
                and g.postdominates(g.pos(incs[0]), g.pos_deep(allocs[0]))
            if okp:
                ck.ok("SPLAY-ALLOC-PAIR", tag, "one node allocated <-> size_++ on the same paths")
            else:
                ck.violation("SPLAY-ALLOC-PAIR", fn.qname, "insert", "node allocation and size_++ are not on the same paths", fn.loc)
        if fn.record == ST and fn.name == "delete_node":
            evs = [("dtor" if ("callee" in y and y["callee"]["name"].startswith("~")) else "dealloc" if match.call_named(y, ("deallocate",)) else
                    "size--" if (match.unop(y, ("--",)) and match.this_field(match.unop(y, ("--",))[1]) == "size_") else None) for y in ir.walk(fn.body)]
            evs = [e for e in evs if e]
            if evs[:2] == ["dtor", "dealloc"] and "size--" in evs:
                ck.ok("SPLAY-ALLOC-PAIR", tag, "destroy, deallocate, size_--")
            else:
                ck.violation("SPLAY-ALLOC-PAIR", fn.qname, "delete_node", "delete_node must destroy, deallocate and decrement size_ (got %s)" % evs, fn.loc)
        if fn.record == ST and fn.name == "erase" and fn.params and not fn.params[0]["ty"].endswith("*"):
            g = g or cfgm.CFG(fn)
            dn = [y for y in ir.walk(fn.body) if "callee" in y and match.call_named(y, ("delete_node",))]
            okp = False
            if len(dn) == 1:
                out = ref_of(kids(dn[0])[-1])
                d = [y for y in ir.walk(fn.body) if y["k"] == "VarDecl" and y["did"] == out and kids(y) and match.call_named(kids(y)[0], ("splay_erase",))]
                okp = bool(d) and guarded_nonnull_var(fn, g, out, dn[0])
            if okp:
                ck.ok("SPLAY-ALLOC-PAIR", tag, "the node unlinked by splay_erase is freed exactly on the found path")
            else:
                ck.violation("SPLAY-ALLOC-PAIR", fn.qname, "erase", "the node returned by splay_erase is not freed exactly when it is non-null", fn.loc)
        seen.add(key)


def guarded_null(fn, g, link, at_node):
    """link (p->left/right) known null at at_node: enclosing if (p->link == nullptr) or loop exit while (p->link != nullptr)"""
    for e, nonnull_then, ifs, sole in null_tests(fn):
        if match.same_expr(e, link) and not nonnull_then and kids(ifs)[1] is not None and any(y is at_node for y in ir.walk(kids(ifs)[1])):
            return True
    for l in match.loops_in(fn.body):
        init, cond, inc, body = match.loop_parts(l)
        if cond is None:
            continue
        b = match.binop(cond, ("!=",))
        e = None
        if b and strip_casts(b[2])["k"] == "NullPtr":
            e = b[1]
        elif match.ptr_truth(cond) is not None:
            e = match.ptr_truth(cond)
        if e is not None and match.same_expr(e, link):
            pl, pa = g.pos_deep(cond), g.pos_deep(at_node)
            if pl and pa and g.dominates(pl, pa) and not any(y is at_node for y in ir.walk(body)):
                # no assignment to the base between loop exit and use (approximation: base not assigned in straight line after the loop)
                return True
    return False


def guarded_nonnull_var(fn, g, did, at_node):
    for x in ir.walk(fn.body):
        if x["k"] != "IfStmt":
            continue
        c = kids(x)[0]
        u = match.unop(c, ("!",))
        t = kids(x)[1]
        if u and ref_of(match.ptr_truth(u[1]) if match.ptr_truth(u[1]) is not None else u[1]) == did and t is not None and \
                any(y["k"] == "ReturnStmt" for y in ir.walk(t)):
            pi, pa = g.pos_deep(c), g.pos_deep(at_node)
            if pi and pa and g.dominates(pi, pa):
                return True
        b = match.binop(c, ("==", "!="))
        if b and ref_of(b[1]) == did and strip_casts(b[2])["k"] == "NullPtr":
            if b[0] == "!=" and t is not None and any(y is at_node for y in ir.walk(t)):
                return True
            if b[0] == "==" and t is not None and any(y["k"] == "ReturnStmt" for y in ir.walk(t)):
                return True
        pt = match.ptr_truth(c)
        if pt is not None and ref_of(pt) == did and t is not None and any(y is at_node for y in ir.walk(t)):
            return True
    return False


def check_orient(ck, fn):
    k, t = fn.params[0]["did"], fn.params[1]["did"]
    loop = [l for l in match.loops_in(fn.body)]
    ck.require(loop, "%s: splay loop not found" % fn.loc)
    body = match.loop_parts(loop[0])[3]
    top = [s for s in kids(body) if s["k"] == "IfStmt"]
    ck.require(top, "%s: splay decision not found" % fn.loc)
    bad = False
    n = 0

    def side_of(cond):
        fc = match.functor_call(cond)
        if not fc or len(fc[1]) != 2:
            return None
        a, b = fc[1]

        def role(e):
            if ref_of(e) == k:
                return "k"
            f = match.field_of(e)
            if f and f[1] == "key":
                return "node"
            return None
        r = (role(a), role(b))
        return "left" if r == ("k", "node") else "right" if r == ("node", "k") else None
    node = top[0]
    while node is not None and node["k"] == "IfStmt":
        side = side_of(kids(node)[0])
        if side is None:
            break
        n += 1
        then = kids(node)[1]
        other = "right" if side == "left" else "left"
        descents = [match.binop(y, ("=",)) for y in kids(then) if y and match.binop(y, ("=",)) and ref_of(match.binop(y, ("=",))[1]) == t]
        okd = bool(descents) and match.field_of(descents[-1][2]) and match.field_of(descents[-1][2])[1] == side
        # zig-zig test compares with the child on the same side
        inner = [y for y in kids(then) if y and y["k"] == "IfStmt" and match.functor_call(kids(y)[0])]
        oki = True
        for y in inner:
            fc = match.functor_call(kids(y)[0])
            names = [z.get("member") for a in fc[1] for z in ir.walk(a) if z["k"] == "MemberExpr" and z.get("member") in ("left", "right")]
            if side_of(kids(y)[0]) != side or names != [side]:
                oki = False
        if not (okd and oki):
            ck.violation("SPLAY-ORIENT", fn.qname, "splay:" + side,
                         "when the key is %s than the node the search must continue into the %s subtree" % ("smaller" if side == "left" else "larger", side), fn.nloc(node))
            bad = True
        node = kids(node)[2]
    ck.require(n == 2, "%s: expected two oriented comparisons in splay, found %d" % (fn.loc, n))
    if not bad:
        ck.ok("SPLAY-ORIENT", "splay<%s>" % (fn.targs[0] if fn.targs else ""), "cmp(k,node) -> left, cmp(node,k) -> right, zig-zig on the same side")


def check_insert_orient(ck, fn):
    """splay_insert: on every path (tree empty | new key strictly smaller | strictly larger) the links written are the ones of
    a root insertion: decision table over {t is null, cmp(new, root), cmp(root, new)}"""
    nn, t = fn.params[0]["did"], fn.params[1]["did"]

    def owner(e):
        f = match.field_of(e)
        return ref_of(f[0]) if f and f[1] == "key" else None

    def atomize(n, run):
        n0 = strip_casts(n)
        pt = match.ptr_truth(n) or (match.ptr_truth(n0) if n0 is not n else None)
        if pt is not None and ref_of(pt) == t:
            return ("null", True)
        bb = match.binop(n0, ("==", "!="))
        if bb:
            for l, r in ((bb[1], bb[2]), (bb[2], bb[1])):
                if ref_of(l) == t and strip_casts(r)["k"] in ("NullPtr", "CXXNullPtrLiteralExpr", "GNUNullExpr"):
                    return ("null", bb[0] == "!=")
        fc = match.functor_call(n0)
        if fc and len(fc[1]) == 2:
            o = (owner(fc[1][0]), owner(fc[1][1]))
            if o == (nn, t):
                return ("new<root", False)
            if o == (t, nn):
                return ("root<new", False)
            raise dtable.Undecidable("%s: comparison operands not understood: %s" % (fn.loc, dtable.describe(n0)))
        return None
    leaves = dtable.explore(fn.body, atomize, fn)

    def links(lf):
        out = {}
        for ev in lf["events"]:
            if ev[0] != "expr":
                continue
            stack = [ev[1]]
            # chained assignment a = b = c: the innermost first
            order = []
            while stack:
                y = stack.pop()
                bq = match.binop(y, ("=",)) if y is not None and y["k"] in ("BinaryOperator",) else None
                if bq:
                    order.append(bq)
                    stack.append(strip_casts(bq[2]))
            for bq in reversed(order):
                f = match.field_of(bq[1])
                if f and f[1] in ("left", "right"):
                    rhs = strip_casts(bq[2])
                    while rhs is not None and rhs["k"] == "BinaryOperator" and rhs.get("op") == "=":
                        rhs = strip_casts(kids(rhs)[1])
                    f2 = match.field_of(rhs)
                    out[(ref_of(f[0]), f[1])] = "null" if rhs["k"] == "NullPtr" else ("t" if ref_of(rhs) == t else (("t->" + f2[1]) if f2 and ref_of(f2[0]) == t else "?"))
        return out
    want_empty = {(nn, "left"): "null", (nn, "right"): "null"}
    want_small = {(nn, "left"): "t->left", (nn, "right"): "t", (t, "left"): "null"}
    want_large = {(nn, "right"): "t->right", (nn, "left"): "t", (t, "right"): "null"}
    atoms = dtable.atoms_of(leaves)
    if "null" not in atoms or not ({"new<root", "root<new"} & set(atoms)):
        raise dtable.Undecidable("%s: splay_insert decision not found" % fn.loc)
    bad = None
    for v, lf in dtable.table(leaves, lambda v_: not (v_.get("new<root") and v_.get("root<new")), atoms):
        got = links(lf)
        ret = lf["stop"][1][0] if lf["stop"][0] == "return" and lf["stop"][1] else None
        if ret is None or ref_of(ret) != nn:
            bad = bad or (v, "does not return the new node")
            continue
        is_null = v["null"]
        if is_null:
            if got != want_empty:
                bad = bad or (v, "inserting into an empty tree must null both links of the new node")
        elif v.get("new<root"):
            if got != want_small:
                bad = bad or (v, "new key smaller: the old root must become the right child and hand over its left subtree")
        elif v.get("root<new"):
            if got != want_large:
                bad = bad or (v, "new key larger: the old root must become the left child and hand over its right subtree")
        else:
            if got not in (want_small, want_large):
                bad = bad or (v, "equivalent keys: the old root must become a child of the new node")
    if bad:
        ck.violation("SPLAY-ORIENT", fn.qname, "splay_insert", "the new root is linked on the wrong side of the old root (%s): %s" % (dtable.fmt_val(bad[0]), bad[1]), fn.loc)
    else:
        ck.ok("SPLAY-ORIENT", "splay_insert", "new key smaller: old root becomes right child (and hands over its left subtree); otherwise mirrored")


def run(ck):
    ck.explanation = (
        "LRU caches: every mutator is split into its paths over the atoms `found` (lookup hit) and `already-front`; per path the effects on the "
        "recency list and the index map are extracted and must change together, use front as the most-recent end and back as the eviction end, throw "
        "exactly on the miss path without touching the end() iterator, and put() must store the given key/value on every normal path; Set and Map "
        "siblings must have the same effect skeleton. SplayTree: the result of every splay() on a root must be stored back on all paths, must not be "
        "dereferenced where the tree may be null, deleting all nodes must null the owner, a child link may only be overwritten when saved or known "
        "empty, allocation/deallocation pair with size_, and the search orientation is consistent. LRU order and BST order over histories are not decided.")
    types = ["int"] if ck.tier == "quick" else ["int", "std::string"]
    for t in types:
        tu = ir.extract("witness/C17_lru_splay.cpp", defines=["WITNESS_K=" + t])
        check_lru(ck, tu)
        check_splay(ck, tu)
    m = len(types)
    ck.floor("LRU-COUPLED", 14 * m)
    ck.floor("LRU-THROW-GUARD", 6 * m)
    ck.floor("LRU-PUT-STORES", 2 * m)
    ck.floor("SPLAY-WRITEBACK", 4 * m)
    ck.floor("SPLAY-NULL", 3 * m)
    ck.floor("SPLAY-OWNER", 1 * m)
    ck.floor("SPLAY-LINK", 10 * m)
    ck.floor("SPLAY-ORIENT", 2 * m)
    ck.floor("SPLAY-ALLOC-PAIR", 3 * m)
