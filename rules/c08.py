"""C08 — multisequence partition / selection: lexicographic tie-break comparators,
orientation of the priority queues and edge scans, stable middle decision, index
guards, twin agreement of the two copies.

Verdict policy of this file: a violation is only reported on positive evidence (a row of a decision table, a recognised
element of the wrong edge, a concrete comparator type, a dominating test that is strictly stronger, a path on which every
branch is read).  Whatever is merely *not found* - a sequence-length table filled in an unknown way, a branch decided by
a flag / helper / `!=` test the linear engine cannot read, a queue fed through an unknown member, a scan pointer written
in an unknown form - is `Undecidable` (exit 2).  Locals are never identified by name: the sequence-length table is the
container filled with distance(begin_seqs[k].first, begin_seqs[k].second), the border arrays are the ones the edge scans
read, the skew is the local defined from the rank parameter whose sign tests dominate the queues, begin_seqs and rank
are the first and third parameter of the public signature.

A maximum scan whose winner is kept together with its sequence index and then compared lexicographically by (key, sequence
index) - the partition's (lmax, lmax_seq) - must keep the lexicographic maximum: among equal keys the highest sequence
index.  The visiting order is read from the scan loop (one variable stepped once per iteration by a constant of one sign),
the behaviour on equal keys from the tie rows of the scan's decision table; scans whose winner's sequence is not used
(selection, the final edge scans) stay free on ties.

Which bound of 0 <= E < seqlen[X] the guard of begin_seqs[X].first[E] has to establish is read from what E is built from: a
border element minus a constant needs E >= 0, a border element / a probe between borders needs E < seqlen[X]; an index over
scalars whose every value comes from constants, parameters, the table of lengths and other such scalars (closed world over
their initialisers and writes: Cx.plain_scalars) is a position whatever constant is added (`n`, `step - 1`) and needs the upper
bound; any other written local is read by its shape only while its guard agrees with the shape - guarded by the other bound
alone it may be a border carried in a scalar, and the answer is `cannot decide`.  The edge of a scan is likewise only read from a
candidate index that is built from a border element.

Before the rules run, three exact rewrites bring other spellings back to the shape the rules read (on a copy of the function
with a CFG from engine/cfgbuild.py; whatever cannot be rewritten exactly stays as it is and is then `cannot decide` where it
matters): calls of local lambdas that are only ever called are replaced by their bodies (inline_local_lambdas), `(&x)->m(..)` -
what an inlined helper that took the object by pointer leaves behind - becomes `x.m(..)` (plain_member_calls), and a local of
a plain aggregate type used field by field / assigned from braced lists is split into one local per field
(scalarize_structs).  A std::vector kept in heap order exactly the way std::priority_queue is specified (push_back +
push_heap, pop_heap + pop_back, front) is read as a priority queue with the comparator of the heap calls; a bound carried by a
sticky bool flag (`if (f && !(bound)) f = false; ... if (f) use`) is read by a pair of must-facts (flag_established)."""
import copy
import itertools

from engine import ir, dtable, match, mustfact, linear, normalize, cfgbuild, cfg as cfgm
from engine.ir import kids, strip_casts, const_int, ref_of

PART = "tlx::multisequence_partition"
SEL = "tlx::multisequence_selection"

_CMP = ("<", ">", "<=", ">=")
_MIRROR = {"<": ">", ">": "<", "<=": ">=", ">=": "<="}
_CASTS = ("ImplicitCastExpr", "CStyleCastExpr", "CXXStaticCastExpr", "CXXFunctionalCastExpr", "CXXReinterpretCastExpr", "CXXConstCastExpr",
          "ParenExpr", "ExprWithCleanups", "MaterializeTemporaryExpr", "CXXBindTemporaryExpr", "ConstantExpr")


def ancestors(fn, node):
    out = []
    par = fn.parent(node)
    while par is not None:
        out.append(par)
        par = fn.parent(par)
    return out


def unconditional(stmt):
    """nodes of stmt that are evaluated whenever stmt is: not the branches of an if, loop bodies, arms of ?:, right
    operands of && and ||"""
    stack = [stmt]
    while stack:
        x = stack.pop()
        if x is None:
            continue
        yield x
        k = x["k"]
        if k == "IfStmt":
            stack.append(kids(x)[0])
            if isinstance(x.get("init"), dict):
                stack.append(x["init"])
        elif k in ("WhileStmt", "ForStmt", "DoStmt", "CXXForRangeStmt", "SwitchStmt", "CXXTryStmt", "LambdaExpr"):
            if k == "ForStmt":
                stack.append(kids(x)[0])
        elif k == "ConditionalOperator":
            stack.append(kids(x)[0])
        elif k == "BinaryOperator" and x.get("op") in ("&&", "||"):
            stack.append(kids(x)[0])
        else:
            stack.extend(reversed(kids(x)))


# ------------------------------------------------------------------------------------------------ lexicographic functors
def _param_role(fn, e, depth=0):
    """1 / 2 if e denotes the first / second parameter of fn, directly or through never-reassigned (reference) locals"""
    d = ref_of(e)
    if d is None or depth > 4:
        return None
    if d == fn.params[0]["did"]:
        return 1
    if d == fn.params[1]["did"]:
        return 2
    decl = [v for v in fn.nodes() if v["k"] == "VarDecl" and v.get("did") == d]
    if len(decl) != 1 or not kids(decl[0]) or kids(decl[0])[0] is None:
        return None
    for z in fn.nodes():
        w = match.binop(z, ("=",)) if z["k"] in ("BinaryOperator", "CXXOperatorCallExpr") else None
        if w and ref_of(w[1]) == d:
            return None
    return _param_role(fn, match.strip_conv(kids(decl[0])[0]), depth + 1)


# The two functors were once told apart by their class names.  A functor is now known by what its operator() computes: the
# decision table below is evaluated for every operator() over two std::pair parameters, and the order it computes (strict
# ascending / its reverse / neither) is what the other rules ask for.  Only the two historic names still promise a direction
# of their own, which the table then has to confirm.
_LEXI_NAMES = {"lexicographic": False, "lexicographic_rev": True}


def _type_key(ty):
    return (ty or "").replace("const ", "").replace("class ", "").replace("struct ", "").replace(" ", "")


def _functor_key(record, rtargs):
    return _type_key((record or "") + ("<" + ", ".join(rtargs) + ">" if rtargs else ""))


def _lexi_ops(tu):
    """type key -> operator() of every class of the program that is called with two std::pair operands (tu.by_did still
    holds the functions the normaliser dropped from tu.functions because no function of the program calls them: a functor
    only the standard library calls is one of these)"""
    ops = getattr(tu, "_c08_lexi_ops", None)
    if ops is None:
        ops = {}
        for f in tu.by_did.values():
            if f.kind == "operator" and f.d.get("op") == "()" and f.record and f.body is not None and len(f.params) == 2 \
                    and all(_type_key(p.get("ty")).startswith("std::pair<") for p in f.params):
                k = _functor_key(f.record, f.rtargs)
                ops[k] = None if k in ops else f       # two bodies for one type: not told apart
        tu._c08_lexi_ops = ops
    return ops


def _comp_field(fn):
    """name of the field that carries the caller's comparator: the only thing the one-argument constructor of the functor
    initialises, from its parameter (a reference member) or from the address of its parameter (a pointer member)"""
    ctors = [f for f in fn.tu.by_did.values() if f.kind == "ctor" and f.record == fn.record and f.rtargs == fn.rtargs and len(f.params) == 1
             and not f.d.get("copy_ctor") and not f.d.get("move_ctor")]
    if len(ctors) != 1 or len(ctors[0].inits) != 1 or not ctors[0].inits[0].get("field") or (ctors[0].body is not None and [c for c in kids(ctors[0].body) if c]):
        return None
    e = match.strip_conv(ctors[0].inits[0].get("e"))
    u = match.unop(e, ("&",)) if e is not None and e["k"] == "UnaryOperator" else None
    if ref_of(e) == ctors[0].params[0]["did"]:
        return ctors[0].inits[0]["field"], False
    if u and ref_of(u[1]) == ctors[0].params[0]["did"]:
        return ctors[0].inits[0]["field"], True
    return None


def _own_comp(fn, e):
    """e denotes the comparator the functor was constructed with: this->F, or *this->F for a pointer member"""
    e = strip_casts(e)           # not through a construction: functor(comp_) is another object than comp_
    if e is None:
        return False
    if match.this_field(e) == "comp_" and not (e.get("ty") or "").rstrip().endswith("*"):
        return True
    cf = _comp_field(fn)
    if cf is None:
        return False
    if cf[1]:
        d = match.deref_of(e)
        return d is not None and match.this_field(d) == cf[0]
    return match.this_field(e) == cf[0]


def _lexi_dir_of_call(fn, n):
    """False (ascending) / True (reversed) if n calls the operator() of a functor over the same pair type that carries this
    functor's own comparator and is itself one of the two orders"""
    n = strip_casts(n)
    c = n.get("callee") if n is not None else None
    if not c or n.get("op") != "()" or len(kids(n)) != 3 or not c.get("record"):
        return None
    if c.get("rtargs") != fn.rtargs and [a for a in c.get("rtargs") or [] if a not in ("true", "false")] != [a for a in fn.rtargs if a not in ("true", "false")]:
        return None
    if c["record"].rsplit("::", 1)[0] != (fn.record or "").rsplit("::", 1)[0]:
        return None
    obj = strip_casts(kids(n)[0])
    if obj is None or obj["k"] not in ("CXXConstructExpr", "CXXTemporaryObjectExpr") or len(kids(obj)) != 1 or not _own_comp(fn, kids(obj)[0]):
        return None
    callee = fn.tu.by_did.get(c.get("did"))
    if callee is None or callee.did == fn.did or _comp_field(callee) is None:
        return None
    return functor_direction(fn.tu, _functor_key(c["record"], c.get("rtargs") or []))


_LEXI_BUSY = set()


def lexi_eval(fn):
    """the decision table of an operator()(p1, p2) over {comp(p1.first, p2.first), comp(p2.first, p1.first), p1.second <
    p2.second, p2.second < p1.second}: (rows, a row that is wrong for the strict ascending order, a row that is wrong for its
    reverse).  Undecidable if something else decides the result."""
    if getattr(fn, "_c08_lexi", None) is not None:
        return fn._c08_lexi
    if fn.did in _LEXI_BUSY:
        raise dtable.Undecidable("%s: the functors call each other in a circle" % fn.loc)
    cls = (fn.record or "").split("::")[-1]

    def first_role(a):
        f = match.field_of(a)
        return _param_role(fn, f[0]) if f and f[1] == "first" else None

    def atomize(n, run):
        fc = match.functor_call(n)
        if fc and len(fc[1]) == 2 and _own_comp(fn, fc[0]):
            w = [first_role(a) for a in fc[1]]
            if w == [1, 2]:
                return ("c12", False)
            if w == [2, 1]:
                return ("c21", False)
            if w in ([1, 1], [2, 2]):
                return False        # comp(x, x): a strict order is irreflexive
            raise dtable.Undecidable("%s: comp_ is applied to something other than p1.first / p2.first at line %s" % (fn.loc, strip_casts(n).get("l")))
        b = match.binop(n, _CMP)
        if b:
            fa, fb = match.field_of(b[1]), match.field_of(b[2])
            if fa and fb and fa[1] == fb[1] == "second":
                ra, rb = _param_role(fn, fa[0]), _param_role(fn, fb[0])
                if sorted((ra or 0, rb or 0)) == [1, 2]:
                    op = b[0] if (ra, rb) == (1, 2) else _MIRROR[b[0]]
                    # p1.second <= p2.second  is  !(p2.second < p1.second)
                    return {"<": ("s12", False), ">": ("s21", False), "<=": ("s21", True), ">=": ("s12", True)}[op]
        dc = _lexi_dir_of_call(fn, n) if fc and len(fc[1]) == 2 else None
        if dc is not None:
            w = [_param_role(fn, a) for a in fc[1]]
            if sorted((w[0] or 0, w[1] or 0)) == [1, 2]:
                lt12 = (w == [1, 2]) == (not dc)       # the call asks (p1, p2) < in the ascending order
                if lt12:
                    return run.atom("c12") or (not run.atom("c21") and run.atom("s12"))
                return run.atom("c21") or (not run.atom("c12") and run.atom("s21"))
        return None
    _LEXI_BUSY.add(fn.did)
    try:
        leaves = dtable.explore(fn.body, atomize, fn)
        atoms = ["c12", "c21", "s12", "s21"]
        bad = {False: None, True: None}
        rows = 0
        for v, lf in dtable.table(leaves, lambda v: not (v["c12"] and v["c21"]) and not (v["s12"] and v["s21"]), atoms):
            rows += 1
            if lf["stop"][0] != "return" or lf["stop"][1][0] is None:
                raise dtable.Undecidable("%s: a path of %s::operator() does not end in `return <bool>` (%s)" % (fn.loc, cls, dtable.fmt_val(v)))
            r2 = dtable.Run(atomize, v, fn)
            r2.env = dict(lf["run"].env)
            try:
                r = r2.truth(lf["stop"][1][0])
            except dtable._Need as nd:
                raise dtable.Undecidable("%s: the value returned by %s::operator() depends on %s" % (fn.loc, cls, nd.key))
            lt = v["c12"] or (not v["c12"] and not v["c21"] and v["s12"])
            gt = v["c21"] or (not v["c12"] and not v["c21"] and v["s21"])
            for rev in (False, True):
                if (lt or gt) and r != (gt if rev else lt):
                    bad[rev] = v
    finally:
        _LEXI_BUSY.discard(fn.did)
    fn._c08_lexi = (rows, bad[False], bad[True])
    return fn._c08_lexi


def functor_direction(tu, ty):
    """the order a comparator type stands for: False = strict (value, sequence) order, True = its reverse, "neither" = a pair
    functor whose table is neither (LEXI-TABLE reports it), None = not a functor over pairs that this file reads.  The two
    historic class names answer by their name (LEXI-TABLE holds them to it); every other class by its decision table."""
    key = _type_key(ty)
    base = key.split("<")[0].split("::")[-1]
    if base in _LEXI_NAMES:
        return _LEXI_NAMES[base]
    f = _lexi_ops(tu).get(key)
    if f is None:
        return None
    rows, bad_asc, bad_desc = lexi_eval(f)
    if bad_asc is None and bad_desc is None:
        raise dtable.Undecidable("%s: the decision table of %s::operator() has no row that tells the two orders apart" % (f.loc, f.record))
    if bad_asc is None:
        return False
    if bad_desc is None:
        return True
    return "neither"


def lexi_one(ck, fn, cls, rev):
    """rev: the direction the class name promises, None for a class that is only known by what it computes"""
    rows, bad_asc, bad_desc = lexi_eval(fn)
    tag = "%s (%s)" % (cls, fn.record.split("::")[1])
    if rev is None:
        if bad_asc is not None and bad_desc is not None:
            # positive: one row against either order
            ck.violation("LEXI-TABLE", fn.qname, tag.replace(" ", ""), "%s is neither the strict lexicographic order on (value, sequence) (wrong for %s) nor its reverse "
                         "(wrong for %s)" % (cls, dtable.fmt_val(bad_asc), dtable.fmt_val(bad_desc)), fn.loc)
            return
        if bad_asc is None and bad_desc is None:
            raise dtable.Undecidable("%s: the decision table of %s::operator() has no row that tells the two orders apart" % (fn.loc, cls))
        rev = bad_asc is not None
    bad = bad_desc if rev else bad_asc
    if bad:
        ck.violation("LEXI-TABLE", fn.qname, tag.replace(" ", ""), "%s is not the %s lexicographic order on (value, sequence): wrong for %s" % (cls, "reversed" if rev else "strict", dtable.fmt_val(bad)), fn.loc)
    else:
        ck.ok("LEXI-TABLE", tag, "%d rows: %s (value, sequence index) order" % (rows, "reversed strict" if rev else "strict"))


def _novel_functors(tu):
    """pair functors under another name than the two historic ones that multisequence_partition / _selection hold as a local
    (the comparator objects, the comparator type of the queues)"""
    tys = set()
    for f in tu.find(qname=PART) + tu.find(qname=SEL):
        for x in f.nodes():
            if x["k"] == "VarDecl":
                tys.add(_type_key(x.get("ty")))
    out = []
    for key, f in sorted(_lexi_ops(tu).items(), key=lambda kv: kv[0]):
        if f is None or key.split("<")[0].split("::")[-1] in _LEXI_NAMES:
            continue
        if any(key in t for t in tys):
            out.append(f)
    return out


def check_lexi(ck, tu):
    have = {False: 0, True: 0}
    for cls, rev in (("lexicographic", False), ("lexicographic_rev", True)):
        fns = [f for f in tu.functions if f.kind == "operator" and f.record and f.record.endswith("::" + cls) and f.d.get("op") == "()"]
        have[rev] += len(fns)
        for fn in fns:
            ck.require(len(fn.params) == 2, "%s: two parameters expected" % fn.loc)
            ck.guarded(lambda fn=fn, cls=cls, rev=rev: lexi_one(ck, fn, cls, rev))
    for fn in _novel_functors(tu):
        cls = "%s<%s>" % (fn.record.split("::")[-1], ", ".join(fn.rtargs))
        try:
            d = functor_direction(tu, _functor_key(fn.record, fn.rtargs))
        except ir.AnalysisBroken:
            d = None            # the guarded run below says why
        for rev in (False, True):
            if d is None or d == "neither" or d is rev:
                have[rev] += 1
        ck.guarded(lambda fn=fn, cls=cls: lexi_one(ck, fn, cls, None))
    for cls, rev in (("lexicographic", False), ("lexicographic_rev", True)):
        ck.require(have[rev], "%s::operator() not instantiated (nor any other functor over pairs that computes the %s order)" % (cls, "reversed" if rev else "strict"))


# ------------------------------------------------------------------------------------------------ local lambdas
class _LambdaInliner(normalize.Rewriter):
    """Calls of lambdas that are declared as locals of the function and only ever called are replaced by their bodies
    (engine/normalize.py does this for new named helpers, not for lambdas): a by-reference capture names the caller's variable
    itself, so the body can be placed at the call as it is; parameters are bound like those of a helper.  A call that cannot be
    replaced exactly is left in place (the rules then see an unknown helper and give up on their own)."""

    def __init__(self, tu, fn, body, lambdas):
        super().__init__(tu, fn)
        self.body = body
        self.lambdas = lambdas          # declaration id of the closure variable -> Fn of its operator()
        self.fn_writes = set()
        for y in ir.walk(body):
            self.fn_writes |= self._targets(y)
        self._info = {}

    @staticmethod
    def _targets(y):
        tgt = None
        if y["k"] in ("BinaryOperator", "CompoundAssignOperator") and (y.get("op") or "").endswith("=") and y.get("op") not in ("==", "!=", "<=", ">="):
            tgt = kids(y)[0]
        elif y["k"] == "UnaryOperator" and y.get("op") in ("++", "--"):
            tgt = kids(y)[0]
        elif y["k"] == "CXXOperatorCallExpr" and y.get("op") in ("=", "+=", "-=", "*=", "/=", "++", "--") and kids(y):
            tgt = kids(y)[0]
        if tgt is None:
            return set()
        root = normalize.lvalue_root(tgt)
        t0 = strip_casts(tgt)
        through_ptr = match.deref_of(t0) is not None or (t0 is not None and t0["k"] == "MemberExpr" and t0.get("arrow"))
        return {root if root is not None else "?"} | ({"?"} if through_ptr else set())

    def info(self, cal):
        """(declaration ids written in the body, body is free of effects, usable) of a lambda"""
        if cal.did not in self._info:
            written, pure, usable = set(), True, True
            for y in ir.walk(cal.body):
                t = self._targets(y)
                written |= t
                if t or y["k"] in ("CXXNewExpr", "CXXDeleteExpr", "CXXThrowExpr", "LambdaExpr"):
                    pure = False
                if "callee" in y and not (y["k"] == "CXXOperatorCallExpr" and y.get("op") in ("[]", "*", "->", "()", "+", "-", "<", ">", "<=", ">=", "==", "!=")) \
                        and y["k"] not in ("CXXConstructExpr", "CXXTemporaryObjectExpr") and y["callee"]["name"] not in normalize.PURE_CALLS:
                    pure = False
                if y["k"] == "DeclRefExpr" and y["ref"]["id"] in self.lambdas:
                    usable = False      # a lambda that calls a lambda
                if y["k"] in ("CXXTryStmt", "GotoStmt", "LabelStmt", "CXXForRangeStmt", "SwitchStmt"):
                    usable = False
            self._info[cal.did] = (written, pure, usable)
        return self._info[cal.did]

    def lambda_call(self, n):
        if n is not None and n["k"] == "CXXOperatorCallExpr" and n.get("op") == "()" and kids(n):
            cal = self.lambdas.get(ref_of(kids(n)[0]))
            if cal is not None and cal.did == n["callee"].get("did") and self.info(cal)[2]:
                return cal
        return None

    def bind_lambda(self, cal, call):
        args = kids(call)[1:]
        pro, subst, rename = self.bind(cal, {"k": "CallExpr", "ch": args, "l": call.get("l")})
        written = self.info(cal)[0]
        for p, a in zip(cal.params, args):
            if p["did"] not in subst:
                continue
            ops = {y["ref"]["id"] for y in ir.walk(a) if y["k"] == "DeclRefExpr"}
            reads_mem = any(match.index_parts(y) or match.deref_of(y) is not None or y["k"] == "MemberExpr" for y in ir.walk(a))
            if (ops & written) or ("?" in written) or (reads_mem and written and not (p.get("ty") or "").rstrip().endswith("&") and
                                                         not strip_casts(a)["k"] == "UnaryOperator"):
                # the body changes what the argument is computed from: a value parameter keeps the value of the call
                if (p.get("ty") or "").rstrip().endswith("&"):
                    raise normalize.Fail("reference argument whose address changes inside the lambda")
                del subst[p["did"]]
                nd = self.next_did
                self.next_did -= 1
                rename[p["did"]] = nd
                v = {"k": "VarDecl", "id": self.fresh(), "did": nd, "name": p.get("name") or "arg", "ty": p.get("ty"), "l": call.get("l"), "ch": [self.clone(a)]}
                pro.append({"k": "DeclStmt", "id": self.fresh(), "l": call.get("l"), "ch": [v]})
        return pro, subst, rename

    def value_of(self, call, cal):
        """the expression a call of an effect-free lambda stands for, or None"""
        written, pure, usable = self.info(cal)
        args = kids(call)[1:]
        if not pure or len(args) != len(cal.params) or any(a is None or a["k"] == "DefaultArg" or not self.side_effect_free(a) for a in args):
            return None
        e = dtable.stmts_as_expr([s_ for s_ in kids(cal.body) if s_ is not None], {p_["did"]: a_ for p_, a_ in zip(cal.params, args)})
        return self.simplify(self.clone(e)) if e is not None else None

    def expand_stmt(self, s):
        if s is None:
            return [s]
        top = s
        while top is not None and top["k"] in ("ExprWithCleanups",) and kids(top):
            top = kids(top)[0]
        cal = self.lambda_call(top)
        if cal is not None:
            try:
                pro, subst, rename = self.bind_lambda(cal, top)
                body = [self.simplify(self.clone(x, subst, rename)) for x in kids(cal.body)]
                body = self.deret(body, lambda e: ([e] if e is not None and not self.side_effect_free(e) else []))
                self.changed = True
                return [self.block(pro + body, s)]
            except normalize.Fail:
                return [s]
        slot = None
        if s["k"] == "DeclStmt" and len(kids(s)) == 1 and kids(s)[0]["k"] == "VarDecl" and kids(kids(s)[0]):
            slot, call = ("decl", kids(s)[0]), kids(kids(s)[0])[0]
        elif s["k"] == "ReturnStmt" and kids(s):
            slot, call = ("ret", s), kids(s)[0]
        elif top is not None and top["k"] == "BinaryOperator" and top.get("op") == "=":
            slot, call = ("asg", top), kids(top)[1]
        if slot is not None:
            c0 = call
            while c0 is not None and c0["k"] in ("ImplicitCastExpr", "ExprWithCleanups", "MaterializeTemporaryExpr", "CXXBindTemporaryExpr", "ParenExpr") and kids(c0):
                c0 = kids(c0)[0]
            cal = self.lambda_call(c0)
            if cal is not None and self.value_of(c0, cal) is None:
                try:
                    pro, subst, rename = self.bind_lambda(cal, c0)
                    body = [self.simplify(self.clone(x, subst, rename)) for x in kids(cal.body)]
                    if not body or body[-1]["k"] != "ReturnStmt" or any(self.has_return(x) for x in body[:-1]) or not kids(body[-1]):
                        raise normalize.Fail("not a single trailing return")
                    if slot[0] == "asg" and normalize.lvalue_root(kids(slot[1])[0]) in (self.info(cal)[0] | {None}):
                        raise normalize.Fail("the assigned variable is written inside the lambda")
                    new = self._with_value(s, slot, c0, kids(body[-1])[0])
                    self.changed = True
                    return pro + body[:-1] + [new]
                except normalize.Fail:
                    pass
        self.inline_values(s)
        if s["k"] == "CompoundStmt":
            s["ch"] = self.expand_list(kids(s))
        elif s["k"] in ("IfStmt", "ForStmt", "WhileStmt", "DoStmt", "AttributedStmt"):
            new_ch = []
            for c in kids(s):
                if c is not None and (c["k"] in ("CompoundStmt", "IfStmt", "ForStmt", "WhileStmt", "DoStmt", "AttributedStmt", "ReturnStmt") or self._is_stmt_position(s, c)):
                    ex = self.expand_stmt(c)
                    new_ch.append(ex[0] if len(ex) == 1 else self.block(ex, c))
                else:
                    new_ch.append(c)
            s["ch"] = new_ch
        return [s]

    def inline_values(self, s):
        """calls of effect-free lambdas inside the expressions that belong to statement s itself"""
        def rec(n):
            if n is None or n["k"] == "LambdaExpr":
                return n
            if n["k"] in ("CompoundStmt", "IfStmt", "ForStmt", "WhileStmt", "DoStmt", "SwitchStmt") and n is not s:
                return n
            if "ch" in n:
                n["ch"] = [rec(c) for c in n["ch"]]
            cal = self.lambda_call(n)
            if cal is not None:
                e = self.value_of(n, cal)
                if e is not None:
                    self.changed = True
                    return e
            return n
        if s["k"] == "CompoundStmt":
            return
        if s["k"] in ("IfStmt", "WhileStmt", "SwitchStmt"):
            s["ch"][0] = rec(s["ch"][0])
        elif s["k"] == "ForStmt":
            for i in (1, 2):
                if kids(s)[i] is not None:
                    s["ch"][i] = rec(s["ch"][i])
            if kids(s)[0] is not None and kids(s)[0]["k"] != "DeclStmt":
                s["ch"][0] = rec(s["ch"][0])
            elif kids(s)[0] is not None:
                rec(kids(s)[0])
        elif s["k"] == "DoStmt":
            s["ch"][1] = rec(s["ch"][1])
        else:
            rec(s)


def inline_local_lambdas(fn):
    """-> a copy of fn in which the calls of its own local lambdas are replaced by their bodies (fn itself if it has none,
    or if the rewritten body gets no control-flow graph)"""
    if fn.body is None:
        return fn
    lambdas = {}
    for v in fn.nodes():
        if v["k"] != "VarDecl" or v.get("did") is None or not kids(v) or kids(v)[0] is None:
            continue
        e = kids(v)[0]
        while e is not None and e["k"] in _CASTS + ("CXXConstructExpr",) and len(kids(e)) == 1:
            e = kids(e)[0]
        cal = fn.tu.by_did.get(e.get("fn")) if e is not None and e["k"] == "LambdaExpr" else None
        if cal is None or cal.kind != "lambda" or cal.body is None:
            continue
        # by-copy captures are snapshots taken where the lambda is created: only of variables that never change
        lambdas[v["did"]] = (cal, e)
    if not lambdas:
        return fn
    body = copy.deepcopy(fn.body)
    parent = {}
    for n_, p_ in ir.walk_with_parent(body):
        parent[n_["id"]] = p_
    writes = set()
    for y in ir.walk(body):
        writes |= _LambdaInliner._targets(y)
    usable = {}
    for d, (cal, lam) in lambdas.items():
        ok = True
        for y in ir.walk(body):
            if y["k"] == "DeclRefExpr" and y["ref"]["id"] == d:
                p_ = parent.get(y["id"])
                while p_ is not None and p_["k"] in _CASTS:
                    y, p_ = p_, parent.get(p_["id"])
                if not (p_ is not None and p_["k"] == "CXXOperatorCallExpr" and p_.get("op") == "()" and kids(p_)[0] is y):
                    ok = False          # the closure is handed on: it may be called from anywhere
        lam_writes = set()
        for y in ir.walk(cal.body):
            lam_writes |= _LambdaInliner._targets(y)
        for c_ in lam.get("captures", []):
            if not c_.get("byref") and (c_.get("id") is None or c_["id"] in writes or "?" in writes or c_["id"] in lam_writes):
                ok = False
        if ok:
            usable[d] = cal
    if not usable:
        return fn
    rw = _LambdaInliner(fn.tu, fn, body, usable)
    try:
        for _ in range(3):
            rw.changed = False
            body["ch"] = rw.expand_list(kids(body))
            if not rw.changed:
                break
        used = {y["ref"]["id"] for y in ir.walk(body) if y["k"] == "DeclRefExpr"}

        def prune(n):
            if n is None or "ch" not in n:
                return n
            ch = []
            for c in n["ch"]:
                if c is not None and c["k"] == "DeclStmt" and n["k"] == "CompoundStmt":
                    keep = [v for v in kids(c) if not (v["k"] == "VarDecl" and v.get("did") in usable and v["did"] not in used)]
                    if not keep:
                        continue
                    if len(keep) != len(kids(c)):
                        c = dict(c)
                        c["ch"] = keep
                ch.append(prune(c))
            n["ch"] = ch
            return n
        prune(body)
        if body == fn.body:
            return fn
        g = cfgbuild.build(body)
    except (cfgbuild.Unsupported, normalize.Fail, KeyError, IndexError, TypeError):
        return fn
    d2 = dict(fn.d)
    d2["body"], d2["cfg"] = body, g
    fn2 = ir.Fn(d2, fn.tu)
    fn2.lambdas_inlined = True
    return fn2


# ------------------------------------------------------------------------------------------------ local aggregates
_WRAP = _CASTS + ("CXXConstructExpr",)


def scalarize_structs(fn):
    """-> a copy of fn in which a local of a plain aggregate type (a struct without bases and methods) that is only ever used
    field by field, assigned as a whole from a braced list / another such local, or copied into one, is replaced by one local
    per field (`lmax.elem`, `lmax.seq`); `v = { e1, e2 }` becomes `(v.f1 = e1, v.f2 = e2)`, `{ e1, e2 }.f1` becomes e1.  The
    rules then read a winner kept as a struct like a winner kept in two variables.  fn itself if there is nothing to do or a use
    is of another kind."""
    if fn.body is None:
        return fn
    by_mid = {}
    for r in fn.tu.records:
        if r.get("bases") or r.get("methods") or not r.get("fields"):
            continue
        for i, f in enumerate(r["fields"]):
            by_mid[f["mid"]] = (r, i)
    if not by_mid or not any(y["k"] == "MemberExpr" and y.get("mid") in by_mid for y in fn.nodes()):
        return fn
    body = copy.deepcopy(fn.body)
    rw = normalize.Rewriter(fn.tu, fn)

    def unwrap(e):
        while e is not None and e["k"] in _WRAP and len(kids(e)) == 1:
            e = kids(e)[0]
        return e

    def pure(e):
        return rw.side_effect_free(e)
    try:
        # { e1, .., ek }.f  ->  e_f
        def sel(n):
            if n is None:
                return None
            for key in ("init", "condvar"):
                if key in n and isinstance(n[key], dict):
                    n[key] = sel(n[key])
            if "ch" in n:
                n["ch"] = [sel(c) for c in n["ch"]]
            if n["k"] == "MemberExpr" and n.get("mid") in by_mid and kids(n):
                b = unwrap(kids(n)[0])
                r, i = by_mid[n["mid"]]
                if b is not None and b["k"] == "InitListExpr" and len(kids(b)) == len(r["fields"]) and all(pure(e) for e in kids(b)):
                    return kids(b)[i]
            return n
        body = sel(body)
        parent = {}
        for n_, p_ in ir.walk_with_parent(body):
            parent[n_["id"]] = p_
        decls = {v["did"]: v for v in ir.walk(body) if v["k"] == "VarDecl" and v.get("did") is not None}
        refs = {}
        for y in ir.walk(body):
            if y["k"] == "DeclRefExpr" and y["ref"]["id"] in decls:
                refs.setdefault(y["ref"]["id"], []).append(y)
        # the record of a local: through its member accesses
        rec = {}
        for d, ys in refs.items():
            rs = set()
            for y in ys:
                c, p_ = y, parent.get(y["id"])
                while p_ is not None and p_["k"] in _CASTS and len(kids(p_)) == 1:
                    c, p_ = p_, parent.get(p_["id"])
                if p_ is not None and p_["k"] == "MemberExpr" and p_.get("mid") in by_mid:
                    rs.add(id(by_mid[p_["mid"]][0]))
                    rec[d] = by_mid[p_["mid"]][0]
            if len(rs) != 1:
                rec.pop(d, None)
        cand = set(rec)
        for y in ir.walk(body):
            if y["k"] == "LambdaExpr":          # a closure that was not inlined may use the local as a whole
                cand -= {c_.get("id") for c_ in y.get("captures", [])}

        def whole_assign(n):
            """(target did, rhs) if n is `v = rhs` through the implicit copy assignment of an aggregate"""
            if n is not None and n["k"] == "CXXOperatorCallExpr" and n.get("op") == "=" and len(kids(n)) == 2 and ref_of(kids(n)[0]) in decls and \
                    fn.tu.by_did.get(n["callee"].get("did")) is None:
                return ref_of(kids(n)[0]), unwrap(kids(n)[1])
            return None

        def stmt_context(n):
            """the value of expression n is not used"""
            c, p_ = n, parent.get(n["id"])
            while p_ is not None and p_["k"] in ("ExprWithCleanups", "ParenExpr"):
                c, p_ = p_, parent.get(p_["id"])
            if p_ is None:
                return False
            if p_["k"] == "CompoundStmt":
                return True
            if p_["k"] == "BinaryOperator" and p_.get("op") == ",":
                return kids(p_)[0] is c or stmt_context(p_)
            if p_["k"] == "IfStmt":
                return kids(p_)[0] is not c
            if p_["k"] == "ForStmt":
                return kids(p_)[1] is not c
            if p_["k"] == "WhileStmt":
                return kids(p_)[1] is c
            if p_["k"] == "DoStmt":
                return kids(p_)[0] is c
            return False

        def value_ok(e, d):
            """e can initialise / be assigned to the aggregate local d field by field"""
            e = unwrap(e)
            if e is None:
                return False
            if e["k"] == "InitListExpr":
                return len(kids(e)) == len(rec[d]["fields"]) and all(x is not None and pure(x) for x in kids(e)) and \
                    not any(y["k"] == "DeclRefExpr" and y["ref"]["id"] == d for y in ir.walk(e))
            return e["k"] == "DeclRefExpr" and e["ref"]["id"] in cand and e["ref"]["id"] != d and rec.get(e["ref"]["id"]) is rec[d]
        changed = True
        while changed:
            changed = False
            for d in list(cand):
                ok = True
                v = decls[d]
                pv = parent.get(v["id"])
                if pv is None or pv["k"] != "DeclStmt" or (v.get("ty") or "").rstrip().endswith(("&", "*")):
                    ok = False
                init = kids(v)[0] if kids(v) else None
                if ok and init is not None:
                    i0 = unwrap(init)
                    if not (value_ok(init, d) or (i0 is not None and i0["k"] == "CXXConstructExpr" and not kids(i0))):
                        ok = False
                for y in refs.get(d, []):
                    if not ok:
                        break
                    c, p_ = y, parent.get(y["id"])
                    while p_ is not None and p_["k"] in _WRAP and len(kids(p_)) == 1:
                        c, p_ = p_, parent.get(p_["id"])
                    if p_ is None:
                        ok = False
                    elif p_["k"] == "MemberExpr" and p_.get("mid") in by_mid and by_mid[p_["mid"]][0] is rec[d]:
                        pass
                    elif whole_assign(p_) and kids(p_)[0] is c:
                        ok = whole_assign(p_)[0] == d and value_ok(kids(p_)[1], d) and stmt_context(p_)
                    elif whole_assign(p_):
                        ok = whole_assign(p_)[0] in cand and whole_assign(p_)[0] != d
                    elif p_["k"] == "VarDecl" and p_.get("did") in cand and p_["did"] != d:
                        pass
                    else:
                        ok = False
                if not ok:
                    cand.discard(d)
                    changed = True
        if not cand:
            return fn if body == fn.body else _rebuilt(fn, body)
        fdid = {}
        nd = -100000 - len(decls)
        for d in sorted(cand):
            for f in rec[d]["fields"]:
                nd -= 1
                fdid[(d, f["name"])] = nd

        def fref(d, f, like):
            const = (decls[d].get("ty") or "").startswith("const ")
            return {"k": "DeclRefExpr", "id": rw.fresh(), "l": like.get("l"), "lv": True, "ty": ("const " if const and "*" not in f["ty"] else "") + f["ty"],
                    "ref": {"id": fdid[(d, f["name"])], "kind": "local", "name": "%s.%s" % (decls[d].get("name"), f["name"]), "vty": f["ty"]}}

        def field_values(e, d, like):
            e = unwrap(e)
            if e["k"] == "InitListExpr":
                return [rewrite(x) for x in kids(e)]
            return [fref(e["ref"]["id"], f, like) for f in rec[d]["fields"]]

        def rewrite(n):
            if n is None:
                return None
            if n["k"] == "MemberExpr" and n.get("mid") in by_mid and kids(n):
                b = kids(n)[0]
                while b is not None and b["k"] in _CASTS and len(kids(b)) == 1:
                    b = kids(b)[0]
                if b is not None and b["k"] == "DeclRefExpr" and b["ref"]["id"] in cand:
                    out = fref(b["ref"]["id"], by_mid[n["mid"]][0]["fields"][by_mid[n["mid"]][1]], n)
                    out["ty"] = n.get("ty") or out["ty"]
                    return out
            wa = whole_assign(n)
            if wa and wa[0] in cand:
                d = wa[0]
                vals = field_values(kids(n)[1], d, n)
                out = None
                for f, val in zip(rec[d]["fields"], vals):
                    a = {"k": "BinaryOperator", "op": "=", "id": rw.fresh(), "l": n.get("l"), "lv": True, "ty": f["ty"], "ch": [fref(d, f, n), val]}
                    out = a if out is None else {"k": "BinaryOperator", "op": ",", "id": rw.fresh(), "l": n.get("l"), "ty": f["ty"], "ch": [out, a]}
                return out
            if n["k"] == "DeclStmt":
                ch = []
                for v in kids(n):
                    if v is not None and v["k"] == "VarDecl" and v.get("did") in cand:
                        d = v["did"]
                        init = kids(v)[0] if kids(v) else None
                        i0 = unwrap(init) if init is not None else None
                        vals = field_values(init, d, v) if i0 is not None and i0["k"] in ("InitListExpr", "DeclRefExpr") else [None] * len(rec[d]["fields"])
                        const = (v.get("ty") or "").startswith("const ")
                        for f, val in zip(rec[d]["fields"], vals):
                            ch.append({"k": "VarDecl", "id": rw.fresh(), "did": fdid[(d, f["name"])], "name": "%s.%s" % (v.get("name"), f["name"]), "l": v.get("l"),
                                       "ty": ("const " if const and "*" not in f["ty"] else "") + f["ty"], "ch": [val] if val is not None else []})
                    else:
                        ch.append(rewrite(v))
                out = dict(n)
                out["ch"] = ch
                return out
            out = dict(n)
            for key in ("init", "condvar"):
                if key in n and isinstance(n[key], dict):
                    out[key] = rewrite(n[key])
            if "ch" in n:
                out["ch"] = [rewrite(c) for c in n["ch"]]
            return out
        body = rw.simplify(rewrite(body))
        if any(y["k"] == "DeclRefExpr" and y["ref"]["id"] in cand for y in ir.walk(body)):
            return fn
        return _rebuilt(fn, body)
    except (cfgbuild.Unsupported, normalize.Fail, KeyError, IndexError, TypeError, AttributeError):
        return fn


def _rebuilt(fn, body):
    g = cfgbuild.build(body)
    d2 = dict(fn.d)
    d2["body"], d2["cfg"] = body, g
    return ir.Fn(d2, fn.tu)


def plain_member_calls(fn):
    """-> a copy of fn in which `(&x)->m(..)` reads `x.m(..)`: what is left of a helper that received the object by pointer
    after the helper has been inlined (engine/normalize.py rewrites `(&x)->field` and `*&x` itself, not the object of a member
    call).  fn itself if there is no such call."""
    if fn.body is None:
        return fn

    def pointee(n):
        if n.get("member_call") and n.get("arrow") and kids(n):
            o = kids(n)[0]
            while o is not None and o["k"] in ("ImplicitCastExpr", "ParenExpr") and kids(o):
                o = kids(o)[0]
            if o is not None and o["k"] == "UnaryOperator" and o.get("op") == "&" and kids(o) and kids(o)[0] is not None:
                return kids(o)[0]
        return None
    if not any(pointee(n) is not None for n in fn.nodes()):
        return fn

    def rec(n):
        if n is None:
            return None
        for key in ("init", "condvar"):
            if key in n and isinstance(n[key], dict):
                n[key] = rec(n[key])
        if "ch" in n:
            n["ch"] = [rec(c) for c in n["ch"]]
        x = pointee(n)
        if x is not None:
            n = dict(n)
            n.pop("arrow", None)
            n["ch"] = [x] + list(n["ch"][1:])
        return n
    try:
        return _rebuilt(fn, rec(copy.deepcopy(fn.body)))
    except (cfgbuild.Unsupported, normalize.Fail, KeyError, IndexError, TypeError, AttributeError):
        return fn


# ------------------------------------------------------------------------------------------------ per-function context
class Cx:
    """one instantiation of multisequence_partition / multisequence_selection"""

    def __init__(self, fn):
        fn = scalarize_structs(plain_member_calls(inline_local_lambdas(fn)))
        self.fn = fn
        if len(fn.params) < 5:
            raise ir.AnalysisBroken("%s: public signature (begin_seqs, end_seqs, rank, out, comp) expected" % fn.loc)
        self.g = cfgm.CFG(fn)
        self.L = linear.Lin(fn, self.g)
        self.seqs = fn.params[0]["did"]
        self.rank = fn.params[2]["did"]
        self._seqlen = None
        self._scans = None
        self._escaped = None
        self._pq_info = None

    # -- locals ----------------------------------------------------------------------------------
    def unalias(self, e, use, depth=0):
        """the initialiser instead of a local (value or reference) that is initialised once, never written, and whose
        operands do not change between its declaration and `use`"""
        e0 = strip_casts(e)
        while e0 is not None and depth < 5:
            d = ref_of(e0)
            v = self.L.decls.get(d) if d is not None else None
            if v is None or not kids(v) or kids(v)[0] is None or d in self.L.writes or not self.L.stable(v, use):
                break
            e0 = strip_casts(kids(v)[0])
            depth += 1
        return e0

    def leaf_refs(self, e, depth=0, linear_only=False):
        """declaration ids an expression depends on, never-written initialised locals replaced by what they stand for
        (linear_only: only the locals the linear engine would replace - integer locals with a linear initialiser)"""
        out = set()
        for y in ir.walk(e):
            if y["k"] != "DeclRefExpr":
                continue
            d = y["ref"]["id"]
            v = self.L.decls.get(d)
            if v is not None and kids(v) and kids(v)[0] is not None and d not in self.L.writes and depth < 4 and \
                    (not linear_only or self.L._linear_init(kids(v)[0])):
                out |= self.leaf_refs(kids(v)[0], depth + 1, linear_only)
                if linear_only:
                    out.add(d)
            else:
                out.add(d)
        return out

    def arrays_in(self, e, depth=0):
        """declaration ids of the local containers subscripted inside e (through never-written locals)"""
        out = set()
        for y in ir.walk(e):
            ip = match.index_parts(y) if y["k"] in ("ArraySubscriptExpr", "CXXOperatorCallExpr", "CXXMemberCallExpr") else None
            if ip and ref_of(ip[0]) in self.L.decls:
                out.add(ref_of(ip[0]))
            if y["k"] == "DeclRefExpr" and depth < 4:
                v = self.L.decls.get(y["ref"]["id"])
                if v is not None and kids(v) and kids(v)[0] is not None and y["ref"]["id"] not in self.L.writes:
                    out |= self.arrays_in(kids(v)[0], depth + 1)
        return out

    def name(self, did):
        v = self.L.decls.get(did)
        return v.get("name") if v is not None else "?"

    _ARITH = ("+", "-", "*", "/", "%", "<<", ">>", "&", "|", "^", "<", ">", "<=", ">=", "==", "!=", "&&", "||")

    def plain_scalars(self, e):
        """Closed world for the values of the locals an index is built from: every one of them is an integer local that is only
        ever initialised / assigned / stepped by expressions over constants, parameters, other such locals, elements of the
        table of sequence lengths and pure integer functions (std::min, std::max, round_up_to_power_of_two, ..) of those; none of
        them has its address taken, is captured by reference or handed to a call as an lvalue.  Such an index cannot hold a
        copy of a border element.  False as soon as anything else is met."""
        fn, L = self.fn, self.L
        if self._escaped is None:
            esc = {c_.get("id") for y in fn.nodes() if y["k"] == "LambdaExpr" for c_ in y.get("captures", []) if c_.get("byref")}
            esc |= {ref_of(kids(y)[0]) for y in fn.nodes() if y["k"] == "UnaryOperator" and y.get("op") == "&" and kids(y)}
            for y in fn.nodes():
                if "callee" in y and not (y["k"] == "CXXOperatorCallExpr" and y.get("op") in ("[]",)) and y["callee"]["name"] not in normalize.PURE_VALUE:
                    for a_ in kids(y):
                        if a_ is not None and a_.get("lv") and a_["k"] != "ImplicitCastExpr" and ref_of(a_) is not None:
                            esc.add(ref_of(a_))
            self._escaped = esc - {None}
        slen = self.seqlen_did()
        params = {p_["did"] for p_ in fn.params}
        seen = set()

        def int_type(ty):
            words = (ty or "").replace("const", " ").split()
            return bool(words) and all(w in ("long", "int", "unsigned", "signed", "short", "char", "size_t", "std::size_t", "ptrdiff_t", "std::ptrdiff_t") for w in words)

        def plain_expr(x):
            x = strip_casts(x)
            if x is None:
                return False
            k = x["k"]
            if k in _CASTS and kids(x):
                return plain_expr(kids(x)[0])
            if k == "IntegerLiteral" or (const_int(x) is not None and not kids(x)):
                return True
            if k == "DeclRefExpr":
                return plain_var(x["ref"]["id"])
            if k == "BinaryOperator" and x.get("op") in self._ARITH:
                return all(plain_expr(c) for c in kids(x))
            if k == "UnaryOperator" and x.get("op") in ("-", "+", "~", "!"):
                return plain_expr(kids(x)[0])
            if k == "ConditionalOperator":
                return all(plain_expr(c) for c in kids(x))
            ip = match.index_parts(x)
            if ip and slen is not None and ref_of(ip[0]) == slen:
                return plain_expr(ip[1])
            if "callee" in x and not x.get("member_call") and x["k"] == "CallExpr" and x["callee"]["name"] in normalize.PURE_VALUE:
                return all(c is not None and plain_expr(c) for c in kids(x))
            return False

        def plain_var(d):
            if d in seen:
                return True
            seen.add(d)
            if d in params:
                return int_type(next(p_.get("ty") for p_ in fn.params if p_["did"] == d))
            v = L.decls.get(d)
            if v is None or d in self._escaped or not int_type(v.get("ty")):
                return False
            srcs = [kids(v)[0]] if kids(v) and kids(v)[0] is not None else []
            for w in fn.nodes():
                if w["k"] not in ("BinaryOperator", "CompoundAssignOperator", "UnaryOperator", "CXXOperatorCallExpr") or writes_to(w)[0] != d:
                    continue
                if match.unop(w, ("++", "--")):
                    continue
                b = match.binop(w, ("=", "+=", "-=", "*=", "/=", "%=", ">>=", "<<=", "&=", "|=", "^="))
                if not b or ref_of(b[1]) != d:
                    return False
                srcs.append(b[2])
            return all(plain_expr(s_) for s_ in srcs)
        return plain_expr(e)

    # -- element accesses --------------------------------------------------------------------------
    def seq_access(self, n):
        """(seq_index_expr, element_index_expr) if n is begin_seqs[X].first[E]"""
        p = match.index_parts(n)
        if not p:
            return None
        f = match.field_of(p[0])
        if not f or f[1] != "first":
            return None
        q = match.index_parts(self.unalias(f[0], n))
        if not q or ref_of(self.unalias(q[0], n)) != self.seqs:
            return None
        return q[1], p[1]

    def inline_value(self, n):
        """the expression a call of a local lambda stands for when its body is `decl* (if (c) return e;)* return e;` (parameters
        replaced by the arguments; captured variables keep their declarations); None otherwise"""
        n = strip_casts(n)
        if n is None or "callee" not in n or n.get("op") != "()":
            return None
        callee = self.fn.tu.by_did.get(n["callee"].get("did"))
        if callee is None or callee.kind != "lambda" or callee.body is None or len(kids(n)) - 1 != len(callee.params):
            return None
        return dtable.stmts_as_expr([s_ for s_ in kids(callee.body) if s_ is not None], {p_["did"]: a_ for p_, a_ in zip(callee.params, kids(n)[1:])})

    def is_access(self, n, depth=0):
        if n["k"] not in ("ArraySubscriptExpr", "CXXOperatorCallExpr", "CXXMemberCallExpr"):
            return None
        sa = self.seq_access(n)
        if sa is None and n.get("op") == "()" and depth < 3:
            sub = strip_casts(self.inline_value(n))
            if sub is not None:
                return self.is_access(sub, depth + 1)
        return sa

    def resolve_elem(self, e, depth=0):
        """(X, E) if e denotes (the address of / a reference or pointer to) begin_seqs[X].first[E], through locals"""
        e = strip_casts(e)
        while e is not None and (e["k"] == "ParenExpr" or (e["k"] == "UnaryOperator" and e.get("op") in ("&", "*"))):
            e = strip_casts(kids(e)[0])
        if e is None or depth > 4:
            return None
        sa = self.is_access(e)
        if sa:
            return sa
        d = ref_of(e)
        v = self.L.decls.get(d) if d is not None else None
        if v is not None and kids(v) and kids(v)[0] is not None and d not in self.L.writes:
            return self.resolve_elem(kids(v)[0], depth + 1)
        return None

    # -- the table of sequence lengths -------------------------------------------------------------
    def _is_length_of(self, e, idx):
        e = match.strip_conv(e)
        ends = None
        c = match.call_named(e, ("distance",))
        if c is not None and "callee" in e and len(kids(c)) == 2:
            ends = kids(c)
        else:
            b = match.binop(e, ("-",))
            if b:
                ends = [b[2], b[1]]
        if not ends:
            return False
        for end, member in zip(ends, ("first", "second")):
            f = match.field_of(match.strip_conv(end))
            q = match.index_parts(f[0]) if f and f[1] == member else None
            if not q or ref_of(q[0]) != self.seqs:
                return False
            if not (match.same_expr(q[1], idx) or (const_int(q[1]) is not None and const_int(q[1]) == const_int(idx))):
                return False
        return True

    def seqlen(self):
        """(declaration id, a subscript node to copy): the local container S with S[k] = distance(begin_seqs[k].first,
        begin_seqs[k].second) (or .second - .first)"""
        if self._seqlen is None:
            cands = {}
            for z in self.fn.nodes():
                b = match.binop(z, ("=",)) if z["k"] in ("BinaryOperator", "CXXOperatorCallExpr") else None
                ip = match.index_parts(b[1]) if b else None
                d = ref_of(ip[0]) if ip else None
                if d in self.L.decls and self._is_length_of(b[2], ip[1]):
                    cands.setdefault(d, strip_casts(b[1]))
            if len(cands) != 1:
                raise dtable.Undecidable("%s: the table of sequence lengths (S[k] = distance(begin_seqs[k].first, begin_seqs[k].second)) "
                                         "was not recognised (%d candidates)" % (self.fn.loc, len(cands)))
            self._seqlen = list(cands.items())[0]
        return self._seqlen

    def seqlen_did(self):
        try:
            return self.seqlen()[0]
        except dtable.Undecidable:
            return None

    def seqlen_at(self, X):
        """a node that reads as seqlen[X]"""
        d, tmpl = self.seqlen()
        n = dict(tmpl)
        n["ch"] = [kids(tmpl)[0], X]
        n["id"] = -31
        n.pop("cval", None)
        return n

    # -- closed world for a missing bound -----------------------------------------------------------
    def unread_guard(self, x, what, names):
        """A bound that is not established on some path to x is only reported when every branch that dominates x is either
        read by the linear engine (an integer inequality) or cannot concern the index: a bool flag, a project helper or
        lambda, an == / != / truth test or another call over the index operands may carry the test in a form this rule
        cannot read."""
        fn, g, L = self.fn, self.g, self.L
        px = g.pos_deep(x)
        names = set(names) | ({self.seqlen_did()} - {None})

        def parts(c):
            c = strip_casts(c)
            while c is not None and (c["k"] == "ParenExpr" or (c["k"] == "UnaryOperator" and c.get("op") == "!")):
                c = strip_casts(kids(c)[0])
            if c is not None and c["k"] == "BinaryOperator" and c.get("op") in ("&&", "||"):
                return parts(kids(c)[0]) + parts(kids(c)[1])
            return [c] if c is not None else []
        for bid, blk in g.blocks.items():
            els = g.elements(bid)
            if len(blk.get("succ", [])) != 2 or not els or not isinstance(els[-1], int) or blk.get("term") is None:
                continue
            c = fn.byid(els[-1])
            if c is None or px is None or not g.dominates((bid, len(els) - 1), px):
                continue
            for c0 in parts(c):
                if match.binop(c0, _CMP) and L.atom(c0, True) is not None:
                    continue            # read
                is_flag = c0["k"] == "DeclRefExpr" and (c0.get("ty") or "").replace("const ", "") == "bool"
                is_helper = "callee" in c0 and fn.tu.by_did.get(c0["callee"].get("did")) is not None
                fc = match.functor_call(c0)
                if fc and not is_helper and all(self.resolve_elem(a) is not None or match.deref_of(a) is not None for a in fc[1]):
                    continue            # a comparator over element values
                concerns = bool(self.leaf_refs(c0) & names)
                if is_flag or is_helper or concerns:
                    raise dtable.Undecidable("%s: %s may be established by %s (line %s), which this rule cannot read"
                                             % (fn.loc, what, dtable.describe(c0), c0.get("l")))


def writes_to(n):
    """declaration id written by node n (assignment / compound assignment / ++ / --), and the index parts if an element"""
    w = match.unop(n, ("++", "--")) or (match.binop(n, ("=", "+=", "-=", "*=", "/=", "%=", ">>=", "<<=", "&=", "|=", "^="))
                                        if n["k"] in ("BinaryOperator", "CompoundAssignOperator", "CXXOperatorCallExpr") else None)
    if not w:
        return None, None
    ip = match.index_parts(w[1])
    return (ref_of(ip[0]) if ip else ref_of(w[1])), ip


def _lin_sub(fa, fb, extra=0):
    """canonical form of fa - fb + extra"""
    terms = dict(fa[0])
    for t, k in fb[0].items():
        terms[t] = terms.get(t, 0) - k
    return linear.canon({t: k for t, k in terms.items() if k}, fa[1] - fb[1] + extra)


def elem_add(cx, z):
    """(array declaration id, index parts, linear form of K, text of K) if z adds K to an element of a local container:
    A[i] += K | A[i] = A[i] + K | A[i] = K + A[i]   (K with non-negative coefficients only)"""
    L = cx.L
    if z["k"] == "CompoundAssignOperator" and z.get("op") == "+=":
        d, ip = writes_to(z)
        if d is None or not ip:
            return None
        f = L.form(kids(z)[1], z)
        return (d, ip, f, dtable.describe(kids(z)[1])) if f is not None else None
    b = match.binop(z, ("=",)) if z["k"] == "BinaryOperator" else None
    ip = match.index_parts(b[1]) if b else None
    if not ip or ref_of(ip[0]) not in L.decls:
        return None
    rhs = match.strip_conv(b[2])
    if not (rhs["k"] == "BinaryOperator" and rhs.get("op") in ("+", "-")):
        return None
    fr, fl = L.form(rhs, z), L.form(b[1], z)
    if fr is None or fl is None or len(fl[0]) != 1:
        return None
    k = dict(fr[0])
    (t, _), = fl[0].items()
    if k.get(t) != 1:
        return None
    del k[t]
    if any(c < 0 for c in k.values()) or fr[1] < 0 or (not k and fr[1] == 0):
        return None
    return ref_of(ip[0]), ip, (k, fr[1]), linear.show((k, fr[1]))


# ------------------------------------------------------------------------------------------------ bounds carried by a flag
def flag_established(cx, x, need, effect):
    """The bound `need >= 0` holds at x through a bool local F: on every path to x the state satisfies (F is false or the
    bound holds) - established by the false edge of a test of F, by an edge whose condition is exactly the bound, or by
    `F = false`; destroyed by any other write to F and by a write to an operand of the bound - and F has been tested true
    since its last write.  This reads `if (F && !(bound)) F = false; ... if (F) use` as well as `F = bound; if (F) use`."""
    fn, g, L = cx.fn, cx.g, cx.L
    captured = {c_.get("id") for y in fn.nodes() if y["k"] == "LambdaExpr" for c_ in y.get("captures", []) if c_.get("byref")}
    addr = {ref_of(kids(y)[0]) for y in fn.nodes() if y["k"] == "UnaryOperator" and y.get("op") == "&"}
    for F, v in L.decls.items():
        if (v.get("ty") or "").replace("const ", "") != "bool" or F in captured or F in addr:
            continue
        if any(not (w["k"] == "BinaryOperator" and w.get("op") == "=" and ref_of(kids(w)[0]) == F) for w in L.writes.get(F, [])):
            continue
        # a reference to F handed to a call could write it
        if any("callee" in y and any(ref_of(a_) == F and a_ is not None and a_.get("lv") and a_["k"] != "ImplicitCastExpr" for a_ in kids(y)) for y in fn.nodes()):
            continue

        def flag_test(c, t):
            """truth of F on this edge, or None"""
            c0 = strip_casts(c)
            while c0 is not None and (c0["k"] == "ParenExpr" or (c0["k"] == "UnaryOperator" and c0.get("op") == "!")):
                if c0["k"] == "UnaryOperator":
                    t = not t
                c0 = strip_casts(kids(c0)[0])
            return t if c0 is not None and ref_of(c0) == F else None

        def written_value(n, F=F):
            """the expression F is set to by element n (its declaration or an assignment); "?" for a declaration without
            initialiser; None if n does not write F"""
            if n["k"] == "DeclStmt":
                for v_ in kids(n):
                    if v_ is not None and v_["k"] == "VarDecl" and v_.get("did") == F:
                        n = v_
            if n["k"] == "VarDecl" and n.get("did") == F:
                return strip_casts(kids(n)[0]) if kids(n) and kids(n)[0] is not None else "?"
            if n["k"] == "BinaryOperator" and n.get("op") == "=" and ref_of(kids(n)[0]) == F:
                return strip_casts(kids(n)[1])
            return None

        def q_effect(n):
            r = written_value(n)
            if r is None:
                return effect(n)
            return "gen" if r != "?" and r["k"] == "CXXBoolLiteralExpr" and const_int(r) == 0 else "kill"

        def t_effect(n):
            r = written_value(n)
            if r is None:
                return None
            return "gen" if r != "?" and r["k"] == "CXXBoolLiteralExpr" and const_int(r) == 1 else "kill"
        is_true = mustfact.MustFact(fn, g, lambda c, t: flag_test(c, t) is True, t_effect)
        if is_true.before(x) is not True:
            continue
        q = mustfact.MustFact(fn, g, lambda c, t: flag_test(c, t) is False or _edge_is(L, c, t, need), q_effect)
        if q.before(x) is True:
            return cx.name(F)
    return None


def _edge_is(L, c, t, need):
    """taking condition c with truth t establishes exactly need >= 0 (a single comparison, not a flag)"""
    if ref_of(c) is not None:
        return False
    return any(linear.same(a_, need) for a_ in L.implied(c, t))


# ------------------------------------------------------------------------------------------------ INDEX-GUARD & co.
def check_index_guards(ck, cx, tag):
    """INDEX-GUARD: every begin_seqs[X].first[E] is reached only over branch edges that establish the needed bound
    (E < seqlen[X], or E' > 0 for E = E' - 1), as canonical linear inequalities, with no write to the index in between
    (must-fact over the CFG: early `continue`, negated tests and || chains count like nested ifs).
    GUARD-EXACT: one of those edges is exactly the bound - a stronger test skips a candidate that exists.
    LEFT-BORDER-BOUND: a left border that is still zero is moved by K only under exactly K <= seqlen."""
    fn, g, L = cx.fn, cx.g, cx.L
    left_arrays = set()
    unread = []         # a site that cannot be read is remembered; it does not hide what another site shows

    def one_access(x, X, E):
        """-> True if a violation was reported for this access"""
        f = L.form(E, x)
        if f is None:
            raise dtable.Undecidable("%s: index of %s is not a linear expression" % (fn.loc, dtable.describe(x)))
        if not f[0] and f[1] == 0:
            return False        # element 0 of a non-empty sequence (precondition)
        # Which of the two bounds of 0 <= E < seqlen[X] the guard has to establish is read from what the index is built from: a
        # border element minus a constant is the element below a left border (needs E >= 0), a border element / a probe between
        # two borders is an element at a position (needs E < seqlen[X]).  An index built from scalars whose every value comes
        # from constants, parameters, other such scalars and the table of lengths (the sampling position n, a block width
        # step - 1) is a position whatever constant is added: the upper bound.  Any other local (a value that may have been
        # copied out of a border array, written by something this rule does not read) is judged by its shape only as long as
        # the guard agrees with the shape: tested against the other bound only, it may be a border in disguise.
        arrs = cx.arrays_in(E)
        plain = not arrs and cx.plain_scalars(E)
        lower = bool(f[0]) and f[1] < 0 and not plain
        if lower:
            left_arrays.update(arrs)
        names = cx.leaf_refs(E, linear_only=True) | cx.leaf_refs(X, linear_only=True)

        def effect(n):
            d, ip = writes_to(n)
            if d is None or d not in names:
                return None
            if ip and not any(match.same_expr(ip[1], q[1]) for y in ir.walk(E) for q in [match.index_parts(y)] if q and ref_of(q[0]) == d):
                return None         # another element of the array
            return "kill"

        def bound(low):
            nd = linear.canon({t: k for t, k in f[0].items() if k}, f[1]) if low else L.req(cx.seqlen_at(X), E, True, use=x)
            if nd is None:
                raise dtable.Undecidable("%s: bound of %s is not a linear expression" % (fn.loc, dtable.describe(x)))
            return nd

        def judge(nd):
            """'exact': on every path to x an edge is exactly nd >= 0 (or a flag carries it); 'stronger': every path passes an edge
            that implies it, on one of them none is the bound itself; 'none': a path without such an edge"""
            safe = mustfact.MustFact(fn, g, lambda c, t: any(linear.implies(a_, nd) for a_ in L.implied(c, t)), effect)
            st = safe.before(x)
            if st is None:
                raise dtable.Undecidable("%s: %s has no position in the control-flow graph" % (fn.loc, dtable.describe(x)))
            if st is not True:
                # (flag is false or the bound holds) on every path, and the flag is tested true
                return "exact" if flag_established(cx, x, nd, effect) else "none"
            exact = mustfact.MustFact(fn, g, lambda c, t: any(linear.same(a_, nd) for a_ in L.implied(c, t)), effect)
            return "exact" if exact.before(x) is True else "stronger"
        need = bound(lower)
        verdict = judge(need)
        if verdict == "none" and not arrs and not plain:
            try:
                other = bound(not lower)
                other_verdict = judge(other)
            except ir.AnalysisBroken:
                other, other_verdict = None, "none"
            if other_verdict != "none":
                raise dtable.Undecidable("%s: %s is only reached under a test of its index against %s (%s >= 0), and the index is a local "
                                         "whose values this rule does not know (it may hold a border): which bound its guard has to establish cannot be read"
                                         % (fn.loc, dtable.describe(x), "the length of the sequence" if lower else "zero", linear.show(other)))
        if verdict == "none":
            cx.unread_guard(x, "the bound of %s" % dtable.describe(x), names)
            # positive: a path to x on which every dominating branch was read and none establishes the bound (or the index is
            # written after the test)
            ck.violation("INDEX-GUARD", fn.qname, "%s:%s" % (tag, dtable.describe(x)),
                         "%s is read on a path without a test that the index is inside the sequence (needs %s >= 0)"
                         % (dtable.describe(x), linear.show(need)), fn.nloc(x))
            return True
        if verdict == "stronger":
            # positive: every path passes an edge that implies the bound, and on one of them none is the bound itself
            ck.violation("GUARD-EXACT", fn.qname, "%s:%s" % (tag, dtable.describe(x)),
                         "%s is only reached under a test that is stronger than `the element exists` (%s >= 0): an existing candidate is skipped"
                         % (dtable.describe(x), linear.show(need)), fn.nloc(x))
            return True
        return False
    n_acc = 0
    bad = 0
    for x in fn.nodes():
        sa = cx.is_access(x)
        if not sa:
            continue
        n_acc += 1
        try:
            bad += 1 if one_access(x, sa[0], sa[1]) else 0
        except ir.AnalysisBroken as e:
            unread.append(e)
    if not bad and not unread:
        ck.ok("INDEX-GUARD", tag, "%d element accesses, each reached only over edges that establish index < seqlen[...] (or index-1 with index > 0)" % n_acc)
        ck.ok("GUARD-EXACT", tag, "for each of them one guarding edge is exactly the existence of the element (canonical linear form)")

    # left borders moved while still zero
    def one_move(z, d, ip, Kf, Ktxt):
        pz = g.pos_deep(z)
        if pz is None:
            raise dtable.Undecidable("%s: %s has no position in the control-flow graph" % (fn.loc, dtable.describe(z)[:40]))
        earlier = [w for w in L.writes.get(d, []) if w is not z and g.pos_deep(w) is not None and g.reachable(g.pos_deep(w), pz)
                   and not (g.reachable(pz, g.pos_deep(w)) and g.dominates(pz, g.pos_deep(w)))]
        if any(not (match.binop(w, ("=",)) and const_int(match.binop(w, ("=",))[2]) == 0) for w in earlier):
            return 0            # not known to be zero here: nothing to decide
        fs = L.form(cx.seqlen_at(ip[1]), z)
        if fs is None:
            raise dtable.Undecidable("%s: no linear form for the length of the sequence whose left border moves at line %s" % (fn.loc, z.get("l")))
        need = _lin_sub(fs, Kf)
        names = cx.leaf_refs(kids(z)[1], linear_only=True) | cx.leaf_refs(ip[1], linear_only=True)
        names.discard(d)

        def effect2(n):
            d2, ip2 = writes_to(n)
            return "kill" if d2 is not None and d2 in names and n is not z and not ip2 else None
        sf = mustfact.MustFact(fn, g, lambda c, t: any(linear.implies(a_, need) for a_ in L.implied(c, t)), effect2)
        ex = mustfact.MustFact(fn, g, lambda c, t: any(linear.same(a_, need) for a_ in L.implied(c, t)), effect2)
        sig = "%s:%s" % (tag, dtable.describe(z)[:40])
        via = flag_established(cx, z, need, effect2) if sf.before(z) is not True else None
        if via:
            ck.ok("LEFT-BORDER-BOUND", "%s @%s" % (tag, fn.nloc(z)), "a zero left border moves by K exactly when K <= seqlen (carried by the flag %s)" % via)
        elif sf.before(z) is not True:
            cx.unread_guard(z, "the bound of %s" % dtable.describe(z)[:40], names)
            ck.violation("LEFT-BORDER-BOUND", fn.qname, sig,
                         "the left border is moved by %s without a test that the sequence is that long (needs %s >= 0): the border leaves the sequence"
                         % (Ktxt, linear.show(need)), fn.nloc(z))
        elif ex.before(z) is not True:
            ck.violation("LEFT-BORDER-BOUND", fn.qname, sig,
                         "the left border is moved by %s only under a test stronger than `the sequence is that long` (%s >= 0): a sequence of exactly "
                         "that length keeps its border at zero" % (Ktxt, linear.show(need)), fn.nloc(z))
        else:
            ck.ok("LEFT-BORDER-BOUND", "%s @%s" % (tag, fn.nloc(z)), "a zero left border moves by K exactly when K <= seqlen")
        return 1
    n_lb = 0
    for z in fn.nodes():
        ea = elem_add(cx, z) if z["k"] in ("CompoundAssignOperator", "BinaryOperator") else None
        if not ea or ea[0] not in left_arrays:
            continue
        try:
            n_lb += one_move(z, *ea)
        except ir.AnalysisBroken as e:
            unread.append(e)
    if unread:
        raise unread[0]
    return n_lb


# ------------------------------------------------------------------------------------------------ edge scans
def find_scans(cx):
    """an edge scan keeps, in a pointer local V, the extreme of the elements at the border: V = &begin_seqs[i].first[E] in a
    loop.  E of the form x - c is the left edge (maximum wanted), otherwise the right edge (minimum wanted)."""
    if cx._scans is not None:
        return cx._scans
    fn = cx.fn
    scans = {}
    for z in fn.nodes():
        b = match.binop(z, ("=",)) if z["k"] == "BinaryOperator" else None
        if not b:
            continue
        lhs = strip_casts(b[1])
        if lhs["k"] != "DeclRefExpr" or "*" not in (lhs.get("ty") or ""):
            continue
        el = cx.resolve_elem(b[2])
        if el is None:
            continue
        loops = [a_ for a_ in ancestors(fn, z) if a_["k"] in ("ForStmt", "WhileStmt", "DoStmt")]
        if not loops:
            continue
        sc = scans.setdefault((lhs["ref"]["id"], loops[0]["id"]), dict(V=lhs["ref"]["id"], var=lhs["ref"], loop=loops[0], assigns=[], elems=[]))
        sc["assigns"].append(z)
        sc["elems"].append(el)
    out = []
    for sc in scans.values():
        forms = set()
        arrays = set()
        for (X, E), z in zip(sc["elems"], sc["assigns"]):
            f = cx.L.form(E, z)
            if f is None:
                raise dtable.Undecidable("%s: candidate index of the scan for %s is not linear" % (fn.loc, sc["var"]["name"]))
            forms.add(bool(f[0]) and f[1] < 0)
            if not cx.arrays_in(E):
                # `x - c` is the element below a left border only when x is a border element; a local that is written (a border
                # carried in a scalar, a position) tells nothing about the edge by its shape
                raise dtable.Undecidable("%s: the candidate index `%s` of the scan for %s is not built from a border element: the edge it scans "
                                         "cannot be read" % (fn.loc, dtable.describe(E), sc["var"]["name"]))
            arrays |= cx.arrays_in(E)
        if len(forms) != 1:
            raise dtable.Undecidable("%s: scan for %s takes candidates from both edges" % (fn.loc, sc["var"]["name"]))
        sc["want_max"] = forms.pop()
        sc["array"] = list(arrays)[0] if len(arrays) == 1 else None
        out.append(sc)
    cx._scans = out
    return out


def null_atom(n, V):
    """("null", negated) if n tests the pointer local V against null"""
    n0 = strip_casts(n)
    pt = match.ptr_truth(n)
    if pt is None and n0 is not n:
        pt = match.ptr_truth(n0)
    if pt is not None and ref_of(pt) == V:
        return ("null", True)
    if n0["k"] == "DeclRefExpr" and n0["ref"]["id"] == V:
        return ("null", True)
    bb = match.binop(n0, ("==", "!="))
    if bb:
        for l, r in ((bb[1], bb[2]), (bb[2], bb[1])):
            if ref_of(l) == V and (strip_casts(r)["k"] in ("NullPtr", "CXXNullPtrLiteralExpr", "GNUNullExpr") or const_int(r) == 0):
                return ("null", bb[0] == "!=")
    return None


def other_atom(cx, n0, nodes_of):
    """canonical key of a test the table does not interpret: integer inequalities by their linear form (so a > 0, 0 < a,
    !(a <= 0), a >= 1 are one atom), anything else by its text"""
    if match.binop(n0, _CMP):
        at, af = cx.L.atom(n0, True), cx.L.atom(n0, False)
        if at is not None and af is not None:
            kt, kf = "other:" + linear.show(at) + " >= 0", "other:" + linear.show(af) + " >= 0"
            key, neg = (kt, False) if kt <= kf else (kf, True)
            nodes_of.setdefault(key, n0)
            return key, neg
    key = "other:" + dtable.describe(n0)
    nodes_of.setdefault(key, n0)
    return key, False


def _compound(n0):
    return n0["k"] in ("BinaryOperator", "UnaryOperator", "ParenExpr") and n0.get("op") in ("&&", "||", "!", None)


def _is_lexi_callee(tu, c):
    """the callee is the operator() of a pair functor whose decision table was read: it has no effect"""
    if not c.get("record"):
        return False
    try:
        return functor_direction(tu, _functor_key(c["record"], c.get("rtargs") or [])) in (False, True)
    except ir.AnalysisBroken:
        return False


def opaque_events(cx, lf, what, is_write):
    """a leaf whose effects hide a decision cannot be judged by its assignments: a relevant write with a ?: inside the same
    expression, or a project helper / lambda that was not inlined (it may write what it captured)"""
    for ev in lf["events"]:
        if ev[0] != "expr":
            continue
        ys = list(ir.walk(ev[1]))
        for y in ys:
            hidden = False
            if y["k"] == "ConditionalOperator":
                # a write inside an arm, or `x = c ? v : x` (a write that is a no-op on one side)
                hidden = any(is_write(w) for arm in kids(y)[1:] for w in ir.walk(arm))
                par = cx.fn.parent(y)
                while par is not None and par["k"] in _CASTS:
                    par = cx.fn.parent(par)
                if par is not None and is_write(par) and match.binop(par, ("=",)):
                    hidden = hidden or any(match.same_expr(arm, match.binop(par, ("=",))[1]) for arm in kids(y)[1:])
            helper = y["k"] == "LambdaExpr" or ("callee" in y and y.get("op") not in ("[]", "*", "->") and cx.fn.tu.by_did.get(y["callee"].get("did")) is not None
                                                and not _is_lexi_callee(cx.fn.tu, y["callee"]))
            if helper and "callee" in y:
                sub = cx.inline_value(y)
                if sub is not None and not any(writes_to(w)[0] is not None or ("callee" in w and w.get("op") not in ("[]", "*", "->")) for w in ir.walk(sub)):
                    helper = False      # a lambda that only names a value
            if hidden or helper:
                raise dtable.Undecidable("%s: %s: the effect of %s (line %s) is not read by this rule" % (cx.fn.loc, what, dtable.describe(y)[:60], y.get("l")))


def check_pointer_uses(cx, sc):
    """closed world for the scan pointer: inside the loop it is only tested, dereferenced, copied, or assigned a candidate"""
    fn, V = cx.fn, sc["V"]
    name = sc["var"]["name"]
    asg = {z["id"] for z in sc["assigns"]}
    for y in ir.walk(sc["loop"]):
        if y["k"] != "DeclRefExpr" or y["ref"]["id"] != V:
            continue
        c, p = y, fn.parent(y)
        while p is not None and p["k"] in _CASTS:
            c, p = p, fn.parent(p)
        ok = False
        if p is None:
            ok = False
        elif p["k"] == "UnaryOperator" and p.get("op") in ("!", "*"):
            ok = True
        elif p["k"] == "BinaryOperator" and p.get("op") in ("==", "!=", "&&", "||", ","):
            ok = True
        elif p["k"] == "BinaryOperator" and p.get("op") == "=":
            ok = (p["id"] in asg) if kids(p)[0] is c else True
        elif p["k"] in ("IfStmt", "WhileStmt", "ForStmt", "DoStmt", "ConditionalOperator"):
            ok = kids(p)[0 if p["k"] != "DoStmt" else 1] is c or (p["k"] == "ForStmt" and kids(p)[1] is c)
        elif p["k"] == "VarDecl":
            ok = "&" not in (p.get("ty") or "")
        elif "callee" in p and p.get("op") == "*":
            ok = True
        if not ok:
            raise dtable.Undecidable("%s: the scan pointer %s is used at line %s in a form this rule does not read (%s)"
                                     % (fn.loc, name, y.get("l"), dtable.describe(p)[:60] if p is not None else "?"))


def scan_table(cx, sc):
    """The loop body of a scan explored as a decision table over {V is null, comp(candidate, *V), comp(*V, candidate), other
    tests} -> dict(leaves, atoms, others, rows, assigned, nodes_of); cached in the scan"""
    if sc.get("tab") is not None:
        return sc["tab"]
    fn = cx.fn
    V, name = sc["V"], sc["var"]["name"]
    check_pointer_uses(cx, sc)
    body = match.loop_parts(sc["loop"])[3]
    nodes_of = {}

    def atomize(n, run):
        n0 = strip_casts(n)
        na = null_atom(n, V)
        if na:
            return na
        fc = match.functor_call(n0)
        if fc and len(fc[1]) == 2 and ref_of(fc[0]) is not None:
            roles = []
            for a_ in fc[1]:
                d_ = match.deref_of(a_)
                if d_ is not None and ref_of(d_) == V:
                    roles.append("cur")
                elif cx.resolve_elem(a_) is not None:
                    roles.append("x")
                else:
                    roles.append("?")
            if sorted(roles) == ["cur", "x"]:
                return ("lt:%s<%s" % tuple(roles), False)
            if "cur" in roles:
                raise dtable.Undecidable("%s: comparison of %s with something that is not an edge element at line %s" % (fn.loc, name, n0.get("l")))
        if _compound(n0) or n0["k"] == "ConditionalOperator" or n0["k"] == "CXXBoolLiteralExpr":
            return None
        if n0["k"] == "DeclRefExpr" and (n0.get("ty") or "").replace("const ", "") == "bool":
            return None             # a flag: its defining expression (or a flag atom) is used by the interpreter
        return other_atom(cx, n0, nodes_of)
    leaves = dtable.explore(body, atomize, fn)
    asg_ids = {z["id"] for z in sc["assigns"]}

    def assigned(lf):
        return any(ev[0] == "expr" and any(y["id"] in asg_ids for y in ir.walk(ev[1])) for ev in lf["events"])
    for lf in leaves:
        opaque_events(cx, lf, "scan for %s" % name, lambda w: writes_to(w)[0] == V)
    atoms = dtable.atoms_of(leaves)
    others = [a_ for a_ in atoms if a_.startswith("other:") or a_.startswith("flag:")]
    rows = list(dtable.table(leaves, consistent=lambda v: not (v.get("lt:x<cur") and v.get("lt:cur<x")), atoms=atoms))
    sc["tab"] = dict(leaves=leaves, atoms=atoms, others=others, rows=rows, assigned=assigned, nodes_of=nodes_of)
    return sc["tab"]


def eval_scan(cx, sc, tag):
    """decided on the decision table of the scan body (scan_table) -> text of the problem or None"""
    fn = cx.fn
    V, name, want_max = sc["V"], sc["var"]["name"], sc["want_max"]
    tab = scan_table(cx, sc)
    leaves, atoms, others, rows, assigned, nodes_of = (tab[k_] for k_ in ("leaves", "atoms", "others", "rows", "assigned", "nodes_of"))
    LX, LC = "lt:x<cur", "lt:cur<x"
    problem = None
    # null dereference: a leaf that evaluated a comparison against *V while V is null
    for lf in leaves:
        if lf["val"].get("null") is True and any(k.startswith("lt:") for k in lf["val"]):
            problem = "compares a candidate with *%s while %s is still null" % (name, name)
    for ov in itertools.product((False, True), repeat=len(others)):
        sel = [(v, lf) for v, lf in rows if all(v[o] == t for o, t in zip(others, ov))]
        considered = any(assigned(lf) for v, lf in sel)
        if not considered or problem:
            continue
        for v, lf in sel:
            A = assigned(lf)
            if v.get("null"):
                if not A:
                    problem = "does not take the first candidate while %s is null" % name
                continue
            x_lt_cur, cur_lt_x = v.get(LX, None), v.get(LC, None)
            if LX not in atoms and LC not in atoms:
                problem = "replaces %s without comparing" % name if A else problem
                continue
            # with only one direction compared the other outcome is unknown: quantify over it
            strictly_better = cur_lt_x if want_max else x_lt_cur
            strictly_worse = x_lt_cur if want_max else cur_lt_x
            if strictly_worse is True and A:
                problem = "replaces %s by a strictly %s element (%s)" % (name, "smaller" if want_max else "larger", dtable.fmt_val(v))
            if strictly_better is True and not A:
                problem = "keeps %s although the candidate is strictly %s (%s)" % (name, "larger" if want_max else "smaller", dtable.fmt_val(v))
    if problem is None and LX in atoms and LC not in atoms:
        # only comp(x, cur) is asked: for a max scan replace iff !(x < cur); for a min scan replace iff x < cur
        for v, lf in rows:
            if v.get("null") or not any(assigned(l2) for v2, l2 in rows if all(v2[o] == v[o] for o in others)):
                continue
            if assigned(lf) != ((not v[LX]) if want_max else v[LX]):
                problem = "keeps the wrong extreme (%s)" % dtable.fmt_val(v)
    if problem is None and LC in atoms and LX not in atoms:
        for v, lf in rows:
            if v.get("null") or not any(assigned(l2) for v2, l2 in rows if all(v2[o] == v[o] for o in others)):
                continue
            if assigned(lf) != (v[LC] if want_max else (not v[LC])):
                problem = "keeps the wrong extreme (%s)" % dtable.fmt_val(v)
    if problem:
        # the verdict stands only if every test the replacement depends on is one this rule reads: the null test, the
        # comparator, and tests over the candidate's own index operands (its guard)
        allowed = {cx.seqlen_did(), cx.seqs}
        for X, E in sc["elems"]:
            allowed |= cx.leaf_refs(X) | cx.leaf_refs(E)
        unread = unread_relevant(cx, rows, atoms, others, nodes_of, allowed, assigned)
        if unread:
            raise dtable.Undecidable("%s: whether %s is replaced depends on `%s`, which this rule cannot read (otherwise: %s)"
                                     % (fn.loc, name, unread[len("other:"):] if unread.startswith("other:") else unread, problem))
    return problem


def visit_order(cx, sc):
    """+1 / -1: the sequence index of the scan's candidate grows / falls from one iteration of the scan loop to the next,
    read from the loop: the index is linear in exactly one local that the loop steps once per iteration by a constant of
    one sign (++i, i += c, i = i + c, --i, ...).  Anything else is `cannot decide`."""
    fn, L = cx.fn, cx.L
    name = sc["var"]["name"]
    loop = sc["loop"]
    init, cond, inc, body = match.loop_parts(loop)
    inside = {y["id"] for y in ir.walk(loop)}
    dirs = set()
    for (X, E), z in zip(sc["elems"], sc["assigns"]):
        f = L.form(X, z)
        leaves = {}
        for d_ in cx.leaf_refs(X, linear_only=True):
            nm = cx.name(d_) if d_ in L.decls else next((p_.get("name") for p_ in fn.params if p_["did"] == d_), None)
            leaves.setdefault(nm, set()).add(d_)
        # every term is a plain variable; exactly one of them is written inside the loop, the others are constants there
        moving = []
        for term, k in (f[0].items() if f is not None else []):
            ds = leaves.get(term)
            if not ds or len(ds) != 1:
                moving = None
                break
            d_ = next(iter(ds))
            if any(w["id"] in inside for w in L.writes.get(d_, [])):
                moving.append((d_, term, k))
        if f is None or not moving or len(moving) != 1:
            raise dtable.Undecidable("%s: the sequence index `%s` of the candidate for %s is not linear in one loop variable" % (fn.loc, dtable.describe(X), name))
        d, term, k = moving[0]
        for y in ir.walk(loop):
            if y["k"] == "LambdaExpr" and any(c_.get("id") == d and c_.get("byref") for c_ in y.get("captures", [])):
                raise dtable.Undecidable("%s: the loop variable of the scan for %s is captured by reference at line %s" % (fn.loc, name, y.get("l")))
        ws = [w for w in L.writes.get(d, []) if w["id"] in inside and not (init is not None and any(y is w for y in ir.walk(init)))]
        if len(ws) != 1:
            raise dtable.Undecidable("%s: the loop variable %s of the scan for %s is written %d times inside the loop" % (fn.loc, cx.name(d), name, len(ws)))
        w = ws[0]
        step = None
        u = match.unop(w, ("++", "--"))
        if u and ref_of(u[1]) == d:
            step = 1 if u[0] == "++" else -1
        b = match.binop(w, ("+=", "-=", "=")) if w["k"] in ("BinaryOperator", "CompoundAssignOperator") else None
        if b and ref_of(b[1]) == d:
            if b[0] in ("+=", "-="):
                c = const_int(b[2])
                if c:
                    step = (1 if c > 0 else -1) * (1 if b[0] == "+=" else -1)
            else:
                fr = L.form(b[2], w)
                if fr is not None and len(fr[0]) == 1 and fr[0].get(term) == 1 and fr[1] != 0 and ref_of(match.strip_conv(b[2])) is None:
                    step = 1 if fr[1] > 0 else -1
        if step is None:
            raise dtable.Undecidable("%s: the step `%s` of the scan loop for %s is not a constant increment / decrement" % (fn.loc, dtable.describe(w)[:40], name))
        # executed exactly once per iteration: the increment of a for loop, an unconditional part of the loop condition, or
        # a statement of the loop body itself in a loop without `continue`
        top = w
        par = fn.parent(top)
        while par is not None and (par["k"] in _CASTS or (par["k"] == "BinaryOperator" and par.get("op") == ",")):
            top, par = par, fn.parent(par)
        in_inc = inc is not None and any(y is w for y in ir.walk(inc)) and (top is inc or par is loop)
        in_body = par is body and body is not None and body["k"] == "CompoundStmt" and \
            not any(y["k"] in ("ContinueStmt", "GotoStmt") for y in ir.walk(body))
        in_cond = cond is not None and any(y is w for y in unconditional(cond))
        if not (in_inc or in_body or in_cond):
            raise dtable.Undecidable("%s: cannot tell that `%s` runs once per iteration of the scan loop for %s" % (fn.loc, dtable.describe(w)[:40], name))
        dirs.add((1 if k > 0 else -1) * step)
    if len(dirs) != 1:
        raise dtable.Undecidable("%s: the candidates of the scan for %s are visited in no single order" % (fn.loc, name))
    return dirs.pop()


def tie_problem(cx, sc, S):
    """The winner of this maximum scan is kept together with its sequence index S, and the pair is compared
    lexicographically by (key, sequence index): it must be the lexicographic maximum of the edge, i.e. among equal keys the
    highest sequence index.  Visiting the sequences in increasing order a tie must replace the winner, in decreasing order
    it must not.  Decided on the tie rows of the scan's decision table -> text or None"""
    fn = cx.fn
    name, sname = sc["var"]["name"], cx.name(S)
    tab = scan_table(cx, sc)
    atoms, others, rows, assigned, nodes_of = (tab[k_] for k_ in ("atoms", "others", "rows", "assigned", "nodes_of"))
    LX, LC = "lt:x<cur", "lt:cur<x"
    if LX not in atoms and LC not in atoms:
        raise dtable.Undecidable("%s: the scan for %s compares nothing: its behaviour on equal keys cannot be read" % (fn.loc, name))
    order = visit_order(cx, sc)
    want = order > 0            # increasing sequence index: the later of two equal keys wins
    bad = None
    n_tie = 0
    for ov in itertools.product((False, True), repeat=len(others)):
        sel = [(v, lf) for v, lf in rows if all(v[o] == t for o, t in zip(others, ov))]
        if not any(assigned(lf) for v, lf in sel):
            continue            # the candidate's guard is false: nothing is considered
        for v, lf in sel:
            if v.get("null") or v.get(LX) or v.get(LC):
                continue
            # neither strictly smaller nor strictly larger as far as the scan asks: the row that equal keys take
            n_tie += 1
            if assigned(lf) != want and bad is None:
                bad = v
    if not n_tie:
        raise dtable.Undecidable("%s: no row of the scan for %s is taken by equal keys" % (fn.loc, name))
    if bad is None:
        return None
    allowed = {cx.seqlen_did(), cx.seqs}
    for X, E in sc["elems"]:
        allowed |= cx.leaf_refs(X) | cx.leaf_refs(E)
    unread = unread_relevant(cx, rows, atoms, others, nodes_of, allowed, assigned)
    if unread:
        raise dtable.Undecidable("%s: whether %s is replaced on equal keys depends on `%s`, which this rule cannot read"
                                 % (fn.loc, name, unread[len("other:"):] if unread.startswith("other:") else unread))
    return ("(%s, %s) is compared lexicographically by (key, sequence index), so among equal keys it must be the element of the highest sequence; "
            "the candidates are visited in %s sequence index but on a tie (%s) the scan %s %s: it keeps the %s of the equal elements"
            % (name, sname, "increasing" if order > 0 else "decreasing", dtable.fmt_val({k_: t for k_, t in bad.items() if k_.startswith("lt:")}),
               "keeps" if want else "replaces", name, "lowest sequence"))


def unread_relevant(cx, rows, atoms, others, nodes_of, allowed, outcome):
    """an uninterpreted atom on which the outcome depends and which is not a test over the allowed operands"""
    index = {tuple(v[a_] for a_ in atoms): lf for v, lf in rows}
    for o in others:
        oi = atoms.index(o)
        dep = False
        for key, lf in index.items():
            k2 = key[:oi] + (not key[oi],) + key[oi + 1:]
            if k2 in index and outcome(index[k2]) != outcome(lf):
                dep = True
                break
        if not dep:
            continue
        node = nodes_of.get(o)
        if node is None or not (cx.leaf_refs(node) <= allowed) or any("callee" in y and y.get("op") not in ("[]", "*") for y in ir.walk(node)):
            return o
    return None


def check_edge_scans(ck, cx, tag):
    fn = cx.fn
    scans = find_scans(cx)
    nbad = 0
    unread = []
    for sc in scans:
        try:
            problem = eval_scan(cx, sc, tag)
        except ir.AnalysisBroken as e:      # one scan that cannot be read does not hide what another one shows
            unread.append(e)
            continue
        sc["problem"] = problem
        if problem:
            name, want_max = sc["var"]["name"], sc["want_max"]
            ck.violation("EDGE-TIEBREAK", fn.qname, "%s:%s" % (tag, name), "the scan for %s (%s of the %s edge) %s"
                         % (name, "maximum" if want_max else "minimum", "left" if want_max else "right", problem), fn.nloc(sc["assigns"][0]))
            nbad += 1
    if unread:
        raise unread[0]
    ck.require(len(scans) >= 3, "%s: edge scans not found" % fn.loc)
    if not nbad:
        ck.ok("EDGE-TIEBREAK", tag, "%d edge scans keep the maximum of the left edge / minimum of the right edge, decided on the "
              "truth table of each scan body (first candidate taken, replaced iff strictly better in the kept direction; ties are free here and "
              "decided separately for a winner that is kept with its sequence index)" % len(scans))


def border_arrays(cx):
    """(left border array, right border array): the containers the maximum-of-the-left-edge / minimum-of-the-right-edge scans
    index their candidates with"""
    scans = find_scans(cx)
    A = {sc["array"] for sc in scans if sc["want_max"]}
    B = {sc["array"] for sc in scans if not sc["want_max"]}
    if len(A) != 1 or len(B) != 1 or None in A or None in B or A == B:
        raise dtable.Undecidable("%s: the border arrays cannot be told from the edge scans" % cx.fn.loc)
    return A.pop(), B.pop()


# ------------------------------------------------------------------------------------------------ priority queues
def _rank_sign(cx, e, sign=1):
    """+1 / -1 if e is a sum in which exactly one summand grows with the rank parameter and it enters with that sign"""
    found = []

    def has_rank(n):
        return any(y["k"] == "DeclRefExpr" and y["ref"]["id"] == cx.rank for y in ir.walk(n))

    def flat(n, s):
        n = match.strip_conv(n)
        while n is not None and n["k"] in _CASTS and kids(n):
            n = match.strip_conv(kids(n)[0])
        if n is None:
            return
        if n["k"] == "BinaryOperator" and n.get("op") in ("+", "-"):
            flat(kids(n)[0], s)
            flat(kids(n)[1], s if n["op"] == "+" else -s)
        elif n["k"] == "UnaryOperator" and n.get("op") in ("-", "+"):
            flat(kids(n)[0], -s if n["op"] == "-" else s)
        elif n["k"] == "BinaryOperator" and n.get("op") == "/" and has_rank(kids(n)[0]) and not has_rank(kids(n)[1]):
            flat(kids(n)[0], s)
        elif ref_of(n) == cx.rank:
            found.append(s)
        elif has_rank(n):
            found.append(None)
    flat(e, sign)
    return found[0] if len(found) == 1 else None


def find_skew(cx, pqs):
    """the local that is defined once from the rank parameter (rank / step - left size) and whose sign tests dominate both
    queues -> (declaration, {queue id: True if the left side is too small there})"""
    fn, g, L = cx.fn, cx.g, cx.L
    defs = {}
    for v in fn.nodes():
        if v["k"] == "VarDecl" and v.get("did") is not None and kids(v) and kids(v)[0] is not None:
            defs.setdefault(v["did"], []).append(kids(v)[0])
        b = match.binop(v, ("=",)) if v["k"] == "BinaryOperator" else None
        if b and strip_casts(b[1])["k"] == "DeclRefExpr":
            d_ = ref_of(b[1])
            if any(y["k"] == "DeclRefExpr" and y["ref"]["id"] == d_ for y in ir.walk(b[2])):
                continue            # x = x - 1: a step (kills the sign facts like --x), not a definition
            defs.setdefault(d_, []).append(b[2])
    zero = {"k": "IntegerLiteral", "id": -22, "val": 0, "ty": "int"}
    found = []
    for did, es in defs.items():
        decl = L.decls.get(did)
        if decl is None or len(es) != 1:
            continue
        sgn = _rank_sign(cx, es[0])
        if sgn is None:
            continue
        ref = {"k": "DeclRefExpr", "id": -21, "ref": {"id": did, "name": decl.get("name"), "kind": "local"}, "ty": decl.get("ty")}
        need = {"gt": L.req(ref, zero, True), "ge": L.req(ref, zero, False), "lt": L.req(zero, ref, True), "le": L.req(zero, ref, False)}

        def writes_it(n, did=did):
            d_, ip_ = writes_to(n)
            return "kill" if d_ == did else None

        def ne_edge(c, t, did=did, need=need):
            c0 = strip_casts(c)
            while c0 is not None and (c0["k"] == "ParenExpr" or (c0["k"] == "UnaryOperator" and c0.get("op") == "!")):
                if c0["k"] == "UnaryOperator":
                    t = not t
                c0 = strip_casts(kids(c0)[0])
            b_ = match.binop(c0, ("==", "!="))
            if b_ and ((ref_of(b_[1]) == did and const_int(b_[2]) == 0) or (ref_of(b_[2]) == did and const_int(b_[1]) == 0)):
                return (b_[0] == "!=") == t
            if c0 is not None and ref_of(c0) == did:
                return t            # `if (skew)`
            return any(linear.implies(a_, need["gt"]) or linear.implies(a_, need["lt"]) for a_ in L.implied(c, t))
        facts = {k_: mustfact.MustFact(fn, g, lambda c, t, k_=k_, need=need: any(linear.implies(a_, need[k_]) for a_ in L.implied(c, t)), writes_it)
                 for k_ in need}
        facts["ne"] = mustfact.MustFact(fn, g, ne_edge, writes_it)
        res = {}
        for pq in pqs:
            at = lambda k_: facts[k_].before(pq) is True
            if at("gt") or (at("ge") and at("ne")):
                res[pq["id"]] = sgn > 0
            elif at("lt") or (at("le") and at("ne")):
                res[pq["id"]] = sgn < 0
        if len(res) == len(pqs):
            found.append((decl, res))
    ck_msg = "%s: the skew (a local defined from the rank parameter whose sign decides both priority queues) was not recognised" % fn.loc
    if len(found) != 1:
        raise dtable.Undecidable(ck_msg + " (%d candidates)" % len(found))
    return found[0]


_HEAP_ALGOS = ("push_heap", "pop_heap", "make_heap", "sort_heap", "is_heap", "is_heap_until")


def heap_vectors(cx):
    """local containers that the standard heap algorithms are applied to as a whole (X.begin(), X.end()[, comp])
    -> {declaration id: [calls]}; a heap algorithm over another kind of range is `cannot decide`"""
    fn = cx.fn
    out = {}
    for z in fn.nodes():
        if "callee" not in z or z.get("member_call") or z["callee"]["name"] not in _HEAP_ALGOS or not (z["callee"].get("qname") or "").startswith("std::"):
            continue
        conts = []
        for a, nm in zip(kids(z)[:2], ("begin", "end")):
            a0 = match.strip_conv(a)
            if a0 is not None and a0.get("member_call") and a0["callee"]["name"] == nm and len(kids(a0)) == 1 and ref_of(kids(a0)[0]) in cx.L.decls:
                conts.append(ref_of(kids(a0)[0]))
        if len(conts) != 2 or conts[0] != conts[1]:
            raise dtable.Undecidable("%s: std::%s at line %s runs over a range this rule cannot read" % (fn.loc, z["callee"]["name"], z.get("l")))
        out.setdefault(conts[0], []).append(z)
    return out


def _template_args(ty):
    """the top-level template arguments of a type written as name<a, b<c, d>, e>"""
    ty = ty or ""
    if "<" not in ty or not ty.rstrip().endswith(">"):
        return []
    inner = ty[ty.index("<") + 1:ty.rstrip().rindex(">")]
    out, depth, cur = [], 0, ""
    for ch in inner:
        if ch in "<([":
            depth += 1
        elif ch in ">)]":
            depth -= 1
        if ch == "," and depth == 0:
            out.append(cur.strip())
            cur = ""
        else:
            cur += ch
    if cur.strip():
        out.append(cur.strip())
    return out


def check_pq(ck, cx, tag):
    """priority queues: skew > 0 -> smallest right candidate first (lexicographic_rev as max-heap comparator), fed from the
    right border; skew < 0 -> largest left element first (lexicographic), fed from the left border - 1"""
    fn = cx.fn
    heaps = heap_vectors(cx)
    pqs = [x for x in fn.nodes() if x["k"] == "VarDecl" and (x.get("ty", "").startswith("std::priority_queue<") or x.get("did") in heaps)]
    ck.require(len(pqs) == 2, "%s: two priority queues expected" % fn.loc)
    skew, orient = find_skew(cx, pqs)
    try:
        (A, B), ab_err = border_arrays(cx), None
    except ir.AnalysisBroken as e:
        (A, B), ab_err = (None, None), e

    uses_of, well_read = {}, []

    def one_pq(pq):
        skew_pos = orient[pq["id"]]
        par = fn.parent(pq)
        while par is not None and par["k"] != "CompoundStmt":
            par = fn.parent(par)
        cmp_ty = pq["ty"]
        if pq.get("did") in heaps:
            tys = {(strip_casts(kids(c)[2]).get("ty") or "").replace("const ", "") if len(kids(c)) == 3 else None for c in heaps[pq["did"]]}
            if len(tys) != 1 or None in tys:
                raise dtable.Undecidable("%s: the heap algorithms on %s (line %s) do not all receive one comparator" % (fn.loc, pq.get("name"), pq.get("l")))
            cmp_ty = tys.pop()
        else:
            targs = _template_args(cmp_ty)
            if len(targs) != 3:
                raise dtable.Undecidable("%s: the priority queue at line %s does not name its comparator type" % (fn.loc, pq.get("l")))
            cmp_ty = targs[2]
        rev = functor_direction(fn.tu, cmp_ty)
        if rev is None:
            raise dtable.Undecidable("%s: comparator type of the priority queue at line %s is not one of the two lexicographic functors" % (fn.loc, pq.get("l")))
        if rev == "neither":
            raise dtable.Undecidable("%s: the comparator of the priority queue at line %s computes neither of the two lexicographic orders (see LEXI-TABLE)" % (fn.loc, pq.get("l")))
        want_rev = bool(skew_pos)

        def show_src(s):
            return sorted((cx.name(d) if d is not None else "the %s border" % ("left" if low else "right")) + ("-1" if low else "") for d, low in s)

        def report(src_txt):
            ck.violation("PQ-ORIENT", fn.qname, "%s:skew%s" % (tag, ">0" if skew_pos else "<0"),
                         "when the left side is too %s the queue must deliver the %s candidate first (comparator %s) and be fed from %s; found %s fed from %s"
                         % ("small" if skew_pos else "large", "smallest right" if skew_pos else "largest left", "lexicographic_rev" if want_rev else "lexicographic",
                            show_src({(B, False)} if skew_pos else {(A, True)}), "lexicographic_rev" if rev else "lexicographic", src_txt), fn.nloc(pq))
            return True
        try:
            if ab_err is not None:
                raise ab_err
            src = pq_sources(pq, par)
        except ir.AnalysisBroken:
            if rev != want_rev:
                return report("a source this rule cannot read")      # the comparator alone is positive evidence
            raise
        want_src = {(B, False)} if skew_pos else {(A, True)}
        if rev != want_rev or src != want_src:
            # positive: the comparator is a concrete type, every pushed element is a recognised border element
            return report(show_src(src))
        well_read.append(pq)
        return False

    def stmt_and_siblings(n):
        """(statement that holds n, the statement before it, the statement after it) inside its compound statement"""
        st, par_ = n, fn.parent(n)
        while par_ is not None and par_["k"] != "CompoundStmt":
            if par_["k"] in ("IfStmt", "ForStmt", "WhileStmt", "DoStmt", "SwitchStmt"):
                return st, None, None       # a single statement under a branch: it has no neighbours
            st, par_ = par_, fn.parent(par_)
        if par_ is None:
            return st, None, None
        sibs = [s_ for s_ in kids(par_) if s_ is not None]
        i = [j for j, s_ in enumerate(sibs) if s_ is st][0]
        return st, (sibs[i - 1] if i > 0 else None), (sibs[i + 1] if i + 1 < len(sibs) else None)

    def is_stmt_call(st, names, did, member):
        """statement st is exactly  X.name(..)  (member) /  std::name(X.begin(), X.end(), ..)  on the container did"""
        e = st
        while e is not None and e["k"] in _CASTS and kids(e):
            e = kids(e)[0]
        if e is None or "callee" not in e or e["callee"]["name"] not in names:
            return False
        if member:
            return bool(e.get("member_call")) and ref_of(kids(e)[0]) == did
        return not e.get("member_call") and any(c is e for c in heaps.get(did, []))

    def pq_sources(pq, par):
        feeds = []
        pops, tops = [], []
        is_heap = pq.get("did") in heaps
        for y in ir.walk(par):
            if y["k"] != "DeclRefExpr" or y["ref"]["id"] != pq["did"]:
                continue
            p = fn.parent(y)
            while p is not None and p["k"] in _CASTS:
                p = fn.parent(p)
            if p is None or not p.get("member_call") or strip_casts(kids(p)[0]) is not y:
                raise dtable.Undecidable("%s: the priority queue is handed to %s (line %s), which this rule cannot read"
                                         % (fn.loc, dtable.describe(p)[:50] if p is not None else "?", y.get("l")))
            nm = p["callee"]["name"]
            if is_heap:
                # a vector kept in heap order is a priority queue exactly when it is used the way std::priority_queue is
                # specified: push = push_back + push_heap, pop = pop_heap + pop_back, top = front
                st, prev, nxt = stmt_and_siblings(p)
                what = None
                if nm in ("push_back", "emplace_back"):
                    feeds.append(p)
                    if not is_stmt_call(st, (nm,), pq["did"], True) or nxt is None or not is_stmt_call(nxt, ("push_heap",), pq["did"], False):
                        what = "%s is not directly followed by std::push_heap over the whole container" % nm
                elif nm == "pop_back":
                    pops.append(p)
                    if not is_stmt_call(st, (nm,), pq["did"], True) or prev is None or not is_stmt_call(prev, ("pop_heap",), pq["did"], False):
                        what = "pop_back is not directly preceded by std::pop_heap over the whole container"
                elif nm in ("begin", "end"):
                    q = fn.parent(p)
                    while q is not None and q["k"] in _CASTS + ("CXXConstructExpr",):
                        q = fn.parent(q)
                    if q is None or not any(c is q for c in heaps[pq["did"]]):
                        what = "an iterator of the container is used outside the heap algorithms"
                    elif q["callee"]["name"] == "push_heap" and (prev is None or not is_stmt_call(prev, ("push_back", "emplace_back"), pq["did"], True)):
                        what = "std::push_heap does not directly follow a push_back"
                    elif q["callee"]["name"] == "pop_heap" and (nxt is None or not is_stmt_call(nxt, ("pop_back",), pq["did"], True)):
                        what = "std::pop_heap is not directly followed by pop_back"
                    elif q["callee"]["name"] not in ("push_heap", "pop_heap"):
                        what = "std::%s is not one of the two steps of a priority queue" % q["callee"]["name"]
                elif nm not in ("front", "empty", "size", "reserve"):
                    what = "member %s is not one this rule reads" % nm
                if nm == "front":
                    tops.append(p)
                if what:
                    raise dtable.Undecidable("%s: the container %s is kept in heap order by hand, but not in the way of std::priority_queue: %s (line %s)"
                                             % (fn.loc, pq.get("name"), what, p.get("l")))
                continue
            if nm in ("push", "emplace"):
                feeds.append(p)
            elif nm == "pop":
                pops.append(p)
            elif nm == "top":
                tops.append(p)
            elif nm not in ("top", "pop", "empty", "size"):
                raise dtable.Undecidable("%s: priority_queue::%s (line %s) is not a member this rule reads" % (fn.loc, nm, p.get("l")))
        if not feeds:
            raise dtable.Undecidable("%s: nothing is pushed into the priority queue declared at line %s" % (fn.loc, pq.get("l")))
        src = set()
        pushed = []
        uses_of[pq["id"]] = {"push": pushed, "pop": pops, "top": tops}
        for y in feeds:
            els = [cx.is_access(z) for a_ in kids(y)[1:] for z in ir.walk(a_)]
            els = [e_ for e_ in els if e_]
            if not els:
                # the element through a reference / pointer local: emplace(cand, i) or push(pair(cand, i))
                args = list(kids(y)[1:])
                if len(args) == 1:
                    args = pair_parts(cx, args[0], y) or args
                els = [e_ for e_ in (cx.resolve_elem(a_) for a_ in args) if e_]
            if len(els) != 1:
                raise dtable.Undecidable("%s: cannot see which element is pushed at line %s" % (fn.loc, y.get("l")))
            f = cx.L.form(els[0][1], y)
            arrs = cx.arrays_in(els[0][1])
            if f is None or len(arrs) != 1:
                raise dtable.Undecidable("%s: index of the element pushed at line %s is not a border +- constant" % (fn.loc, y.get("l")))
            src.add((list(arrs)[0], bool(f[0]) and f[1] < 0))
            pushed.append((y, els[0][0], els[0][1]))
        return src
    bad = 0
    unread = []
    for pq in pqs:
        try:
            bad += 1 if one_pq(pq) else 0
        except ir.AnalysisBroken as e:      # a queue that cannot be read does not hide what the other one shows
            unread.append(e)
    cx._pq_info = {"borders": (A, B), "queues": [(pq, orient[pq["id"]], uses_of[pq["id"]]) for pq in well_read], "complete": not unread and not bad}
    if unread:
        raise unread[0]
    if not bad:
        ck.ok("PQ-ORIENT", tag, "skew > 0: min-first queue over b[]; skew < 0: max-first queue over a[] - 1")


def check_pq_refill(ck, cx, tag):
    """PQ-REFILL: during a correction round the queue holds one candidate - the element at the border - for every sequence whose
    border element exists.  A round pops the candidate of one sequence and moves that sequence's border; before the queue is
    popped again the new border element of that sequence has to be pushed, unless it does not exist.  Decided by a path search
    over the CFG of the round (from the pop back to the pop, not through the queue's declaration): a cycle that passes neither a
    push of the border element of the moved sequence nor a branch edge implying that this element does not exist (canonical
    linear inequality, read after the last write to the border) is a counterexample: that sequence has lost its candidate, so
    of two consecutive blocks of one sequence only the first can ever be taken in this correction."""
    fn, g, L = cx.fn, cx.g, cx.L
    info = cx._pq_info
    if info is None:
        raise dtable.Undecidable("%s: the priority queues were not read (see PQ-ORIENT), so their refill cannot be decided" % fn.loc)
    A, B = info["borders"]
    zero = {"k": "IntegerLiteral", "id": -23, "val": 0, "ty": "int"}

    def pos(n, what):
        p_ = g.pos_deep(n)
        if p_ is None:
            raise dtable.Undecidable("%s: %s (line %s) has no position in the control-flow graph" % (fn.loc, what, n.get("l")))
        return p_

    def cond_parts(c):
        c = strip_casts(c)
        while c is not None and (c["k"] == "ParenExpr" or (c["k"] == "UnaryOperator" and c.get("op") == "!")):
            c = strip_casts(kids(c)[0])
        if c is not None and c["k"] == "BinaryOperator" and c.get("op") in ("&&", "||"):
            return cond_parts(kids(c)[0]) + cond_parts(kids(c)[1])
        return [c] if c is not None else []

    def one(pq, skew_pos, uses):
        Bd = B if skew_pos else A
        low = not skew_pos
        side = "left" if low else "right"
        pD = pos(pq, "the queue's declaration")
        pops = [(p_, pos(p_, "the pop")) for p_ in uses["pop"]]
        tops = [pos(t_, "the queue's top") for t_ in uses["top"]]
        rounds = [(p_, pp) for p_, pp in pops if g.path_between_avoiding(pp, pp, [pD]) is not None]
        if len(rounds) != 1:
            raise dtable.Undecidable("%s: the correction loop of the queue declared at line %s (one pop per round) was not recognised (%d pops in a loop)"
                                     % (fn.loc, pq.get("l"), len(rounds)))
        P, pP = rounds[0]

        def in_round(p_):
            return p_ == pP or (g.path_between_avoiding(pP, p_, [pD]) is not None and g.path_between_avoiding(p_, pP, [pD]) is not None)
        def is_border_elem(e):
            e = strip_casts(e)
            while e is not None and (e["k"] == "ParenExpr" or (e["k"] == "UnaryOperator" and e.get("op") == "&")):
                e = strip_casts(kids(e)[0])
            ip = match.index_parts(e) if e is not None else None
            return bool(ip) and ref_of(ip[0]) == Bd
        # the border array is only touched by subscripts: no reference / pointer to one of its elements is kept
        for v in L.decls.values():
            ty = (v.get("ty") or "").rstrip()
            if (ty.endswith("&") or "*" in ty) and kids(v) and kids(v)[0] is not None and is_border_elem(kids(v)[0]):
                raise dtable.Undecidable("%s: %s (line %s) refers to an element of the %s border, which may be moved through it" % (fn.loc, v.get("name"), v.get("l"), side))
        for y in fn.nodes():
            if y["k"] == "UnaryOperator" and y.get("op") == "&" and is_border_elem(kids(y)[0]):
                raise dtable.Undecidable("%s: the address of an element of the %s border is taken at line %s" % (fn.loc, side, y.get("l")))
        # the sequence whose border the round moves
        moved = {}
        for w in L.writes.get(Bd, []):
            pw = pos(w, "a write to the border")
            if not in_round(pw):
                continue
            ip = writes_to(w)[1]
            fx = L.form(ip[1], w) if ip else None
            if fx is None:
                raise dtable.Undecidable("%s: the write to the %s border at line %s is not to one element with a linear index" % (fn.loc, side, w.get("l")))
            moved.setdefault(linear.show(fx), []).append((w, pw, ip))
        if len(moved) != 1:
            raise dtable.Undecidable("%s: a correction round of the queue declared at line %s moves the %s border of %d sequences; one expected"
                                     % (fn.loc, pq.get("l"), side, len(moved)))
        (key, ws), = moved.items()
        w0, _, ip0 = ws[0]
        elem, X = strip_casts(match.binop(w0, ("=", "+=", "-=", "*=", "/=", "%=", ">>=", "<<="))[1] if not match.unop(w0, ("++", "--")) else match.unop(w0, ("++", "--"))[1]), ip0[1]
        want_term = "%s[%s]" % (cx.name(Bd), key)

        def own_border_element(y, Xp, Ep):
            """the pushed element is exactly the border element of its own sequence -> printed sequence index"""
            f, fx = L.form(Ep, y), L.form(Xp, y)
            if f is None or fx is None or len(f[0]) != 1 or list(f[0].values()) != [1] or f[1] != (-1 if low else 0) or \
                    list(f[0])[0] != "%s[%s]" % (cx.name(Bd), linear.show(fx)):
                raise dtable.Undecidable("%s: the element pushed at line %s is not read as the %s border element of its own sequence (index %s, sequence %s)"
                                         % (fn.loc, y.get("l"), side, linear.show(f), linear.show(fx)))
            return linear.show(fx)
        refills = []
        for y, Xp, Ep in uses["push"]:
            k_ = own_border_element(y, Xp, Ep)      # outside the round too: on entry the queue holds one candidate per sequence
            py = pos(y, "a push")
            if in_round(py):
                if k_ != key:
                    raise dtable.Undecidable("%s: the round moves the border of sequence %s but pushes an element of sequence %s (line %s)" % (fn.loc, key, k_, y.get("l")))
                refills.append((y, py))
        # branch edges in the round that imply `the border element of the moved sequence does not exist`
        gone = L.req(elem, cx.seqlen_at(X), False, use=w0) if not low else L.req(zero, elem, False, use=w0)
        if gone is None:
            raise dtable.Undecidable("%s: no linear form for `the %s border element of sequence %s does not exist`" % (fn.loc, side, key))
        blocked, conds = [], []
        for bid, blk in g.blocks.items():
            els = g.elements(bid)
            raw = blk.get("succ", [])
            if len(raw) != 2 or not els or not isinstance(els[-1], int) or blk.get("term") is None or raw[0] == raw[1]:
                continue
            c = fn.byid(els[-1])
            if c is None or not in_round((bid, len(els) - 1)):
                continue
            conds.append(c)
            for t, s_ in ((True, raw[0]), (False, raw[1])):
                if s_ is not None and any(linear.implies(a_, gone) for a_ in L.implied(c, t)):
                    blocked.append((bid, s_, c))
        # a push or a test that is followed by another move of the border (before the queue is read again) tells nothing
        stops = [pD] + [pp for _, pp in pops] + tops
        w_pos = [pw for _, pw, _ in ws]
        for what, start, line in [("push", py, y.get("l")) for y, py in refills] + [("test", (s_, -1), c.get("l")) for _, s_, c in blocked]:
            if any(g.path_between_avoiding(start, pw, stops) is not None for pw in w_pos):
                raise dtable.Undecidable("%s: the %s at line %s precedes a move of the %s border in the same round: whether the queue is refilled cannot be read"
                                         % (fn.loc, what, line, side))
        path = g.path_between_avoiding(pP, pP, [pD] + [py for _, py in refills], blocked_edges=[(b_, s_) for b_, s_, _ in blocked])
        if path is None:
            return 0
        # closed world: every other branch of the round is either an inequality this rule has read and that does not speak of
        # the moved border, or cannot concern it
        for c in conds:
            for c0 in cond_parts(c):
                read = match.binop(c0, _CMP) and L.atom(c0, True) is not None
                about = Bd in cx.leaf_refs(c0) or (read and any(t_ == want_term for t_, _ in L.atom(c0, True)[0]))
                if read and any(c is bc for _, _, bc in blocked):
                    continue
                is_flag = c0["k"] == "DeclRefExpr" and (c0.get("ty") or "").replace("const ", "") == "bool"
                is_helper = "callee" in c0 and fn.tu.by_did.get(c0["callee"].get("did")) is not None
                if is_flag or is_helper or about:
                    raise dtable.Undecidable("%s: whether the queue is refilled after the pop at line %s may depend on %s (line %s), which this rule cannot read"
                                             % (fn.loc, P.get("l"), dtable.describe(c0), c0.get("l")))
        # the cycle has to be feasible: two of its branches over one variable (`if (skew > 1 && ..) push` under the loop's
        # `skew != 0`: the skipped push is that of the last round) may exclude each other, which this rule does not evaluate
        seen_vars = {}
        params = {p_["did"]: p_ for p_ in fn.params}

        def vars_of(e, depth=0):
            """variables a condition reads; a never-written scalar local stands for its initialiser as well"""
            out = set()
            for y in ir.walk(e):
                if y["k"] != "DeclRefExpr":
                    continue
                d_ = y["ref"]["id"]
                out.add(d_)
                v = L.decls.get(d_)
                words = ((v.get("ty") or "") if v is not None else "").replace("const", " ").replace("&", " ").split()
                scalar = bool(words) and all(w_ in ("long", "int", "unsigned", "signed", "short", "char", "bool", "size_t", "std::size_t", "ptrdiff_t", "std::ptrdiff_t", "diff_type") for w_ in words)
                if v is not None and scalar and kids(v) and kids(v)[0] is not None and d_ not in L.writes and depth < 4 and \
                        not any("callee" in z and not (z["k"] == "CXXOperatorCallExpr" and z.get("op") == "[]") for z in ir.walk(kids(v)[0])):
                    out |= vars_of(kids(v)[0], depth + 1)
            return out
        for b_ in set(path):
            els_, raw_ = g.elements(b_), g.blocks[b_].get("succ", [])
            if len(raw_) != 2 or not els_ or not isinstance(els_[-1], int) or g.blocks[b_].get("term") is None or raw_[0] == raw_[1]:
                continue
            c_ = fn.byid(els_[-1])
            for d_ in (vars_of(c_) if c_ is not None else set()):
                if d_ not in L.decls and d_ not in params:
                    continue            # a function (operator[], a member): not a variable
                if d_ in seen_vars and seen_vars[d_] is not c_:
                    raise dtable.Undecidable("%s: the round that does not refill the queue (pop at line %s) passes two branches over %s (lines %s and %s); "
                                             "whether they can be taken together is not evaluated" % (fn.loc, P.get("l"), cx.name(d_) if d_ in L.decls else params[d_].get("name"), seen_vars[d_].get("l"), c_.get("l")))
                seen_vars[d_] = c_
        lines = []
        for b_ in path:
            for el in g.elements(b_):
                n_ = fn.byid(el) if isinstance(el, int) else None
                if n_ is not None and n_.get("l") is not None and n_["l"] not in lines:
                    lines.append(n_["l"])
        ck.violation("PQ-REFILL", fn.qname, "%s:skew%s" % (tag, ">0" if skew_pos else "<0"),
                     "a correction round pops the candidate of a sequence (line %s) and moves its %s border (%s, line %s), and can reach the next pop "
                     "(through lines %s) without pushing the new border element begin_seqs[%s].first[%s] and without a test that it does not exist "
                     "(%s >= 0): sequence %s has no candidate left in the queue although its next block may exist, so when the first and the second of the %s blocks "
                     "both belong to one sequence (skew >= 2, e.g. sequences of lengths 1, 2, 3) the second is taken from another sequence or not at all "
                     "and the split is not at the requested rank"
                     % (P.get("l"), side, dtable.describe(w0)[:40], w0.get("l"), ",".join(str(x) for x in sorted(lines)), key,
                        want_term + ("-1" if low else ""), linear.show(gone), key, "largest left" if low else "smallest right"), fn.nloc(P))
        return 1
    bad, unread = 0, []
    for pq, skew_pos, uses in info["queues"]:
        try:
            bad += one(pq, skew_pos, uses)
        except ir.AnalysisBroken as e:       # a queue that cannot be read does not hide what the other one shows
            unread.append(e)
    if unread:
        raise unread[0]
    if not bad and info["complete"]:
        ck.ok("PQ-REFILL", tag, "every correction round pushes the new border element of the sequence it moved, or passes a test that it does not exist, before the next pop")


# ------------------------------------------------------------------------------------------------ middle decision
def pair_parts(cx, e, use):
    """(first, second) of a std::pair built in place: pair(a, b), make_pair(a, b), or a never-written local so initialised"""
    e = cx.unalias(match.strip_conv(e), use)
    e = match.strip_conv(e)
    for _ in range(3):
        if e is None:
            return None
        if e["k"] in ("CXXConstructExpr", "CXXTemporaryObjectExpr") and len(kids(e)) == 2 and "pair" in (e.get("ty") or ""):
            return kids(e)
        c2 = match.call_named(e, ("make_pair",))
        if c2 is not None and "callee" in e and len(kids(c2)) == 2:
            return kids(c2)
        if e["k"] in _CASTS and kids(e):
            e = match.strip_conv(kids(e)[0])
        else:
            return None
    return None


def check_middle(ck, cx, tag):
    """MIDDLE-LEXI (partition only): in the refinement loop the probe element of sequence i moves the left border iff
    (probe, i) < (left maximum, its sequence) lexicographically.  The loop body is a decision table over {left maximum is
    null, pair comparison / key comparisons, sequence-index comparison, other tests}; the variable that carries the sequence
    of the left maximum must be set together with the maximum in its scan."""
    fn, L = cx.fn, cx.L
    A, B = border_arrays(cx)
    maxscans = {sc["V"]: sc for sc in find_scans(cx) if sc["want_max"]}
    sites = []
    for y in fn.nodes():
        fc = match.functor_call(y)
        if not fc or len(fc[1]) != 2:
            continue
        args = []
        for a_ in fc[1]:
            args += list(pair_parts(cx, a_, y) or [a_])
        for V, sc in maxscans.items():
            derefs = [z for a_ in args for z in ir.walk(a_) if match.deref_of(z) is not None and ref_of(match.deref_of(z)) == V]
            if derefs and not any(a_ is sc["loop"] for a_ in ancestors(fn, y)):
                sites.append((y, V))
    # only the outermost call of a nest counts
    sites = [(y, V) for y, V in sites if not any(y2 is not y and any(z is y for z in ir.walk(y2)) for y2, _ in sites)]
    if not sites:
        raise dtable.Undecidable("%s: refinement decision (a comparison of a probe element with the maximum of the left edge) not found" % fn.loc)
    Vs = {V for _, V in sites}
    loops = {([a_ for a_ in ancestors(fn, y) if a_["k"] in ("ForStmt", "WhileStmt", "DoStmt")] or [{"id": None}])[0]["id"] for y, _ in sites}
    if len(Vs) != 1 or len(loops) != 1 or None in loops:
        raise dtable.Undecidable("%s: the comparisons with the left maximum are spread over several loops / maxima" % fn.loc)
    V = Vs.pop()
    sc = maxscans[V]
    vname = sc["var"]["name"]
    loop = [a_ for a_ in ancestors(fn, sites[0][0]) if a_["id"] in loops][0]
    body = match.loop_parts(loop)[3]
    nodes_of = {}
    info = dict(S=set(), probe=[], mismatch=None)
    for y, _ in sites:
        for a_ in match.functor_call(y)[1]:
            pp = pair_parts(cx, a_, y)
            el = cx.resolve_elem((pp or [a_])[0]) if match.deref_of((pp or [a_])[0]) is None else None
            if el is not None:
                info["probe"].append(el)

    def seq_role(e, use):
        """'x' if e is the sequence index of a probe seen so far, 'cur' if it is a local (candidate for the sequence of the maximum)"""
        for X, E in info["probe"]:
            fa, fb = L.form(e, use), L.form(X, use)
            if match.same_expr(e, X) or (fa is not None and fa == fb):
                return "x", None
        d = ref_of(cx.unalias(e, use)) if ref_of(e) is not None else None
        if d is not None and d in L.decls:
            return "cur", d
        return "?", None

    def atomize(n, run):
        n0 = strip_casts(n)
        na = null_atom(n, V)
        if na:
            return na
        fc = match.functor_call(n0)
        if fc and len(fc[1]) == 2:
            cdir = functor_direction(fn.tu, _functor_key(n0["callee"]["record"], n0["callee"].get("rtargs") or [])) \
                if "callee" in n0 and n0["callee"].get("record") else None
            if cdir == "neither":
                raise dtable.Undecidable("%s: the pair comparison at line %s computes neither of the two lexicographic orders (see LEXI-TABLE)" % (fn.loc, n0.get("l")))
            if cdir is not None:
                roles = []
                for a_ in fc[1]:
                    pp = pair_parts(cx, a_, n0)
                    if not pp:
                        raise dtable.Undecidable("%s: argument of the pair comparison at line %s is not a pair built in place" % (fn.loc, n0.get("l")))
                    el = cx.resolve_elem(pp[0]) if match.deref_of(pp[0]) is None else None
                    d_ = match.deref_of(pp[0])
                    if d_ is not None and ref_of(d_) == V:
                        roles.append(("cur", pp[1]))
                    elif el is not None:
                        info["probe"].append(el)
                        roles.append(("x", pp[1], el))
                    else:
                        raise dtable.Undecidable("%s: the pair compared at line %s holds neither a sequence element nor *%s" % (fn.loc, n0.get("l"), vname))
                if sorted(r[0] for r in roles) != ["cur", "x"]:
                    raise dtable.Undecidable("%s: the pair comparison at line %s does not compare a probe with *%s" % (fn.loc, n0.get("l"), vname))
                for r in roles:
                    kind, d_ = seq_role(r[1], n0)
                    if r[0] == "x" and kind != "x":
                        # positive only if the partner is recognisably something else: a variable the scan for the maximum sets
                        if kind == "cur" and any(any(a2 is sc["loop"] for a2 in ancestors(fn, w)) for w in L.writes.get(d_, [])):
                            info["mismatch"] = "the probe element of sequence %s is paired with `%s`" % (dtable.describe(r[2][0]), dtable.describe(r[1]))
                        else:
                            raise dtable.Undecidable("%s: cannot tell whether `%s` is the sequence of the probe element at line %s"
                                                     % (fn.loc, dtable.describe(r[1]), n0.get("l")))
                    elif r[0] == "cur" and kind == "x":
                        info["mismatch"] = "the left maximum *%s is paired with `%s`, the sequence of the probe element" % (vname, dtable.describe(r[1]))
                    elif r[0] == "cur" and kind != "cur":
                        raise dtable.Undecidable("%s: cannot tell what `%s` is paired with *%s at line %s" % (fn.loc, dtable.describe(r[1]), vname, n0.get("l")))
                    elif r[0] == "cur":
                        info["S"].add(d_)
                x_first = roles[0][0] == "x"
                return ("P:x<cur", False) if x_first == (not cdir) else ("P:cur<x", False)
            if ref_of(fc[0]) is not None:
                roles = []
                for a_ in fc[1]:
                    d_ = match.deref_of(a_)
                    if d_ is not None and ref_of(d_) == V:
                        roles.append("cur")
                    elif d_ is None and cx.resolve_elem(a_) is not None:
                        info["probe"].append(cx.resolve_elem(a_))
                        roles.append("x")
                    else:
                        roles.append("?")
                if sorted(roles) == ["cur", "x"]:
                    return ("K:%s<%s" % tuple(roles), False)
                if "cur" in roles:
                    raise dtable.Undecidable("%s: comparison of *%s with something that is not a sequence element at line %s" % (fn.loc, vname, n0.get("l")))
        b = match.binop(n0, _CMP)
        if b and info["probe"]:
            ra, rb = seq_role(b[1], n0), seq_role(b[2], n0)
            if sorted((ra[0], rb[0])) == ["cur", "x"]:
                info["S"].add(ra[1] if ra[0] == "cur" else rb[1])
                op = b[0] if ra[0] == "x" else _MIRROR[b[0]]
                return {"<": ("S:x<cur", False), ">": ("S:cur<x", False), "<=": ("S:cur<x", True), ">=": ("S:x<cur", True)}[op]
        if _compound(n0) or n0["k"] in ("ConditionalOperator", "CXXBoolLiteralExpr"):
            return None
        if n0["k"] == "DeclRefExpr" and (n0.get("ty") or "").replace("const ", "") == "bool":
            return None
        return other_atom(cx, n0, nodes_of)
    leaves = dtable.explore(body, atomize, fn)
    for lf in leaves:
        opaque_events(cx, lf, "refinement decision", lambda w: writes_to(w)[0] in (A, B))

    def went_left(lf):
        return any(ev[0] == "expr" and any(writes_to(y)[0] == A and writes_to(y)[1] for y in ir.walk(ev[1])) for ev in lf["events"])
    atoms = dtable.atoms_of(leaves)
    has_p = any(a_.startswith("P:") for a_ in atoms)
    has_k = any(a_.startswith("K:") or a_.startswith("S:") for a_ in atoms)
    if has_p == has_k:
        raise dtable.Undecidable("%s: the refinement decision mixes pair and key comparisons (or has neither)" % fn.loc)
    if has_k:
        atoms += [a_ for a_ in ("K:x<cur", "K:cur<x", "S:x<cur") if a_ not in atoms]
    others = [a_ for a_ in atoms if a_.startswith("other:") or a_.startswith("flag:")]

    def consistent(v):
        return not (v.get("P:x<cur") and v.get("P:cur<x")) and not (v.get("K:x<cur") and v.get("K:cur<x")) and not (v.get("S:x<cur") and v.get("S:cur<x"))

    def lexi_less(v):
        if has_p:
            return v.get("P:x<cur") if "P:x<cur" in v else None
        return v["K:x<cur"] or (not v["K:cur<x"] and v["S:x<cur"])
    rows = list(dtable.table(leaves, consistent=consistent, atoms=atoms))
    problem = None
    any_left = False
    for ov in itertools.product((False, True), repeat=len(others)):
        sel = [(v, lf) for v, lf in rows if all(v[o] == t for o, t in zip(others, ov)) and not v.get("null")]
        if not any(went_left(lf) for v, lf in sel):
            continue
        any_left = True
        for v, lf in sel:
            want = lexi_less(v)
            if want is None:
                # only (cur, x) is asked of the pair order: x < cur is then unknown when cur < x is false
                want = False if v.get("P:cur<x") else None
            if want is not None and went_left(lf) != want and problem is None:
                problem = v
    if not any_left:
        raise dtable.Undecidable("%s: no path of the refinement loop raises the left border" % fn.loc)
    c = sites[0][0]
    if problem is not None or info["mismatch"]:
        allowed = {cx.seqlen_did(), cx.seqs, A, B}
        for X, E in info["probe"]:
            allowed |= cx.leaf_refs(X) | cx.leaf_refs(E)
        unread = unread_relevant(cx, rows, atoms, others, nodes_of, allowed, went_left) if problem is not None else None
        if unread:
            raise dtable.Undecidable("%s: whether the left border is raised depends on `%s`, which this rule cannot read" % (fn.loc, unread))
        if info["mismatch"]:
            ck.violation("MIDDLE-LEXI", fn.qname, tag, "the refinement does not compare (element, its sequence) with (left maximum, its sequence): %s"
                         % info["mismatch"], fn.nloc(c))
        elif has_k and not any(a_.startswith("S:") for a_ in dtable.atoms_of(leaves)):
            ck.violation("MIDDLE-LEXI", fn.qname, tag, "the refinement compares the probe element with the left maximum by key only: equal elements are split "
                         "without regard to their sequence index (unstable partition)", fn.nloc(c))
        else:
            ck.violation("MIDDLE-LEXI", fn.qname, tag, "the refinement does not move an element left exactly when (element, sequence) < (left maximum, its "
                         "sequence): wrong for %s" % dtable.fmt_val({k_: t for k_, t in problem.items() if not k_.startswith("other:")}), fn.nloc(c))
        return
    # the sequence of the left maximum is set wherever the maximum is set
    if len(info["S"]) != 1:
        raise dtable.Undecidable("%s: the variable that holds the sequence of the left maximum is not unique" % fn.loc)
    S = info["S"].pop()
    stale = pairing_problem(cx, sc, S)
    if stale:
        ck.violation("MIDDLE-LEXI", fn.qname, tag, "the refinement compares the probe element with the left maximum by key only: equal elements are split "
                     "without regard to their sequence index (unstable partition) - %s" % stale, fn.nloc(c))
        return
    ck.ok("MIDDLE-LEXI", tag, "an element goes left iff (element, sequence) < (left maximum, its sequence) lexicographically")
    # (left maximum, its sequence) must then be the lexicographic maximum of the left edge
    if sc.get("problem"):
        return                  # the scan is already reported by EDGE-TIEBREAK
    tie = tie_problem(cx, sc, S)
    if tie:
        ck.violation("EDGE-TIEBREAK", fn.qname, "%s:%s:ties" % (tag, vname), "the scan for %s (maximum of the left edge, kept with its sequence): %s" % (vname, tie),
                     fn.nloc(sc["assigns"][-1]))
    else:
        ck.ok("EDGE-TIEBREAK", "%s %s ties" % (tag, vname), "kept with its sequence index %s and compared lexicographically: among equal keys the scan keeps the "
              "highest sequence index (visiting order read from the loop, tie rows of the scan's decision table)" % cx.name(S))


def pairing_problem(cx, sc, S):
    """every assignment V = &begin_seqs[X].first[..] of the scan is accompanied by S = X among the statements that are
    executed unconditionally with it up to the end of the iteration (or directly before it).  -> text if for one of them
    nothing sets S at all on that way (positive), None if all are accompanied; Undecidable if S is only set under a condition
    of its own, to something else, or in a form this rule does not read"""
    fn, L = cx.fn, cx.L
    sname, vname = cx.name(S), sc["var"]["name"]
    for w in L.writes.get(S, []):
        inside = any(a_ is sc["loop"] for a_ in ancestors(fn, w))
        if not inside or not (w["k"] == "BinaryOperator" and w.get("op") == "="):
            raise dtable.Undecidable("%s: %s is written at line %s %s" % (fn.loc, sname, w.get("l"), "in a form this rule does not read" if inside
                                                                     else "outside the scan that sets %s" % vname))

    def sets_s(stmt, X, use):
        """True: stmt always sets S = X; None: it may write S (conditionally / another value); False: it does not touch S"""
        hit = False
        for y in unconditional(stmt):
            b = match.binop(y, ("=",)) if y["k"] == "BinaryOperator" else None
            if b and ref_of(b[1]) == S:
                fa, fb = L.form(b[2], y), L.form(X, use)
                if match.same_expr(b[2], X) or (fa is not None and fa == fb):
                    hit = True
                else:
                    return None
        if hit:
            return True
        return None if any(writes_to(y)[0] == S for y in ir.walk(stmt)) else False

    def jumps(stmt):
        return any(y["k"] in ("BreakStmt", "ContinueStmt", "ReturnStmt", "GotoStmt", "CXXThrowExpr") for y in unconditional(stmt))
    for z, (X, E) in zip(sc["assigns"], sc["elems"]):
        # the statement that holds z, then what follows it on the way out of the nest
        st = z
        while fn.parent(st) is not None and fn.parent(st)["k"] not in ("CompoundStmt", "IfStmt", "WhileStmt", "ForStmt", "DoStmt"):
            st = fn.parent(st)
        if not any(y is z for y in unconditional(st)):
            raise dtable.Undecidable("%s: %s is assigned inside a conditional expression at line %s" % (fn.loc, vname, z.get("l")))
        run_ = [st]
        before = []
        node, first, done = st, True, False
        while not done:
            par = fn.parent(node)
            if par is None or par is sc["loop"]:
                break
            if par["k"] == "CompoundStmt":
                sibs = kids(par)
                i = [j for j, s_ in enumerate(sibs) if s_ is node][0]
                if first:
                    for s_ in reversed(sibs[:i]):
                        if s_ is None or s_["k"] in ("IfStmt", "WhileStmt", "ForStmt", "DoStmt", "SwitchStmt") and sets_s(s_, X, z) is False:
                            break
                        before.append(s_)
                    first = False
                for s_ in sibs[i + 1:]:
                    if s_ is None:
                        continue
                    run_.append(s_)
                    if jumps(s_):
                        done = True
                        break
            elif par["k"] in ("WhileStmt", "ForStmt", "DoStmt"):
                raise dtable.Undecidable("%s: %s is assigned inside a nested loop at line %s" % (fn.loc, vname, z.get("l")))
            else:
                first = False
            node = par
        def same_flag(s_):
            """s_ is `if (f) S = X;` and z sits in the then-branch of an `if (f)` of its own, f a bool local that is never written"""
            if s_["k"] != "IfStmt" or len(kids(s_)) > 2 and kids(s_)[2] is not None:
                return False
            f = ref_of(kids(s_)[0])
            v = L.decls.get(f) if f is not None else None
            if v is None or f in L.writes or (v.get("ty") or "").replace("const ", "") != "bool" or sets_s(kids(s_)[1], X, z) is not True:
                return False
            for a_ in ancestors(fn, z):
                if a_ is sc["loop"]:
                    break
                if a_["k"] == "IfStmt" and ref_of(kids(a_)[0]) == f and any(y is z for y in ir.walk(kids(a_)[1])):
                    return True
            return False
        verdict = False
        for s_ in run_ + before:
            r = sets_s(s_, X, z)
            if r is None and same_flag(s_):
                r = True
            if r is True:
                verdict = True
                break
            if r is None:
                verdict = None
                break
        if verdict is None:
            raise dtable.Undecidable("%s: cannot tell whether %s is set together with %s at line %s" % (fn.loc, sname, vname, z.get("l")))
        if verdict is False:
            return "%s is replaced at line %s but %s keeps the sequence of the previous maximum until the end of the iteration" % (vname, z.get("l"), sname)
    return None


from rules.parcommon import comparator_sources, STD_ORDER_ALGOS  # noqa: E402


# number of arguments of the overloads without a comparator
_PLAIN_ARITY = {"lower_bound": 3, "upper_bound": 3, "equal_range": 3, "binary_search": 3, "sort": 2, "stable_sort": 2, "partial_sort": 3,
                "nth_element": 3, "merge": 5, "inplace_merge": 3, "min_element": 2, "max_element": 2, "minmax_element": 2, "is_sorted": 2,
                "includes": 4, "push_heap": 2, "pop_heap": 2, "make_heap": 2, "sort_heap": 2, "min": 2, "max": 2, "lexicographical_compare": 4}


def _int_elements(ty):
    """the first template argument of a container type is a plain integer type"""
    if "<" not in ty:
        return False
    rest, depth, arg = ty[ty.index("<") + 1:], 0, ""
    for ch in rest:
        if ch in "<(":
            depth += 1
        elif ch in ">)" and depth > 0:
            depth -= 1
        elif ch in ",>" and depth == 0:
            break
        arg += ch
    words = arg.replace("const", " ").split()
    return bool(words) and all(w in ("long", "int", "unsigned", "signed", "short", "char", "size_t", "std::size_t", "ptrdiff_t", "std::ptrdiff_t") for w in words)


def check_comp_threaded(ck, cx, tag):
    """COMP-THREADED as in rules/parcommon.py (every ordering algorithm of the standard library called on the user's elements
    receives the user's order), with a closed world for ranges that do not hold user elements: a range over the table of
    sequence lengths or over a border array (integers this function computed) is not an ordering of user elements; a range
    over another local container of integers is `cannot decide`."""
    fn = cx.fn
    comp = [fn.params[4]["did"]]
    src = set()
    for c in comp:
        src |= comparator_sources(fn, c)
    own = {cx.seqlen_did()} - {None}
    try:
        own |= set(border_arrays(cx))
    except ir.AnalysisBroken:
        pass
    n = 0
    for z in fn.nodes():
        if "callee" not in z or not z["callee"]["qname"].startswith("std::") or z["callee"]["name"] not in STD_ORDER_ALGOS:
            continue
        if z.get("member_call"):
            continue
        # calls on plain integers (std::min of two sizes) do not order user elements
        argtys = [(a.get("ty") or "") for a in kids(z)]
        if z["callee"]["name"] in ("min", "max") and all(("long" in t or "int" in t) and "iterator" not in t for t in argtys):
            continue
        def closure_of(x):
            """the lambda expression a never-written closure local stands for"""
            v = cx.L.decls.get(x["ref"]["id"]) if x["k"] == "DeclRefExpr" else None
            e = kids(v)[0] if v is not None and kids(v) and x["ref"]["id"] not in cx.L.writes else None
            while e is not None and e["k"] in _CASTS + ("CXXConstructExpr",) and len(kids(e)) == 1:
                e = kids(e)[0]
            return e if e is not None and e["k"] == "LambdaExpr" else None
        uses = any((x["k"] == "DeclRefExpr" and x["ref"]["id"] in src) or
                   (x["k"] == "LambdaExpr" and any(c_.get("id") in src for c_ in x.get("captures", []))) or
                   (closure_of(x) is not None and any(c_.get("id") in src for c_ in closure_of(x).get("captures", [])))
                   for a in kids(z) for x in ir.walk(a))
        if not uses and len(kids(z)) > _PLAIN_ARITY.get(z["callee"]["name"], 99):
            raise dtable.Undecidable("%s: std::%s at line %s receives an ordering that this rule cannot trace to the caller's comparator"
                                     % (fn.loc, z["callee"]["name"], z.get("l")))
        if not uses:
            # which containers do the range arguments walk over?
            conts, plain = set(), True
            for a in kids(z):
                a0 = match.strip_conv(a)
                if a0 is not None and a0.get("member_call") and a0["callee"]["name"] in ("begin", "end", "cbegin", "cend", "data") and \
                        ref_of(kids(a0)[0]) in cx.L.decls:
                    conts.add(ref_of(kids(a0)[0]))
                else:
                    plain = False
            if plain and conts and conts <= own:
                continue            # lengths / border positions computed here, not user elements
            if plain and conts and all(_int_elements(cx.L.decls[d].get("ty") or "") for d in conts):
                raise dtable.Undecidable("%s: std::%s at line %s runs over %s, a local container of integers whose contents this rule does not know"
                                         % (fn.loc, z["callee"]["name"], z.get("l"), ", ".join(sorted(cx.name(d) for d in conts))))
        n += 1
        if not uses:
            ck.violation("COMP-THREADED", fn.qname, "%s:%s" % (tag, z["callee"]["name"]),
                         "std::%s() is called without the caller's comparator and falls back to operator<: with any other order (std::greater, "
                         "key projections) the position it returns is meaningless" % z["callee"]["name"], fn.nloc(z))
        else:
            ck.ok("COMP-THREADED", "%s std::%s" % (tag, z["callee"]["name"]), "receives the caller's order", nontrivial=False)
    return n


# ------------------------------------------------------------------------------------------------ signedness
def _sign_test(n):
    """declaration-reference operand x if n is a test whose outcome depends on x being negative: x < 0, 0 > x, x >= 0, 0 <= x,
    x <= -1, x > -1 (and mirror images)"""
    b = match.binop(n, _CMP) if n["k"] == "BinaryOperator" else None
    if not b:
        return None
    op, l, r = b
    if ref_of(r) is not None and const_int(l) is not None and ref_of(l) is None:
        op, l, r = _MIRROR[op], r, l
    c = const_int(r)
    if ref_of(l) is None or c is None:
        return None
    if (op in ("<", ">=") and c == 0) or (op in ("<=", ">") and c == -1):
        return l
    return None


def _implicit_sign_tests(cx):
    """Sign tests that are spelled in two steps: a branch edge that is taken exactly when a local x is negative although no
    single comparison says `x < 0` -
        * the edge establishes x <= 0 (the false edge of `x > 0`, the true edge of `x < 1`, ..) while x != 0 holds on every
          path to the condition (`if (x == 0) continue; if (x > 0) {..} else {..}`), or
        * the edge establishes x != 0 while x <= 0 (and not x < 0) holds on every path to the condition
          (`if (x > 0) {..} else if (x != 0) {..}`).
    Facts are canonical linear inequalities carried by a must-fact dataflow over the CFG and killed by every write to x; x
    must be a local that is only read as a value or written by a recognised assignment / step (closed world: no address,
    reference or by-reference capture), otherwise `cannot decide`.
    -> [(declaration id, condition node, truth of the edge, successor block of the edge, block of the condition, text)]"""
    fn, g, L = cx.fn, cx.g, cx.L
    zero = {"k": "IntegerLiteral", "id": -24, "val": 0, "ty": "int"}
    conds = []
    for p in g.blocks:
        raw = g.blocks[p].get("succ", [])
        els = g.elements(p)
        if len(raw) != 2 or raw[0] == raw[1] or None in raw or not els or not isinstance(els[-1], int) or g.blocks[p].get("term") is None:
            continue
        c = fn.byid(els[-1])
        if c is not None:
            conds.append((p, len(els) - 1, c, raw))

    def ne_of(c, t, did):
        """the condition taken with t is exactly / implies x != 0 (as in find_skew)"""
        c0 = strip_casts(c)
        while c0 is not None and (c0["k"] == "ParenExpr" or (c0["k"] == "UnaryOperator" and c0.get("op") == "!")):
            if c0["k"] == "UnaryOperator":
                t = not t
            c0 = strip_casts(kids(c0)[0])
        if c0 is None:
            return False
        b_ = match.binop(c0, ("==", "!=")) if c0["k"] == "BinaryOperator" else None
        if b_ and ((ref_of(b_[1]) == did and const_int(b_[2]) == 0) or (ref_of(b_[2]) == did and const_int(b_[1]) == 0)):
            return (b_[0] == "!=") == t
        if ref_of(c0) == did:
            return t
        return False

    cands = set()
    for p, i, c, raw in conds:
        for y in ir.walk(c):
            if y["k"] == "DeclRefExpr" and y["ref"]["id"] in L.decls and y["ref"].get("kind") == "local":
                cands.add(y["ref"]["id"])
    out = []
    for did in sorted(cands):
        decl = L.decls[did]
        ref = {"k": "DeclRefExpr", "id": -23, "ref": {"id": did, "name": decl.get("name"), "kind": "local"}, "ty": decl.get("ty")}
        le, lt = L.req(zero, ref, False), L.req(zero, ref, True)
        if le is None or lt is None:
            continue

        def est(c, t, what):
            return any(linear.implies(a_, what) for a_ in L.implied(c, t))
        hits = []
        for p, i, c, raw in conds:
            for t in (True, False):
                if est(c, t, lt):
                    continue                        # an explicit sign test: read by _sign_test
                if est(c, t, le) or ne_of(c, t, did):
                    hits.append((p, i, c, raw, t, "le" if est(c, t, le) else "ne"))
        if not hits:
            continue

        def writes_it(n, did=did):
            if n["k"] == "VarDecl" and n.get("did") == did:
                return "kill"
            return "kill" if writes_to(n)[0] == did else None
        f_ne = f_le = f_lt = None
        for p, i, c, raw, t, kind in hits:
            if f_ne is None:
                f_ne = mustfact.MustFact(fn, g, lambda c_, t_, did=did: ne_of(c_, t_, did) or est(c_, t_, lt) or
                                         est(c_, t_, L.req(ref, zero, True)), writes_it)
                f_le = mustfact.MustFact(fn, g, lambda c_, t_: est(c_, t_, le), writes_it)
                f_lt = mustfact.MustFact(fn, g, lambda c_, t_: est(c_, t_, lt), writes_it)
            before = lambda f: f.state.get((p, i)) is True
            if before(f_lt):
                continue                            # already known negative: this test decides nothing about the sign
            if (kind == "le" and before(f_ne)) or (kind == "ne" and before(f_le)):
                out.append((did, c, t, raw[0] if t else raw[1], p,
                            "`%s` %s with %s %s established before it" % (dtable.describe(c)[:60], "taken" if t else "not taken", decl.get("name"),
                                                                          "!= 0" if kind == "le" else "<= 0")))
    # closed world for the locals found: read as a value or written by a recognised write, nothing else
    for did in {o[0] for o in out}:
        targets = set()
        for z in fn.nodes():
            d_, ip_ = writes_to(z)
            if d_ == did and ip_ is None:
                w = match.unop(z, ("++", "--")) or match.binop(z, ("=", "+=", "-=", "*=", "/=", "%=", ">>=", "<<=", "&=", "|=", "^="))
                targets.add(strip_casts(w[1])["id"])
        for y in fn.nodes():
            if y["k"] == "LambdaExpr" and any(c_.get("id") == did and c_.get("byref") for c_ in y.get("captures", [])):
                raise dtable.Undecidable("%s: %s, whose sign is tested in two steps, is captured by reference (line %s)" % (fn.loc, cx.name(did), y.get("l")))
            if y["k"] != "DeclRefExpr" or y["ref"]["id"] != did:
                continue
            par = fn.parent(y)
            while par is not None and (par["k"] == "ParenExpr" or par["k"] in _CASTS):
                par = fn.parent(par)
            if y["id"] in targets:
                continue
            if par is not None and ((par["k"] == "BinaryOperator" and par.get("op") in Cx._ARITH) or
                                    (par["k"] == "UnaryOperator" and par.get("op") in ("-", "+", "~", "!")) or
                                    par["k"] in ("IfStmt", "WhileStmt", "ForStmt", "DoStmt", "ConditionalOperator")):
                continue                            # read as a value (the extractor drops lvalue-to-rvalue conversions)
            raise dtable.Undecidable("%s: %s, whose sign is tested in two steps, is used at line %s in a way this rule cannot read (%s)"
                                     % (fn.loc, cx.name(did), y.get("l"), dtable.describe(par)[:50] if par is not None else "?"))
    return out


def check_signed_tests(ck, cx, tag):
    """a local whose sign is tested (x < 0, x > 0 with both outcomes handled) must have a signed type in every instantiation"""
    fn = cx.fn
    n = 0
    for did, c, t, succ, blk, txt in _implicit_sign_tests(cx):
        decl = cx.L.decls[did]
        ty = (decl.get("ty") or "")
        n += 1
        if "unsigned" not in ty:
            ck.ok("SIGN-TEST-SIGNED", "%s %s" % (tag, decl.get("name")), "type %s (sign tested in two steps: %s)" % (ty, txt))
            continue
        pd = cx.g.pdom()
        if blk in pd and succ in pd[blk]:
            # no statement hangs on the edge: in an unsigned type the test is redundant, and whether the other side is meant
            # to run for a wrapped value cannot be told from the code
            raise dtable.Undecidable("%s: %s (type %s) is tested for its sign in two steps (%s), but nothing runs on the negative edge"
                                     % (fn.loc, decl.get("name"), ty, txt))
        # positive: the declared type in this instantiation; the edge that needs a negative value has code of its own
        ck.violation("SIGN-TEST-SIGNED", fn.qname, "%s:%s" % (tag, decl.get("name")),
                     "%s: this edge decides a branch of the refinement and is taken only for %s < 0, but in this instantiation `%s` has type %s: "
                     "the difference wraps, the branch is dead and the other one runs with a huge value" % (txt, decl.get("name"), decl.get("name"), ty),
                     fn.nloc(c))
    for z in fn.nodes():
        l = _sign_test(z)
        if l is None:
            continue
        d = ref_of(l)
        decl = cx.L.decls.get(d)
        if decl is None:
            continue
        n += 1
        ty = (decl.get("ty") or "")
        if "unsigned" in ty:
            # positive: the declared type in this instantiation
            ck.violation("SIGN-TEST-SIGNED", fn.qname, "%s:%s" % (tag, decl.get("name")),
                         "`%s < 0` decides a branch of the refinement, but in this instantiation `%s` has type %s: the difference wraps, the branch is dead "
                         "and the other one runs with a huge value" % (decl.get("name"), decl.get("name"), ty), fn.nloc(z))
        else:
            ck.ok("SIGN-TEST-SIGNED", "%s %s" % (tag, decl.get("name")), "type %s" % ty)
    return n


# ------------------------------------------------------------------------------------------------ drivers
def check_function(ck, fn, tag, is_partition, comp_threaded=False):
    """all rules for one instantiation; a rule that cannot read its construct is deferred and does not hide what the others find"""
    cx = Cx(fn)
    ck.guarded(lambda: check_index_guards(ck, cx, tag))
    ck.guarded(lambda: check_pq(ck, cx, tag))
    ck.guarded(lambda: check_pq_refill(ck, cx, tag))
    ck.guarded(lambda: check_edge_scans(ck, cx, tag))
    if is_partition:
        ck.guarded(lambda: check_middle(ck, cx, tag))
    if comp_threaded:
        ck.guarded(lambda: check_comp_threaded(ck, cx, tag))
    ck.guarded(lambda: check_signed_tests(ck, cx, tag))


def check_partition_in(ck, tu):
    """the C08 rules for whatever multisequence_partition / multisequence_selection instantiations a translation unit
    contains (used by C07 and C06, whose exact splitting stands on the partition)"""
    check_lexi(ck, tu)
    fps, fss = tu.find(qname=PART), tu.find(qname=SEL)
    n = 0
    for fp in fps:
        check_function(ck, fp, "partition<%s>" % fp.targs[1], True)
        for fs in [f for f in fss if f.targs[2] == fp.targs[1]][:1]:
            check_function(ck, fs, "selection<%s>" % fs.targs[2], False)
        n += 1
    return n


def run(ck):
    ck.explanation = (
        "The numeric refinement (halving, skew correction, returned ranks) is not decidable statically. Decided necessary conditions: the two "
        "tie-break comparators are the strict lexicographic (value, sequence index) order and its reverse (decision tables); the skew-correction "
        "queues have the right orientation and source; the edge scans keep maximum / minimum, and the scan whose winner is compared as a (value, sequence index) pair keeps the highest sequence among "
        "equal keys (found by two seeded changes: `!comp(x, max)` rewritten as `comp(max, x)`); the partition's refinement decision compares "
        "(element, sequence) pairs (found and fixed: it compared keys only, so runs of equal elements were split against the sequence order); every "
        "element access is reached only over branch edges that establish index < seqlen (or index - 1 with index > 0), one of them being exactly "
        "that bound, so no existing candidate is skipped; a left border that is still zero moves by K exactly when K <= seqlen; every standard ordering algorithm called inside receives the caller's comparator (COMP-THREADED); locals whose "
        "sign is tested are signed in every instantiation, including an unsigned rank type (SIGN-TEST-SIGNED). Violations are reported on positive "
        "evidence only (a table row, a recognised element of the wrong edge, a concrete type, a fully read path); a construct the rules cannot read "
        "is `cannot decide`.")
    types = ["int"] if ck.tier == "quick" else ["int", "std::string"]
    for t in types:
        tu = ir.extract("witness/C08_partition.cpp", defines=["WITNESS_T=" + t], extra_flags=["-include", "string"])
        check_lexi(ck, tu)
        fps, fss = tu.some(qname=PART), tu.some(qname=SEL)
        ck.require(len(fps) == 2 and len(fss) == 2, "expected the signed/less and the unsigned/greater instantiation of both functions")

        def rank_ty(fn, isp):
            return fn.targs[1] if isp else fn.targs[2]
        for fp in fps:
            fs = [f for f in fss if rank_ty(f, False) == rank_ty(fp, True)][0]
            suffix = "<%s>" % rank_ty(fp, True)
            for fn, tag, isp in ((fp, "partition" + suffix, True), (fs, "selection" + suffix, False)):
                check_function(ck, fn, tag, isp, comp_threaded=True)
    m = len(types)
    ck.floor("LEXI-TABLE", 4 * m)
    ck.floor("INDEX-GUARD", 4 * m)
    ck.floor("PQ-ORIENT", 4 * m)
    ck.floor("PQ-REFILL", 4 * m)
    ck.floor("EDGE-TIEBREAK", 4 * m)
    ck.floor("MIDDLE-LEXI", 2 * m)
    ck.floor("GUARD-EXACT", 4 * m)
    ck.floor("LEFT-BORDER-BOUND", 4 * m)
    ck.floor("COMP-THREADED", 4 * m)
    ck.floor("SIGN-TEST-SIGNED", 2 * m)
