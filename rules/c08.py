"""C08 — multisequence partition / selection: lexicographic tie-break comparators,
orientation of the priority queues and edge scans, stable middle decision, index
guards, twin agreement of the two copies."""
from engine import ir, dtable, match, mustfact, linear, cfg as cfgm
from engine.ir import kids, strip_casts, const_int, ref_of

PART = "tlx::multisequence_partition"
SEL = "tlx::multisequence_selection"


def check_lexi(ck, tu):
    for cls, rev in (("lexicographic", False), ("lexicographic_rev", True)):
        fns = [f for f in tu.functions if f.kind == "operator" and f.record and f.record.endswith("::" + cls) and f.d.get("op") == "()"]
        ck.require(fns, "%s::operator() not instantiated" % cls)
        for fn in fns:
            p1, p2 = fn.params[0]["did"], fn.params[1]["did"]

            def atomize(n, run):
                fc = match.functor_call(n)
                if fc and match.this_field(fc[0]) == "comp_" and len(fc[1]) == 2:
                    w = []
                    for a in fc[1]:
                        f = match.field_of(a)
                        w.append((1 if ref_of(f[0]) == p1 else 2) if f and f[1] == "first" else None)
                    if w == [1, 2]:
                        return ("c12", False)
                    if w == [2, 1]:
                        return ("c21", False)
                b = match.binop(n, ("<", ">"))
                if b:
                    fa, fb = match.field_of(b[1]), match.field_of(b[2])
                    if fa and fb and fa[1] == fb[1] == "second":
                        first_is_1 = ref_of(fa[0]) == p1
                        lt12 = (b[0] == "<") == first_is_1
                        return ("s12", False) if lt12 else ("s21", False)
                return None
            leaves = dtable.explore(fn.body, atomize, fn)
            atoms = ["c12", "c21", "s12", "s21"]
            bad = None
            rows = 0
            for v, lf in dtable.table(leaves, lambda v: not (v["c12"] and v["c21"]) and not (v["s12"] and v["s21"]), atoms):
                rows += 1
                r = dtable.Run(atomize, v, fn).truth(lf["stop"][1][0]) if lf["stop"][0] == "return" else None
                lt = v["c12"] or (not v["c12"] and not v["c21"] and v["s12"])
                gt = v["c21"] or (not v["c12"] and not v["c21"] and v["s21"])
                want = gt if rev else lt
                if (lt or gt) and r != want:
                    bad = v
            tag = "%s (%s)" % (cls, fn.record.split("::")[1])
            if bad:
                ck.violation("LEXI-TABLE", fn.qname, tag.replace(" ", ""), "%s is not the %s lexicographic order on (value, sequence): wrong for %s" % (cls, "reversed" if rev else "strict", dtable.fmt_val(bad)), fn.loc)
            else:
                ck.ok("LEXI-TABLE", tag, "%d rows: %s (value, sequence index) order" % (rows, "reversed strict" if rev else "strict"))


def seq_access(n):
    """(seq_index_expr, element_index_expr) if n is begin_seqs[X].first[E]"""
    p = match.index_parts(n)
    if not p:
        return None
    f = match.field_of(p[0])
    if not f or f[1] != "first":
        return None
    q = match.index_parts(f[0])
    if not q or ir.ref_name(q[0]) != "begin_seqs":
        return None
    return q[1], p[1]


def conjuncts(c):
    out = []

    def flat(n):
        b = match.binop(n, ("&&",))
        if b and strip_casts(n)["k"] == "BinaryOperator":
            flat(b[1]); flat(b[2])
        else:
            out.append(n)
    flat(c)
    return out


def dominating_conds(fn, node):
    """conditions known true at node: enclosing if/for/while conditions (then-branch / body) and left operands of &&"""
    out = []
    n, par = node, fn.parent(node)
    while par is not None:
        if par["k"] == "IfStmt" and kids(par)[1] is not None and any(y is n for y in ir.walk(kids(par)[1])):
            out += [(c, True) for c in conjuncts(kids(par)[0])]
        elif par["k"] == "IfStmt" and kids(par)[2] is not None and any(y is n for y in ir.walk(kids(par)[2])):
            cs = conjuncts(kids(par)[0])
            if len(cs) == 1:
                out.append((cs[0], False))
        elif par["k"] in ("ForStmt", "WhileStmt"):
            init, cond, inc, body = match.loop_parts(par)
            if cond is not None and body is not None and any(y is n for y in ir.walk(body)):
                out += [(c, True) for c in conjuncts(cond)]
        elif par["k"] == "BinaryOperator" and par.get("op") == "&&" and len(kids(par)) == 2 and (kids(par)[1] is n or any(y is n for y in ir.walk(kids(par)[1]))):
            out += [(c, True) for c in conjuncts(kids(par)[0])]
        n, par = par, fn.parent(par)
    return out


def writes_to(n):
    """declaration id written by node n (assignment / compound assignment / ++ / --), and the index parts if an element"""
    w = match.unop(n, ("++", "--")) or (match.binop(n, ("=", "+=", "-=", "*=", "/=")) if n["k"] in ("BinaryOperator", "CompoundAssignOperator", "CXXOperatorCallExpr") else None)
    if not w:
        return None, None
    ip = match.index_parts(w[1])
    return (ref_of(ip[0]) if ip else ref_of(w[1])), ip


def flag_guard(fn, g, x, what):
    """a missing guard is only reported when no branch that dominates x is decided by something this rule cannot read: a
    bool flag variable or a project helper returning bool may carry the test"""
    px = g.pos_deep(x)
    for bid, blk in g.blocks.items():
        els = g.elements(bid)
        if len(blk.get("succ", [])) != 2 or not els or not isinstance(els[-1], int) or blk.get("term") is None:
            continue
        c = fn.byid(els[-1])
        if c is None or not g.dominates((bid, len(els) - 1), px):
            continue
        c0 = strip_casts(c)
        while c0 is not None and (c0["k"] == "ParenExpr" or (c0["k"] == "UnaryOperator" and c0.get("op") == "!")):
            c0 = strip_casts(kids(c0)[0])
        if c0 is None:
            continue
        is_flag = c0["k"] == "DeclRefExpr" and (c0.get("ty") or "").replace("const ", "") == "bool" and c0["ref"].get("kind") == "local"
        is_helper = "callee" in c0 and c0["k"] in ("CallExpr", "CXXMemberCallExpr") and fn.tu.by_did.get(c0["callee"].get("did")) is not None
        if is_flag or is_helper:
            raise dtable.Undecidable("%s: %s may be established by %s, which this rule cannot read" % (fn.loc, what, dtable.describe(c0)))


def check_index_guards(ck, fn, tag):
    """INDEX-GUARD: every begin_seqs[X].first[E] is reached only over branch edges that establish the needed bound
    (E < seqlen[X], or E' > 0 for E = E' - 1), as canonical linear inequalities, with no write to the index in between
    (must-fact over the CFG: early `continue`, negated tests and || chains count like nested ifs).
    GUARD-EXACT: one of those edges is exactly the bound - a stronger test skips a candidate that exists.
    LEFT-BORDER-BOUND: a left border that is still zero is moved by K only under exactly K <= seqlen."""
    n_acc = 0
    bad = 0
    g = cfgm.CFG(fn)
    L = linear.Lin(fn, g)
    left_arrays = set()
    for x in fn.nodes():
        sa = seq_access(x) if x["k"] in ("ArraySubscriptExpr", "CXXOperatorCallExpr") else None
        if not sa:
            continue
        X, E = sa
        n_acc += 1
        Es = strip_casts(E)
        if const_int(Es) == 0:
            continue            # element 0 of a non-empty sequence (precondition)
        sub = match.binop(Es, ("-",))
        lower = bool(sub and const_int(sub[2]) == 1)
        if lower and match.index_parts(sub[1]) and ref_of(match.index_parts(sub[1])[0]) is not None:
            left_arrays.add(ref_of(match.index_parts(sub[1])[0]))
        seqlen_x = None
        for y in fn.nodes():
            p_ = match.index_parts(y) if y["k"] in ("ArraySubscriptExpr", "CXXOperatorCallExpr") else None
            if p_ and ir.ref_name(p_[0]) == "seqlen" and match.same_expr(p_[1], X):
                seqlen_x = y
                break
        if lower:
            need = L.req(Es, None, False, use=x) if False else linear.canon(*_ge0(L, Es, x))
        else:
            if seqlen_x is None:
                ck.violation("INDEX-GUARD", fn.qname, "%s:%s" % (tag, dtable.describe(x)),
                             "%s is read but seqlen[%s] is never tested" % (dtable.describe(x), dtable.describe(X)), fn.nloc(x))
                bad += 1
                continue
            need = L.req(seqlen_x, Es, True, use=x)
        names = {y["ref"]["id"] for e_ in (E, X) for y in ir.walk(e_) if y["k"] == "DeclRefExpr"}

        def effect(n, names=names, E=E):
            d, ip = writes_to(n)
            if d is None or d not in names:
                return None
            if ip and not any(match.same_expr(ip[1], q[1]) for y in ir.walk(E) for q in [match.index_parts(y)] if q and ref_of(q[0]) == d):
                return None         # another element of the array
            return "kill"
        safe = mustfact.MustFact(fn, g, lambda c, t, need=need: any(linear.implies(a_, need) for a_ in L.implied(c, t)), effect)
        if safe.before(x) is not True:
            flag_guard(fn, g, x, "the bound of %s" % dtable.describe(x))
            ck.violation("INDEX-GUARD", fn.qname, "%s:%s" % (tag, dtable.describe(x)),
                         "%s is read on a path without a test that the index is inside the sequence (needs %s >= 0)"
                         % (dtable.describe(x), linear.show(need)), fn.nloc(x))
            bad += 1
            continue
        exact = mustfact.MustFact(fn, g, lambda c, t, need=need: any(linear.same(a_, need) for a_ in L.implied(c, t)), effect)
        if exact.before(x) is not True:
            ck.violation("GUARD-EXACT", fn.qname, "%s:%s" % (tag, dtable.describe(x)),
                         "%s is only reached under a test that is stronger than `the element exists` (%s >= 0): an existing candidate is skipped"
                         % (dtable.describe(x), linear.show(need)), fn.nloc(x))
            bad += 1
    if not bad:
        ck.ok("INDEX-GUARD", tag, "%d element accesses, each reached only over edges that establish index < seqlen[...] (or index-1 with index > 0)" % n_acc)
        ck.ok("GUARD-EXACT", tag, "for each of them one guarding edge is exactly the existence of the element (canonical linear form)")
    # left borders moved while still zero
    n_lb = 0
    for z in fn.nodes():
        if z["k"] != "CompoundAssignOperator" or z.get("op") != "+=":
            continue
        d, ip = writes_to(z)
        if d not in left_arrays or not ip:
            continue
        pz = g.pos_deep(z)
        earlier = [w for w in L.writes.get(d, []) if w is not z and g.pos_deep(w) is not None and g.reachable(g.pos_deep(w), pz)
                   and not (pz is not None and g.reachable(pz, g.pos_deep(w)) and g.dominates(pz, g.pos_deep(w)))]
        if any(not (match.binop(w, ("=",)) and const_int(match.binop(w, ("=",))[2]) == 0) for w in earlier):
            continue            # not known to be zero here: nothing to decide
        seqlen_x = None
        for y in fn.nodes():
            p_ = match.index_parts(y) if y["k"] in ("ArraySubscriptExpr", "CXXOperatorCallExpr") else None
            if p_ and ir.ref_name(p_[0]) == "seqlen" and match.same_expr(p_[1], ip[1]):
                seqlen_x = y
                break
        if seqlen_x is None:
            raise dtable.Undecidable("%s: no seqlen[] test for the left border moved at line %s" % (fn.loc, z.get("l")))
        K = kids(z)[1]
        need = L.req(seqlen_x, K, False, use=z)
        names = {y["ref"]["id"] for e_ in (K, ip[1]) for y in ir.walk(e_) if y["k"] == "DeclRefExpr"}

        def effect2(n, names=names):
            d2, ip2 = writes_to(n)
            return "kill" if d2 is not None and d2 in names and n is not z and not ip2 else None
        n_lb += 1
        sf = mustfact.MustFact(fn, g, lambda c, t: any(linear.implies(a_, need) for a_ in L.implied(c, t)), effect2)
        ex = mustfact.MustFact(fn, g, lambda c, t: any(linear.same(a_, need) for a_ in L.implied(c, t)), effect2)
        if sf.before(z) is not True:
            flag_guard(fn, g, z, "the bound of %s" % dtable.describe(z)[:40])
            ck.violation("LEFT-BORDER-BOUND", fn.qname, "%s:%s" % (tag, dtable.describe(z)[:40]),
                         "the left border is moved by %s without a test that the sequence is that long (needs %s >= 0): the border leaves the sequence"
                         % (dtable.describe(K), linear.show(need)), fn.nloc(z))
        elif ex.before(z) is not True:
            ck.violation("LEFT-BORDER-BOUND", fn.qname, "%s:%s" % (tag, dtable.describe(z)[:40]),
                         "the left border is moved by %s only under a test stronger than `the sequence is that long` (%s >= 0): a sequence of exactly "
                         "that length keeps its border at zero" % (dtable.describe(K), linear.show(need)), fn.nloc(z))
        else:
            ck.ok("LEFT-BORDER-BOUND", "%s @%s" % (tag, fn.nloc(z)), "a zero left border moves by K exactly when K <= seqlen")
    return n_lb


def _ge0(L, e, use):
    f = L.form(e, use)
    return ({t: k for t, k in f[0].items() if k}, f[1])


def resolve_elem(fn, e, depth=0):
    """(X, E) if e denotes (the address of / a reference or pointer to) begin_seqs[X].first[E], through locals"""
    e = strip_casts(e)
    while e is not None and (e["k"] == "ParenExpr" or (e["k"] == "UnaryOperator" and e.get("op") in ("&", "*"))):
        e = strip_casts(kids(e)[0])
    if e is None or depth > 4:
        return None
    sa = seq_access(e) if e["k"] in ("ArraySubscriptExpr", "CXXOperatorCallExpr") else None
    if sa:
        return sa
    d = ref_of(e)
    if d is not None:
        for v in fn.nodes():
            if v["k"] == "VarDecl" and v.get("did") == d and kids(v) and kids(v)[0] is not None:
                return resolve_elem(fn, kids(v)[0], depth + 1)
    return None


def check_edge_scans(ck, fn, tag):
    """an edge scan keeps, in a pointer local V, the extreme of the elements at the border: V = &begin_seqs[i].first[E] in a
    loop.  E of the form x - 1 is the left edge (maximum wanted), otherwise the right edge (minimum wanted).  The loop body
    is explored as a decision table over {V is null, comp(candidate, *V), comp(*V, candidate), other tests}."""
    scans = {}
    for z in fn.nodes():
        b = match.binop(z, ("=",)) if z["k"] == "BinaryOperator" else None
        if not b:
            continue
        lhs = strip_casts(b[1])
        if lhs["k"] != "DeclRefExpr" or "*" not in (lhs.get("ty") or ""):
            continue
        el = resolve_elem(fn, b[2])
        if el is None:
            continue
        loops = [a_ for a_ in ancestors(fn, z) if a_["k"] in ("ForStmt", "WhileStmt")]
        if not loops:
            continue
        scans.setdefault((lhs["ref"]["id"], loops[0]["id"]), dict(var=lhs["ref"], loop=loops[0], assigns=[], elems=[]))
        scans[(lhs["ref"]["id"], loops[0]["id"])]["assigns"].append(z)
        scans[(lhs["ref"]["id"], loops[0]["id"])]["elems"].append(el)
    nbad = 0
    for (V, _), sc in scans.items():
        name = sc["var"]["name"]
        forms = {bool(match.binop(strip_casts(E), ("-",)) and const_int(match.binop(strip_casts(E), ("-",))[2]) == 1) for X, E in sc["elems"]}
        if len(forms) != 1:
            raise dtable.Undecidable("%s: scan for %s takes candidates from both edges" % (fn.loc, name))
        want_max = forms.pop()
        body = match.loop_parts(sc["loop"])[3]

        def atomize(n, run, V=V):
            n0 = strip_casts(n)
            pt = match.ptr_truth(n)
            if pt is None and n0 is not n:
                pt = match.ptr_truth(n0)
            if pt is not None and ref_of(pt) == V:
                return ("null", True)
            if n0["k"] == "DeclRefExpr" and n0["ref"]["id"] == V:
                return ("null", True)
            bb = match.binop(n0, ("==", "!="))
            if bb:
                for l, r in ((bb[1], bb[2]), (bb[2], bb[1])):
                    if ref_of(l) == V and strip_casts(r)["k"] in ("NullPtr", "CXXNullPtrLiteralExpr", "GNUNullExpr") or (ref_of(l) == V and const_int(r) == 0):
                        return ("null", bb[0] == "!=")
            fc = match.functor_call(n0)
            if fc and len(fc[1]) == 2 and ref_of(fc[0]) is not None:
                roles = []
                for a_ in fc[1]:
                    d_ = match.deref_of(a_)
                    if d_ is not None and ref_of(d_) == V:
                        roles.append("cur")
                    elif resolve_elem(fn, a_) is not None:
                        roles.append("x")
                    else:
                        roles.append("?")
                if sorted(roles) == ["cur", "x"]:
                    return ("lt:%s<%s" % tuple(roles), False)
                if "cur" in roles:
                    raise dtable.Undecidable("%s: comparison of %s with something that is not an edge element at line %s" % (fn.loc, name, n0.get("l")))
            if n0["k"] in ("BinaryOperator", "CXXOperatorCallExpr", "UnaryOperator", "ParenExpr") and n0.get("op") in ("&&", "||", "!", None) \
                    and n0["k"] != "CXXOperatorCallExpr":
                return None
            return ("other:" + dtable.describe(n0), False)
        leaves = dtable.explore(body, atomize, fn)
        asg_ids = {z["id"] for z in sc["assigns"]}

        def assigned(lf):
            return any(ev[0] == "expr" and any(y["id"] in asg_ids for y in ir.walk(ev[1])) for ev in lf["events"])
        atoms = dtable.atoms_of(leaves)
        others = [a_ for a_ in atoms if a_.startswith("other:")]
        LX, LC = "lt:x<cur", "lt:cur<x"
        problem = None
        # null dereference: a leaf that evaluated a comparison against *V while V is null
        for lf in leaves:
            if lf["val"].get("null") is True and any(k.startswith("lt:") for k in lf["val"]):
                problem = "compares a candidate with *%s while %s is still null" % (name, name)
        rows = list(dtable.table(leaves, consistent=lambda v: not (v.get(LX) and v.get(LC)), atoms=atoms))
        import itertools
        for ov in itertools.product((False, True), repeat=len(others)):
            sel = [(v, lf) for v, lf in rows if all(v[o] == t for o, t in zip(others, ov))]
            considered = any(assigned(lf) for v, lf in sel)
            if not considered or problem:
                continue
            for v, lf in sel:
                A = assigned(lf)
                if v.get("null"):
                    if not A:
                        problem = "does not take the first candidate while %s is null" % name
                    continue
                x_lt_cur, cur_lt_x = v.get(LX, None), v.get(LC, None)
                if LX not in atoms and LC not in atoms:
                    problem = "replaces %s without comparing" % name if A else problem
                    continue
                # with only one direction compared the other outcome is unknown: quantify over it
                strictly_better = cur_lt_x if want_max else x_lt_cur
                strictly_worse = x_lt_cur if want_max else cur_lt_x
                if strictly_worse is True and A:
                    problem = "replaces %s by a strictly %s element (%s)" % (name, "smaller" if want_max else "larger", dtable.fmt_val(v))
                if strictly_better is True and not A:
                    problem = "keeps %s although the candidate is strictly %s (%s)" % (name, "larger" if want_max else "smaller", dtable.fmt_val(v))
            # one-directional comparisons: comp(x, cur) only tells x < cur; for a maximum scan `!comp(x, cur)` replaces on ties too (allowed)
        if problem is None and LX in atoms and LC not in atoms:
            # only comp(x, cur) is asked: for a max scan replace iff !(x < cur); for a min scan replace iff x < cur
            for v, lf in rows:
                if v.get("null") or not any(assigned(l2) for v2, l2 in rows if all(v2[o] == v[o] for o in others)):
                    continue
                if assigned(lf) != ((not v[LX]) if want_max else v[LX]):
                    problem = "keeps the wrong extreme (%s)" % dtable.fmt_val(v)
        if problem is None and LC in atoms and LX not in atoms:
            for v, lf in rows:
                if v.get("null") or not any(assigned(l2) for v2, l2 in rows if all(v2[o] == v[o] for o in others)):
                    continue
                if assigned(lf) != (v[LC] if want_max else (not v[LC])):
                    problem = "keeps the wrong extreme (%s)" % dtable.fmt_val(v)
        if problem:
            ck.violation("EDGE-TIEBREAK", fn.qname, "%s:%s" % (tag, name), "the scan for %s (%s of the %s edge) %s"
                         % (name, "maximum" if want_max else "minimum", "left" if want_max else "right", problem), fn.nloc(sc["assigns"][0]))
            nbad += 1
    return len(scans), nbad


def ancestors(fn, node):
    out = []
    par = fn.parent(node)
    while par is not None:
        out.append(par)
        par = fn.parent(par)
    return out


def check_pq_and_edges(ck, fn, tag, is_partition):
    # priority queues: skew > 0 -> smallest right candidate first (lexicographic_rev as max-heap comparator), fed from b[];
    #                  skew < 0 -> largest left element first (lexicographic), fed from a[] - 1
    pqs = [x for x in fn.nodes() if x["k"] == "VarDecl" and x.get("ty", "").startswith("std::priority_queue<")]
    ck.require(len(pqs) == 2, "%s: two priority queues expected" % fn.loc)
    bad = 0
    g = cfgm.CFG(fn)
    L = linear.Lin(fn, g)
    skews = [v for v in fn.nodes() if v["k"] == "VarDecl" and v.get("name") == "skew"]
    ck.require(len(skews) == 1, "%s: skew variable not found" % fn.loc)
    skew_ref = {"k": "DeclRefExpr", "id": -21, "ref": {"id": skews[0]["did"], "name": "skew", "kind": "local"}, "ty": skews[0].get("ty")}
    zero = {"k": "IntegerLiteral", "id": -22, "val": 0, "ty": "int"}
    need = {"gt": L.req(skew_ref, zero, True), "ge": L.req(skew_ref, zero, False), "lt": L.req(zero, skew_ref, True), "le": L.req(zero, skew_ref, False)}

    def writes_skew(n):
        d_, ip_ = writes_to(n)
        return "kill" if d_ == skews[0]["did"] else None

    def ne_edge(c, t):
        c0 = strip_casts(c)
        while c0 is not None and (c0["k"] == "ParenExpr" or (c0["k"] == "UnaryOperator" and c0.get("op") == "!")):
            if c0["k"] == "UnaryOperator":
                t = not t
            c0 = strip_casts(kids(c0)[0])
        b_ = match.binop(c0, ("==", "!="))
        if b_ and ((ref_of(b_[1]) == skews[0]["did"] and const_int(b_[2]) == 0) or (ref_of(b_[2]) == skews[0]["did"] and const_int(b_[1]) == 0)):
            return (b_[0] == "!=") == t
        return any(linear.implies(a_, need["gt"]) or linear.implies(a_, need["lt"]) for a_ in L.implied(c, t))
    facts = {k_: mustfact.MustFact(fn, g, lambda c, t, k_=k_: any(linear.implies(a_, need[k_]) for a_ in L.implied(c, t)), writes_skew) for k_ in need}
    facts["ne"] = mustfact.MustFact(fn, g, ne_edge, writes_skew)
    for pq in pqs:
        at = lambda k_: facts[k_].before(pq) is True
        if at("gt") or (at("ge") and at("ne")):
            skew_pos = True
        elif at("lt") or (at("le") and at("ne")):
            skew_pos = False
        else:
            skew_pos = None
        ck.require(skew_pos is not None, "%s: priority queue outside the skew correction" % fn.loc)
        par = fn.parent(pq)
        while par is not None and par["k"] != "CompoundStmt":
            par = fn.parent(par)
        block_body = par
        rev = "lexicographic_rev<" in pq["ty"]
        pushes = [y for y in ir.walk(block_body) if "callee" in y and y["callee"]["name"] == "push" and ref_of(kids(y)[0]) == pq["did"]]
        src = set()
        for y in pushes:
            for z in ir.walk(y):
                sa = seq_access(z) if z["k"] in ("ArraySubscriptExpr", "CXXOperatorCallExpr") else None
                if sa:
                    e = strip_casts(sa[1])
                    p = match.index_parts(e)
                    sb = match.binop(e, ("-",))
                    if p:
                        src.add(ir.ref_name(p[0]))
                    elif sb and match.index_parts(sb[1]):
                        src.add(ir.ref_name(match.index_parts(sb[1])[0]) + "-1")
        want_rev, want_src = (True, {"b"}) if skew_pos else (False, {"a-1"})
        if rev != want_rev or src != want_src:
            ck.violation("PQ-ORIENT", fn.qname, "%s:skew%s" % (tag, ">0" if skew_pos else "<0"),
                         "when the left side is too %s the queue must deliver the %s candidate first (comparator %s) and be fed from %s; found %s fed from %s"
                         % ("small" if skew_pos else "large", "smallest right" if skew_pos else "largest left", "lexicographic_rev" if want_rev else "lexicographic",
                            sorted(want_src), "lexicographic_rev" if rev else "lexicographic", sorted(src)), fn.nloc(pq))
            bad += 1
    if not bad:
        ck.ok("PQ-ORIENT", tag, "skew > 0: min-first queue over b[]; skew < 0: max-first queue over a[] - 1")
    # edge scans: max of the left edge, min of the right edge
    n_scans, bad = check_edge_scans(ck, fn, tag)
    ck.require(n_scans >= 3, "%s: edge scans not found" % fn.loc)
    if not bad:
        ck.ok("EDGE-TIEBREAK", tag, "%d edge scans keep the maximum of the left edge / minimum of the right edge, decided on the "
              "truth table of each scan body (first candidate taken, replaced iff strictly better in the kept direction, ties free)" % n_scans)
    # middle decision (partition only): lexicographic on (element, sequence)
    if is_partition:
        mids = [x for x in fn.nodes() if x["k"] == "IfStmt" and any(ir.ref_name(y) == "middle" for y in ir.walk(kids(x)[0]) if y["k"] == "DeclRefExpr")]
        ck.require(len(mids) == 1, "%s: refinement decision not found" % fn.loc)
        c = kids(mids[0])[0]
        lex = [y for y in ir.walk(c) if "callee" in y and y.get("op") == "()" and kids(y) and ir.ref_name(kids(y)[0]) == "lcomp"]
        okk = False
        if len(lex) == 1 and len(kids(lex[0])) == 3:
            a, b = kids(lex[0])[1], kids(lex[0])[2]

            def pair_parts(e):
                e = match.strip_conv(e)
                if e["k"] in ("CXXConstructExpr", "CXXTemporaryObjectExpr") and len(kids(e)) == 2:
                    return kids(e)
                c2 = match.call_named(e, ("make_pair",))
                if c2 is not None and "callee" in e:
                    return kids(c2)
                e2 = strip_casts(e)
                while e2["k"] in ("CXXFunctionalCastExpr",):
                    e2 = strip_casts(kids(e2)[0])
                if e2["k"] in ("CXXConstructExpr", "CXXTemporaryObjectExpr") and len(kids(e2)) == 2:
                    return kids(e2)
                return None
            pa, pb = pair_parts(a), pair_parts(b)
            if pa and pb:
                sa = seq_access(strip_casts(pa[0]))
                d = match.deref_of(pb[0])
                okk = bool(sa and ir.ref_name(sa[1]) == "middle" and match.same_expr(sa[0], pa[1]) and d is not None and ref_of(d) is not None
                           and "*" in (strip_casts(d).get("ty") or "") and ref_of(pb[1]) is not None)
                # lmax_seq is set wherever lmax is set: in the same basic block, to the sequence index of the element taken
                g_ = cfgm.CFG(fn)
                lvar, svar = ref_of(d), ref_of(pb[1])
                sets_l = [y for y in fn.nodes() if y["k"] == "BinaryOperator" and match.binop(y, ("=",)) and ref_of(match.binop(y, ("=",))[1]) == lvar]
                sets_s = [y for y in fn.nodes() if y["k"] == "BinaryOperator" and match.binop(y, ("=",)) and ref_of(match.binop(y, ("=",))[1]) == svar]
                paired = bool(sets_l)
                for y in sets_l:
                    el = resolve_elem(fn, match.binop(y, ("=",))[2])
                    mates = [z for z in sets_s if g_.pos_deep(z) is not None and g_.pos_deep(y) is not None and g_.pos_deep(z)[0] == g_.pos_deep(y)[0]]
                    if el is None or not mates or not any(match.same_expr(match.binop(z, ("=",))[2], el[0]) for z in mates):
                        paired = False
                okk = okk and paired
        if okk:
            ck.ok("MIDDLE-LEXI", tag, "an element goes left iff (element, sequence) < (left maximum, its sequence) lexicographically")
        else:
            ck.violation("MIDDLE-LEXI", fn.qname, tag, "the refinement compares the probe element with the left maximum by key only: equal elements are split "
                         "without regard to their sequence index (unstable partition)", fn.nloc(c))


from rules.parcommon import check_comp_threaded  # noqa: E402


def check_signed_tests(ck, fn, tag):
    """a local whose sign is tested (x < 0, x > 0 with both outcomes handled) must have a signed type in every instantiation"""
    n = 0
    for z in fn.nodes():
        b = match.binop(z, ("<",)) if z["k"] == "BinaryOperator" else None
        if not b or const_int(b[2]) != 0:
            continue
        d = ref_of(b[1])
        if d is None:
            continue
        decl = [v for v in fn.nodes() if v["k"] == "VarDecl" and v.get("did") == d]
        if not decl:
            continue
        n += 1
        ty = (decl[0].get("ty") or "")
        if "unsigned" in ty:
            ck.violation("SIGN-TEST-SIGNED", fn.qname, "%s:%s" % (tag, decl[0].get("name")),
                         "`%s < 0` decides a branch of the refinement, but in this instantiation `%s` has type %s: the difference wraps, the branch is dead "
                         "and the other one runs with a huge value" % (decl[0].get("name"), decl[0].get("name"), ty), fn.nloc(z))
        else:
            ck.ok("SIGN-TEST-SIGNED", "%s %s" % (tag, decl[0].get("name")), "type %s" % ty)
    return n


def check_partition_in(ck, tu):
    """the C08 rules for whatever multisequence_partition / multisequence_selection instantiations a translation unit
    contains (used by C07 and C06, whose exact splitting stands on the partition)"""
    check_lexi(ck, tu)
    fps, fss = tu.find(qname=PART), tu.find(qname=SEL)
    n = 0
    for fp in fps:
        tag = "partition<%s>" % fp.targs[1]
        check_index_guards(ck, fp, tag)
        check_pq_and_edges(ck, fp, tag, True)
        check_signed_tests(ck, fp, tag)
        for fs in [f for f in fss if f.targs[2] == fp.targs[1]][:1]:
            stag = "selection<%s>" % fs.targs[2]
            check_index_guards(ck, fs, stag)
            check_pq_and_edges(ck, fs, stag, False)
            check_signed_tests(ck, fs, stag)
        n += 1
    return n


def run(ck):
    ck.explanation = (
        "The numeric refinement (halving, skew correction, returned ranks) is not decidable statically. Decided necessary conditions: the two "
        "tie-break comparators are the strict lexicographic (value, sequence index) order and its reverse (decision tables); the skew-correction "
        "queues have the right orientation and source; the edge scans keep maximum / minimum; the partition's refinement decision compares "
        "(element, sequence) pairs (found and fixed: it compared keys only, so runs of equal elements were split against the sequence order); every "
        "element access is reached only over branch edges that establish index < seqlen (or index - 1 with index > 0), one of them being exactly "
        "that bound, so no existing candidate is skipped; a left border that is still zero moves by K exactly when K <= seqlen; every standard ordering algorithm called inside receives the caller's comparator (COMP-THREADED); locals whose "
        "sign is tested are signed in every instantiation, including an unsigned rank type (SIGN-TEST-SIGNED).")
    types = ["int"] if ck.tier == "quick" else ["int", "std::string"]
    for t in types:
        tu = ir.extract("witness/C08_partition.cpp", defines=["WITNESS_T=" + t], extra_flags=["-include", "string"])
        check_lexi(ck, tu)
        fps, fss = tu.some(qname=PART), tu.some(qname=SEL)
        ck.require(len(fps) == 2 and len(fss) == 2, "expected the signed/less and the unsigned/greater instantiation of both functions")

        def rank_ty(fn, isp):
            return fn.targs[1] if isp else fn.targs[2]
        for fp in fps:
            fs = [f for f in fss if rank_ty(f, False) == rank_ty(fp, True)][0]
            suffix = "<%s>" % rank_ty(fp, True)
            for fn, tag, isp in ((fp, "partition" + suffix, True), (fs, "selection" + suffix, False)):
                check_index_guards(ck, fn, tag)
                check_pq_and_edges(ck, fn, tag, isp)
                check_comp_threaded(ck, fn, tag)
                check_signed_tests(ck, fn, tag)
    m = len(types)
    ck.floor("LEXI-TABLE", 4 * m)
    ck.floor("INDEX-GUARD", 4 * m)
    ck.floor("PQ-ORIENT", 4 * m)
    ck.floor("EDGE-TIEBREAK", 4 * m)
    ck.floor("MIDDLE-LEXI", 2 * m)
    ck.floor("GUARD-EXACT", 4 * m)
    ck.floor("LEFT-BORDER-BOUND", 4 * m)
    ck.floor("COMP-THREADED", 4 * m)
    ck.floor("SIGN-TEST-SIGNED", 2 * m)
