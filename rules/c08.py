"""C08 — multisequence partition / selection: lexicographic tie-break comparators,
orientation of the priority queues and edge scans, stable middle decision, index
guards, twin agreement of the two copies."""
from engine import ir, dtable, match, cfg as cfgm
from engine.ir import kids, strip_casts, const_int, ref_of

PART = "tlx::multisequence_partition"
SEL = "tlx::multisequence_selection"
# decisions that legitimately differ between the two copies: (reason)
TWIN_EXCEPTIONS = {
    "lmax-scan": "partition favours rear sequences on ties (!comp(x, max)), selection keeps the first maximum (comp(max, x)): both select a maximum",
    "middle-decision": "partition must split ties by sequence index (stable partition); selection only reports a value and its offset",
    "rank-precondition": "partition asserts its precondition and handles rank == N, selection throws",
}


def check_lexi(ck, tu):
    for cls, rev in (("lexicographic", False), ("lexicographic_rev", True)):
        fns = [f for f in tu.functions if f.kind == "operator" and f.record and f.record.endswith("::" + cls) and f.d.get("op") == "()"]
        ck.require(fns, "%s::operator() not instantiated" % cls)
        for fn in fns:
            p1, p2 = fn.params[0]["did"], fn.params[1]["did"]

            def atomize(n, run):
                fc = match.functor_call(n)
                if fc and match.this_field(fc[0]) == "comp_" and len(fc[1]) == 2:
                    w = []
                    for a in fc[1]:
                        f = match.field_of(a)
                        w.append((1 if ref_of(f[0]) == p1 else 2) if f and f[1] == "first" else None)
                    if w == [1, 2]:
                        return ("c12", False)
                    if w == [2, 1]:
                        return ("c21", False)
                b = match.binop(n, ("<", ">"))
                if b:
                    fa, fb = match.field_of(b[1]), match.field_of(b[2])
                    if fa and fb and fa[1] == fb[1] == "second":
                        first_is_1 = ref_of(fa[0]) == p1
                        lt12 = (b[0] == "<") == first_is_1
                        return ("s12", False) if lt12 else ("s21", False)
                return None
            leaves = dtable.explore(fn.body, atomize, fn)
            atoms = ["c12", "c21", "s12", "s21"]
            bad = None
            rows = 0
            for v, lf in dtable.table(leaves, lambda v: not (v["c12"] and v["c21"]) and not (v["s12"] and v["s21"]), atoms):
                rows += 1
                r = dtable.Run(atomize, v, fn).truth(lf["stop"][1][0]) if lf["stop"][0] == "return" else None
                lt = v["c12"] or (not v["c12"] and not v["c21"] and v["s12"])
                gt = v["c21"] or (not v["c12"] and not v["c21"] and v["s21"])
                want = gt if rev else lt
                if (lt or gt) and r != want:
                    bad = v
            tag = "%s (%s)" % (cls, fn.record.split("::")[1])
            if bad:
                ck.violation("LEXI-TABLE", fn.qname, tag.replace(" ", ""), "%s is not the %s lexicographic order on (value, sequence): wrong for %s" % (cls, "reversed" if rev else "strict", dtable.fmt_val(bad)), fn.loc)
            else:
                ck.ok("LEXI-TABLE", tag, "%d rows: %s (value, sequence index) order" % (rows, "reversed strict" if rev else "strict"))


def seq_access(n):
    """(seq_index_expr, element_index_expr) if n is begin_seqs[X].first[E]"""
    p = match.index_parts(n)
    if not p:
        return None
    f = match.field_of(p[0])
    if not f or f[1] != "first":
        return None
    q = match.index_parts(f[0])
    if not q or ir.ref_name(q[0]) != "begin_seqs":
        return None
    return q[1], p[1]


def conjuncts(c):
    out = []

    def flat(n):
        b = match.binop(n, ("&&",))
        if b and strip_casts(n)["k"] == "BinaryOperator":
            flat(b[1]); flat(b[2])
        else:
            out.append(n)
    flat(c)
    return out


def dominating_conds(fn, node):
    """conditions known true at node: enclosing if/for/while conditions (then-branch / body) and left operands of &&"""
    out = []
    n, par = node, fn.parent(node)
    while par is not None:
        if par["k"] == "IfStmt" and kids(par)[1] is not None and any(y is n for y in ir.walk(kids(par)[1])):
            out += [(c, True) for c in conjuncts(kids(par)[0])]
        elif par["k"] == "IfStmt" and kids(par)[2] is not None and any(y is n for y in ir.walk(kids(par)[2])):
            cs = conjuncts(kids(par)[0])
            if len(cs) == 1:
                out.append((cs[0], False))
        elif par["k"] in ("ForStmt", "WhileStmt"):
            init, cond, inc, body = match.loop_parts(par)
            if cond is not None and body is not None and any(y is n for y in ir.walk(body)):
                out += [(c, True) for c in conjuncts(cond)]
        elif par["k"] == "BinaryOperator" and par.get("op") == "&&" and len(kids(par)) == 2 and (kids(par)[1] is n or any(y is n for y in ir.walk(kids(par)[1]))):
            out += [(c, True) for c in conjuncts(kids(par)[0])]
        n, par = par, fn.parent(par)
    return out


def check_index_guards(ck, fn, tag):
    n_acc = 0
    bad = 0
    for x in fn.nodes():
        sa = seq_access(x) if x["k"] in ("ArraySubscriptExpr", "CXXOperatorCallExpr") else None
        if not sa:
            continue
        X, E = sa
        n_acc += 1
        Es = strip_casts(E)
        if const_int(Es) == 0:
            continue            # element 0 of a non-empty sequence (precondition)
        conds = dominating_conds(fn, x)
        okk = False
        sub = match.binop(Es, ("-",))
        for c, pol in conds:
            b = match.binop(c, ("<", ">", "<=", ">="))
            if not b:
                continue
            op, l, r = b
            if not pol:
                op = {"<": ">=", ">": "<=", "<=": ">", ">=": "<"}[op]
            # E < seqlen[X]
            def is_seqlen(e):
                p = match.index_parts(e)
                return bool(p and ir.ref_name(p[0]) == "seqlen" and match.same_expr(p[1], X))
            if op == "<" and match.same_expr(l, Es) and is_seqlen(r):
                okk = True
            if op == ">" and match.same_expr(r, Es) and is_seqlen(l):
                okk = True
            # (E' - 1) with E' > 0
            if sub and const_int(sub[2]) == 1 and op == ">" and match.same_expr(l, sub[1]) and (const_int(r) or 0) >= 0 and const_int(r) is not None:
                okk = True
            # (n + 1) <= seqlen[X] for element n
            pl = match.binop(l, ("+",))
            if op == "<=" and pl and match.same_expr(pl[1], Es) and const_int(pl[2]) == 1 and is_seqlen(r):
                okk = True
        if not okk:
            ck.violation("INDEX-GUARD", fn.qname, "%s:%s" % (tag, dtable.describe(x)),
                         "%s is read without a dominating test that the index is inside the sequence (0 <= index < seqlen)" % dtable.describe(x), fn.nloc(x))
            bad += 1
    if not bad:
        ck.ok("INDEX-GUARD", tag, "%d element accesses each dominated by index < seqlen[...] (or index-1 with index > 0)" % n_acc)


def check_pq_and_edges(ck, fn, tag, is_partition):
    # priority queues: skew > 0 -> smallest right candidate first (lexicographic_rev as max-heap comparator), fed from b[];
    #                  skew < 0 -> largest left element first (lexicographic), fed from a[] - 1
    pqs = [x for x in fn.nodes() if x["k"] == "VarDecl" and x.get("ty", "").startswith("std::priority_queue<")]
    ck.require(len(pqs) == 2, "%s: two priority queues expected" % fn.loc)
    bad = 0
    for pq in pqs:
        par = fn.parent(pq)
        skew_pos = None
        n = pq
        while par is not None:
            if par["k"] == "IfStmt":
                c = match.binop(kids(par)[0], (">", "<"))
                if c and ir.ref_name(c[1]) == "skew" and const_int(c[2]) == 0:
                    in_then = any(y is n for y in ir.walk(kids(par)[1]))
                    if in_then:
                        skew_pos = c[0] == ">"
                        break
            n, par = par, fn.parent(par)
        ck.require(skew_pos is not None, "%s: priority queue outside the skew correction" % fn.loc)
        rev = "lexicographic_rev<" in pq["ty"]
        block = par
        pushes = [y for y in ir.walk(kids(block)[1]) if "callee" in y and y["callee"]["name"] == "push" and ref_of(kids(y)[0]) == pq["did"]]
        src = set()
        for y in pushes:
            for z in ir.walk(y):
                sa = seq_access(z) if z["k"] in ("ArraySubscriptExpr", "CXXOperatorCallExpr") else None
                if sa:
                    e = strip_casts(sa[1])
                    p = match.index_parts(e)
                    sb = match.binop(e, ("-",))
                    if p:
                        src.add(ir.ref_name(p[0]))
                    elif sb and match.index_parts(sb[1]):
                        src.add(ir.ref_name(match.index_parts(sb[1])[0]) + "-1")
        want_rev, want_src = (True, {"b"}) if skew_pos else (False, {"a-1"})
        if rev != want_rev or src != want_src:
            ck.violation("PQ-ORIENT", fn.qname, "%s:skew%s" % (tag, ">0" if skew_pos else "<0"),
                         "when the left side is too %s the queue must deliver the %s candidate first (comparator %s) and be fed from %s; found %s fed from %s"
                         % ("small" if skew_pos else "large", "smallest right" if skew_pos else "largest left", "lexicographic_rev" if want_rev else "lexicographic",
                            sorted(want_src), "lexicographic_rev" if rev else "lexicographic", sorted(src)), fn.nloc(pq))
            bad += 1
    if not bad:
        ck.ok("PQ-ORIENT", tag, "skew > 0: min-first queue over b[]; skew < 0: max-first queue over a[] - 1")
    # edge scans: max of the left edge, min of the right edge
    bad = 0
    n_scans = 0
    for x in fn.nodes():
        if x["k"] != "IfStmt":
            continue
        c = kids(x)[0]
        u = match.unop(c, ("!",))
        inner = u[1] if u else c
        fc = match.functor_call(inner)
        if not fc or ref_of(fc[0]) is None or ir.ref_name(fc[0]) != "comp" or len(fc[1]) != 2:
            continue
        asg = [match.binop(y, ("=",)) for y in ir.walk(kids(x)[1]) if match.binop(y, ("=",)) and ir.ref_name(match.binop(y, ("=",))[1]) in ("lmax", "maxleft", "minright")]
        if not asg:
            continue
        n_scans += 1
        var = ir.ref_name(asg[0][1])
        roles = []
        for a in fc[1]:
            d = match.deref_of(a)
            roles.append("cur" if d is not None and ir.ref_name(d) == var else "x")
        neg = bool(u)
        # replaced when condition true
        if var in ("lmax", "maxleft"):
            # must replace when cur < x, must not when x < cur
            replaces_when_cur_lt_x = (roles == ["cur", "x"] and not neg) or (roles == ["x", "cur"] and neg)
            replaces_when_x_lt_cur = (roles == ["x", "cur"] and not neg) or (roles == ["cur", "x"] and neg)
            okk = replaces_when_cur_lt_x and not replaces_when_x_lt_cur
        else:
            replaces_when_x_lt_cur = (roles == ["x", "cur"] and not neg) or (roles == ["cur", "x"] and neg)
            replaces_when_cur_lt_x = (roles == ["cur", "x"] and not neg) or (roles == ["x", "cur"] and neg)
            okk = replaces_when_x_lt_cur and not replaces_when_cur_lt_x
        if not okk:
            ck.violation("EDGE-TIEBREAK", fn.qname, "%s:%s" % (tag, var), "the scan for %s keeps the wrong extreme (%s)" % (var, dtable.describe(c)), fn.nloc(c))
            bad += 1
    ck.require(n_scans >= 3, "%s: edge scans not found" % fn.loc)
    if not bad:
        ck.ok("EDGE-TIEBREAK", tag, "%d edge scans keep the maximum of the left edge / minimum of the right edge" % n_scans)
    # middle decision (partition only): lexicographic on (element, sequence)
    if is_partition:
        mids = [x for x in fn.nodes() if x["k"] == "IfStmt" and any(ir.ref_name(y) == "middle" for y in ir.walk(kids(x)[0]) if y["k"] == "DeclRefExpr")]
        ck.require(len(mids) == 1, "%s: refinement decision not found" % fn.loc)
        c = kids(mids[0])[0]
        lex = [y for y in ir.walk(c) if "callee" in y and y.get("op") == "()" and kids(y) and ir.ref_name(kids(y)[0]) == "lcomp"]
        okk = False
        if len(lex) == 1 and len(kids(lex[0])) == 3:
            a, b = kids(lex[0])[1], kids(lex[0])[2]

            def pair_parts(e):
                e = match.strip_conv(e)
                if e["k"] in ("CXXConstructExpr", "CXXTemporaryObjectExpr") and len(kids(e)) == 2:
                    return kids(e)
                c2 = match.call_named(e, ("make_pair",))
                if c2 is not None and "callee" in e:
                    return kids(c2)
                e2 = strip_casts(e)
                while e2["k"] in ("CXXFunctionalCastExpr",):
                    e2 = strip_casts(kids(e2)[0])
                if e2["k"] in ("CXXConstructExpr", "CXXTemporaryObjectExpr") and len(kids(e2)) == 2:
                    return kids(e2)
                return None
            pa, pb = pair_parts(a), pair_parts(b)
            if pa and pb:
                sa = seq_access(strip_casts(pa[0]))
                d = match.deref_of(pb[0])
                okk = bool(sa and ir.ref_name(sa[1]) == "middle" and match.same_expr(sa[0], pa[1]) and d is not None and ir.ref_name(d) == "lmax"
                           and ir.ref_name(pb[1]) == "lmax_seq")
                # lmax_seq is set wherever lmax is set
                sets_l = [y for y in fn.nodes() if match.binop(y, ("=",)) and ir.ref_name(match.binop(y, ("=",))[1]) == "lmax"]
                sets_s = [y for y in fn.nodes() if match.binop(y, ("=",)) and ir.ref_name(match.binop(y, ("=",))[1]) == "lmax_seq"]
                okk = okk and len(sets_l) == len(sets_s) and len(sets_l) >= 2
        if okk:
            ck.ok("MIDDLE-LEXI", tag, "an element goes left iff (element, sequence) < (left maximum, its sequence) lexicographically")
        else:
            ck.violation("MIDDLE-LEXI", fn.qname, tag, "the refinement compares the probe element with the left maximum by key only: equal elements are split "
                         "without regard to their sequence index (unstable partition)", fn.nloc(c))


def decision_list(fn):
    """normalised list of (kind, text) of all branch / loop conditions of the function, with classification of the known exceptions"""
    out = []
    for x in fn.nodes():
        if x["k"] in ("IfStmt", "WhileStmt", "ForStmt"):
            c = kids(x)[0] if x["k"] != "ForStmt" else kids(x)[1]
            if c is None:
                continue
            t = norm(c)
            names = set(ir.ref_name(y) for y in ir.walk(c) if y["k"] == "DeclRefExpr")
            cls = None
            if "lmax" in names and "middle" in names:
                cls = "middle-decision"
            elif ("lmax" in names or "maxleft" in names) and "comp" in names:
                cls = "lmax-scan"
            elif "rank" in names and ("N" in names) and x["k"] == "IfStmt":
                cls = "rank-precondition"
            out.append((cls, x["k"], t))
    return out


def norm(e):
    """printable form with a > b rewritten as b < a and value_type spelling differences removed"""
    e = strip_casts(e)
    b = match.binop(e, (">", ">="))
    if b and e["k"] == "BinaryOperator":
        return "(%s %s %s)" % (norm(b[2]), "<" if b[0] == ">" else "<=", norm(b[1]))
    b = match.binop(e)
    if b and e["k"] == "BinaryOperator":
        return "(%s %s %s)" % (norm(b[1]), b[0], norm(b[2]))
    if e["k"] == "UnaryOperator":
        return e["op"] + norm(kids(e)[0])
    return dtable.describe(e)


def check_twins(ck, fp, fs):
    dp, ds = decision_list(fp), decision_list(fs)
    kp = [d for d in dp if d[0] is None]
    ks = [d for d in ds if d[0] is None]
    import collections
    cp, cs = set((k, t) for _, k, t in kp), set((k, t) for _, k, t in ks)
    # compared as sets of distinct decisions (both copies repeat loop headers a different number of times)
    only_p = cp - cs
    only_s = cs - cp
    # decisions of selection's epilogue (offset computation) are allowed extras
    only_s = set(d for d in only_s if not ("minright" in d[1] or "lb" in d[1] or "offset" in d[1] or "m == 0" in d[1]))
    if only_p or only_s:
        a = next(iter(only_p)) if only_p else None
        b = next(iter(only_s)) if only_s else None
        ck.violation("TWIN-AGREE", SEL if b else PART, "partition-vs-selection:%s" % ((a or b)[1][:60]).replace(" ", ""),
                     "multisequence_partition and multisequence_selection are copies of one refinement but disagree: partition has %s, selection has %s"
                     % (a[1] if a else "-", b[1] if b else "-"), "tlx/algorithm/multisequence_selection.hpp")
    else:
        ck.ok("TWIN-AGREE", "partition vs selection", "%d shared decisions identical; %d documented exceptions (%s)"
              % (len(cp), len([d for d in dp if d[0]]), ", ".join(sorted(set(d[0] for d in dp if d[0])))))


from rules.parcommon import check_comp_threaded  # noqa: E402


def check_signed_tests(ck, fn, tag):
    """a local whose sign is tested (x < 0, x > 0 with both outcomes handled) must have a signed type in every instantiation"""
    n = 0
    for z in fn.nodes():
        b = match.binop(z, ("<",)) if z["k"] == "BinaryOperator" else None
        if not b or const_int(b[2]) != 0:
            continue
        d = ref_of(b[1])
        if d is None:
            continue
        decl = [v for v in fn.nodes() if v["k"] == "VarDecl" and v.get("did") == d]
        if not decl:
            continue
        n += 1
        ty = (decl[0].get("ty") or "")
        if "unsigned" in ty:
            ck.violation("SIGN-TEST-SIGNED", fn.qname, "%s:%s" % (tag, decl[0].get("name")),
                         "`%s < 0` decides a branch of the refinement, but in this instantiation `%s` has type %s: the difference wraps, the branch is dead "
                         "and the other one runs with a huge value" % (decl[0].get("name"), decl[0].get("name"), ty), fn.nloc(z))
        else:
            ck.ok("SIGN-TEST-SIGNED", "%s %s" % (tag, decl[0].get("name")), "type %s" % ty)
    return n


def check_partition_in(ck, tu):
    """the C08 rules for whatever multisequence_partition / multisequence_selection instantiations a translation unit
    contains (used by C07 and C06, whose exact splitting stands on the partition)"""
    check_lexi(ck, tu)
    fps, fss = tu.find(qname=PART), tu.find(qname=SEL)
    n = 0
    for fp in fps:
        tag = "partition<%s>" % fp.targs[1]
        check_index_guards(ck, fp, tag)
        check_pq_and_edges(ck, fp, tag, True)
        check_signed_tests(ck, fp, tag)
        twins = [f for f in fss if f.targs[2] == fp.targs[1]]
        if twins:
            check_twins(ck, fp, twins[0])
        n += 1
    return n


def run(ck):
    ck.explanation = (
        "The numeric refinement (halving, skew correction, returned ranks) is not decidable statically. Decided necessary conditions: the two "
        "tie-break comparators are the strict lexicographic (value, sequence index) order and its reverse (decision tables); the skew-correction "
        "queues have the right orientation and source; the edge scans keep maximum / minimum; the partition's refinement decision compares "
        "(element, sequence) pairs (found and fixed: it compared keys only, so runs of equal elements were split against the sequence order); every "
        "element access is dominated by an index < seqlen test; the two copies of the algorithm (partition / selection) agree on every decision "
        "except three documented ones; every standard ordering algorithm called inside receives the caller's comparator (COMP-THREADED); locals whose "
        "sign is tested are signed in every instantiation, including an unsigned rank type (SIGN-TEST-SIGNED).")
    types = ["int"] if ck.tier == "quick" else ["int", "std::string"]
    for t in types:
        tu = ir.extract("witness/C08_partition.cpp", defines=["WITNESS_T=" + t], extra_flags=["-include", "string"])
        check_lexi(ck, tu)
        fps, fss = tu.some(qname=PART), tu.some(qname=SEL)
        ck.require(len(fps) == 2 and len(fss) == 2, "expected the signed/less and the unsigned/greater instantiation of both functions")

        def rank_ty(fn, isp):
            return fn.targs[1] if isp else fn.targs[2]
        for fp in fps:
            fs = [f for f in fss if rank_ty(f, False) == rank_ty(fp, True)][0]
            suffix = "<%s>" % rank_ty(fp, True)
            for fn, tag, isp in ((fp, "partition" + suffix, True), (fs, "selection" + suffix, False)):
                check_index_guards(ck, fn, tag)
                check_pq_and_edges(ck, fn, tag, isp)
                check_comp_threaded(ck, fn, tag)
                check_signed_tests(ck, fn, tag)
            check_twins(ck, fp, fs)
    m = len(types)
    ck.floor("LEXI-TABLE", 4 * m)
    ck.floor("INDEX-GUARD", 4 * m)
    ck.floor("PQ-ORIENT", 4 * m)
    ck.floor("EDGE-TIEBREAK", 4 * m)
    ck.floor("MIDDLE-LEXI", 2 * m)
    ck.floor("TWIN-AGREE", 2 * m)
    ck.floor("COMP-THREADED", 4 * m)
    ck.floor("SIGN-TEST-SIGNED", 2 * m)
